"""Generators for the C01 schema family and for texts over a schema's vocabulary (with faults)."""
from . import schemafam as F
from .sexp import Atom

KEYNAMES = {
    "basic-key": ["alpha", "Beta-x", "gamma.1", "delta_q", "K9", "host-name"],
    "identifier": ["alpha", "Beta_x", "gamma1", "delta_q", "K9", "host_name"],
    "ipaddr-or-hostname": ["alpha", "Beta-x", "gamma.x1", "delta_q", "K9x", "host-name"],
}
DTS = ["string", "integer", "boolean", "port-number", "byte-size", "time-interval", "identifier",
       "basic-key", "string-list", "inet-address", "null", "float", "zcvdt.marker", "ipaddr-or-hostname",
       "inet-binding-address", "socket-address", "dotted-name"]
GOOD = {
    "string": ["hello world", "x", "a  b", "$$cash", "#notcomment", "(paren)", "ünï", "k=v a=b", "=x="],
    "null": ["anything", "x y"],
    "integer": ["0", "-12", "+7", "1_000", "99999999999999999999"],
    "boolean": ["yes", "No", "TRUE", "off", "On", "false"],
    "port-number": ["0", "80", "65535"],
    "byte-size": ["10", "2kb", "3MB", "1Gb"],
    "time-interval": ["5", "10s", "2M", "1h", "3D"],
    "identifier": ["abc", "_x1", "CamelCase"],
    "basic-key": ["abc", "A-b.c_d", "z9"],
    "string-list": ["a b  c", "one", "x\ty"],
    "inet-address": ["host:80", "Host.Example", "8080", "[::1]:22", "::1", ":99", "HOST:"],
    "inet-binding-address": ["host:80", ":99", "8080"],
    "socket-address": ["/var/run/x.sock", "host:80", "::1", "[::1]:22", "8080"],
    "float": ["1.5", "-2", "1e3", ".5", "1_0.0"],
    "zcvdt.marker": ["fine", "ok ok"],
    "ipaddr-or-hostname": ["Host.Example", "10.0.0.1", "::1", "a_b-c"],
    "dotted-name": ["a.b.c", "_x", "A1.b2"],
}
BAD = {
    "integer": ["x", "1.5", "", "1__0", "- 1"],
    "boolean": ["maybe", "1", ""],
    "port-number": ["-1", "65536", "http"],
    "byte-size": ["10tb", "kb", "1.5mb", "mb"],
    "time-interval": ["10w", "s", "1.5h"],
    "identifier": ["1abc", "a-b", "", "a b"],
    "basic-key": ["1abc", "_a", "a b", ""],
    "inet-address": ["host:port", "a b", "host:70000"],
    "inet-binding-address": ["host:port", "a b"],
    "socket-address": ["host:port", "a b"],
    "float": ["x", "1..2", "", "1e"],
    "zcvdt.marker": ["this is !bad", "!bad"],
    "ipaddr-or-hostname": ["-x", "a b", "1.2.3.256.", "a:b"],
    "dotted-name": ["a..b", ".a", "1a"],
}


def _free_name(rng, n):
    """a section name nobody declared: mostly plain, sometimes with cased non-ASCII letters (lower-casing is not case folding:
    'Straße' stays 'straße', and it is not ASCII-only: 'KÜCHE' becomes 'küche')"""
    return rng.choice(["n%d", "n%d", "n%d", "N%d", "Stra\u00dfe%d", "K\u00dcCHE%d", "\u0414\u043e\u043c%d", "\u00c9cole-%d"]) % n


def _up(c):
    """the upper-case spelling of one character when that is a pure change of letter case (lower-cases back to the same
    text: not for 'ß' -> 'SS', final sigma, dotted capital I ...), else the character itself"""
    u = c.upper()
    return u if (len(u) == 1 and u.lower() == c.lower()) else c


def _upper(s):
    return "".join(_up(c) for c in s)


def _case_variant(rng, s):
    return "".join(_up(c) if rng.random() < 0.3 else c.lower() if (rng.random() < 0.3 and len(c.lower()) == 1) else c for c in s)


def gen_schema(rng, handlers=False, rich=True, phandler=0.5):
    """a random member of the family; with handlers, every key / multikey / section / multisection of the schema and of every
    section type carries a handler attribute with probability phandler"""
    kts = ["basic-key", "basic-key", "identifier", "ipaddr-or-hostname"]
    nabs = rng.choice([0, 1, 1, 2, 3]) if rich else 0
    ncon = rng.choice([1, 2, 3, 4, 5])
    types = []
    absnames = ["abs%d" % i for i in range(nabs)]
    connames = []
    for a in absnames:
        types.append(F.AbsD(a))
    hcount = [0]

    def handler():
        if handlers and rng.random() < phandler:
            hcount[0] += 1
            return "H%d" % hcount[0]
        return None

    def gen_children(kt, avail_types, depth_ok):
        names = list(KEYNAMES[kt])
        rng.shuffle(names)
        children = []
        nkeys = rng.randint(0, 4)
        have_plus = False
        attrs = set()
        for _ in range(nkeys):
            k = rng.random()
            dt = rng.choice(DTS)
            multi = rng.random() < 0.35
            required = rng.random() < 0.3
            if k < 0.2 and not have_plus:
                have_plus = True
                dflt = None
                if rng.random() < 0.5 and not required:
                    ks = rng.sample(names, rng.randint(1, 2)) if names else []
                    dflt = []
                    for kn in ks:
                        dflt.append((kn, _pick_default(rng, dt, 0.02)))
                        if multi and rng.random() < 0.4:
                            dflt.append((kn, _pick_default(rng, dt, 0.0)))
                attr = "map%d" % len(children)
                c = F.KeyD("+", dt, multi, required, dflt, attr, handler())
            else:
                if not names:
                    continue
                n = names.pop()
                if multi:
                    dflt = [_pick_default(rng, dt, 0.02) for _ in range(rng.randint(1, 3))] if (rng.random() < 0.5 and not required) else None
                else:
                    dflt = _pick_default(rng, dt, 0.02) if (not required and rng.random() < 0.5) else None
                    if dflt is not None and dt in ("string", "null", "string-list") and rng.random() < 0.15:
                        dflt = rng.choice(["", "  "])      # default='' is a default (the empty string), not "no default"
                attr = None
                if kt == "ipaddr-or-hostname" or "." in n or rng.random() < 0.2:
                    attr = "at%d" % len(children)
                c = F.KeyD(n, dt, multi, required, dflt, attr, handler())
            children.append(c)
        if depth_ok and avail_types:
            for _ in range(rng.randint(0, 3)):
                t = rng.choice(avail_types)
                multi = rng.random() < 0.4
                required = rng.random() < 0.25
                if multi:
                    nm = rng.choice(["*", "+"])
                else:
                    nm = rng.choice(["*", "+", None, "fixed%d" % len(children), "Fix-%d" % len(children)])
                    if kt == "identifier" and nm and nm.startswith("Fix-"):
                        nm = "Fix_%d" % len(children)
                attr = None
                if nm in ("*", "+", None) or rng.random() < 0.2:
                    attr = "sec%d" % len(children)
                children.append(F.SectD(t, nm, multi, required, attr, handler()))
        rng.shuffle(children)
        return children

    avail = list(absnames)
    neutral = set()       # types whose inherited fixed names are fixed points of every key type
    for i in range(ncon):
        n = "type%d" % i
        kt = rng.choice(kts)
        r = rng.random()
        sdt = rng.choice([None, None, "zcvdt.wrap", "zcvdt.sectmarker"])
        if r < 0.15 and rich:
            # a "neutral" base: lower-case alphanumeric fixed names, wildcard defaults with mixed-case keys
            ch = [F.KeyD(nm, rng.choice(["string", "integer", "boolean"]), False, False, None, None, handler())
                  for nm in rng.sample(["alpha", "kappa9", "omega"], rng.randint(0, 2))]
            multi = rng.random() < 0.5
            dk = [("Alpha1", "x"), ("Beta2", "y")] + ([("Alpha1", "z")] if multi else [])
            ch.append(F.KeyD("+", "string", multi, False, dk[: rng.randint(1, len(dk))], "nmap", handler()))
            rng.shuffle(ch)
            types.append(F.TypeD(n, ch, None, sdt, implements=rng.choice(absnames) if absnames and rng.random() < 0.5 else None))
            connames.append(n)
            avail.append(n)
            neutral.add(n)
            continue
        if r < 0.4 and connames and rich:
            base = rng.choice(sorted(neutral)) if neutral and rng.random() < 0.6 else rng.choice(connames)
            newkt = rng.choice(["identifier", "ipaddr-or-hostname", "basic-key"]) if base in neutral and rng.random() < 0.7 else None
            t = F.TypeD(n, gen_children_ext(rng, base, types, gen_children, avail), newkt, sdt if rng.random() < 0.5 else None,
                        extends=base, implements=rng.choice(absnames) if absnames and rng.random() < 0.4 else None)
            if base in neutral:
                neutral.add(n)
        else:
            t = F.TypeD(n, gen_children(kt, avail, True), kt if kt != "basic-key" or rng.random() < 0.3 else None, sdt,
                        implements=rng.choice(absnames) if absnames and rng.random() < 0.6 else None)
        types.append(t)
        connames.append(n)
        avail.append(n)
    kt = rng.choice(kts)
    top = F.SchemaD(gen_children(kt, avail, True), types, kt if kt != "basic-key" else None,
                    rng.choice([None, None, "zcvdt.wrap"]), "Top" if handlers and rng.random() < 0.5 else None)
    if not any(c.kind == "sect" for c in top.children) and avail:
        top.children.append(F.SectD(rng.choice(avail), "*", True, False, "allsecs", handler()))
    return top


def gen_children_ext(rng, base, types, gen_children, avail):
    """own children of a derived type: fresh names (valid under every key type, no clash with inherited ones)"""
    i = len(types)
    own = []
    if rng.random() < 0.7:
        own.append(F.KeyD("own%dk" % i, rng.choice(DTS), False, False, None, "own%dk" % i, None))
    if rng.random() < 0.3:
        own.append(F.KeyD("own%dm" % i, "string", True, False, ["d1"], "own%dm" % i, None))
    return own


OVERRIDE_KT = [("identifier", "basic-key"), ("identifier", "basic-key"), ("identifier", "ipaddr-or-hostname"),
               ("basic-key", "identifier"), ("ipaddr-or-hostname", "identifier")]


def add_keytype_override(rng, sd):
    """extends (in place) a schema description by a section type that OVERRIDES the key type it inherits, with inherited fixed
    key names that are not fixed points of the new key type: a base type under a case-sensitive key type declaring mixed-case
    keys ('MaxSize', 'Beta_x') and a derived type under a case-insensitive one, or the other way round.  The derived type
    lists the inherited keys as the BASE's key type converted them, so under the new key type some of them are reachable
    in one spelling only, or in none (every spelling rejected, or collected by a wildcard key): whatever the loader does
    with such a key, under a case-insensitive key type it must do for every letter case of the key line.
    A multisection slot for the derived type (and sometimes the base type) is added at top level.  Returns the two type names."""
    i = len(sd.types)
    bkt, dkt = rng.choice(OVERRIDE_KT)
    pool = {"identifier": ["MaxSize", "Beta_x", "K9", "alpha", "kappa9", "MaxAge"],
            "basic-key": ["MaxSize", "Beta-x", "K9", "alpha", "kappa9", "Max.Age"],
            "ipaddr-or-hostname": ["MaxSize", "Beta-x", "K9x", "alpha", "kappa9", "Max.Age"]}[bkt]
    bname, dname = "ovb%d" % i, "ovd%d" % i
    ch = []
    for j, nm in enumerate(rng.sample(pool, rng.randint(1, 3))):
        dt = rng.choice(["string", "integer", "boolean", "string"])
        multi = rng.random() < 0.25
        dflt = None
        if rng.random() < 0.5:
            dflt = [_pick_default(rng, dt, 0.0)] if multi else _pick_default(rng, dt, 0.0)
        ch.append(F.KeyD(nm, dt, multi, False, dflt, "ov%da%d" % (i, j), None))
    if rng.random() < 0.4:
        # a wildcard key: collects the key lines that reach no fixed key (its default keys are re-keyed by the derived type)
        multi = rng.random() < 0.4
        dk = [("Alpha1", "x"), ("Beta2", "y")] + ([("Alpha1", "z")] if multi else [])
        ch.append(F.KeyD("+", "string", multi, False, dk[: rng.randint(1, len(dk))] if rng.random() < 0.5 else None, "ov%dmap" % i, None))
    rng.shuffle(ch)
    sd.types.append(F.TypeD(bname, ch, bkt, None))
    own = []
    if rng.random() < 0.7:
        own.append(F.KeyD("own%dk" % i, rng.choice(["string", "integer"]), False, False, None, "own%dk" % i, None))
    sd.types.append(F.TypeD(dname, own, dkt, None, extends=bname))
    sd.children.append(F.SectD(dname, "*", True, False, "ovsecs%d" % i, None))
    if rng.random() < 0.3:
        sd.children.append(F.SectD(bname, "+", True, False, "ovbase%d" % i, None))
    return bname, dname


def add_checked_section(rng, sd):
    """extends (in place) a schema description by a section type whose DATATYPE checks the section as a whole
    (zcvdt.sectmarker: rejects, with ValueError, a section one of whose own text attributes holds the marker '!sbad') and by a
    holder type in which it is nested - as the occupant of a single slot ('*', '+', no name, a fixed name) or as a member of a
    multisection - plus, sometimes, an outer holder around the holder; a multisection slot for the outermost holder is added
    at top level.  Such a section converts line by line and is rejected only when the section that encloses it is closed.
    Returns the names of the checked type and of the holder."""
    i = len(sd.types)
    cname, hname = "chk%d" % i, "hold%d" % i
    kt = rng.choice([None, None, "identifier", "ipaddr-or-hostname"])
    ch = [F.KeyD("note", rng.choice(["string", "null", "zcvdt.marker"]), False, rng.random() < 0.3, None, "chk%dnote" % i, None)]
    if ch[0].dt != "null" and not ch[0].required and rng.random() < 0.5:
        ch[0].default = rng.choice(["fine", "n"])
    if rng.random() < 0.6:
        ch.append(F.KeyD("low", "integer", False, False, rng.choice([None, "0"]), "chk%dlow" % i, None))
    if rng.random() < 0.3:
        ch.append(F.KeyD("tags", "string", True, False, None, "chk%dtags" % i, None))
    rng.shuffle(ch)
    sd.types.append(F.TypeD(cname, ch, kt, "zcvdt.sectmarker"))
    multi = rng.random() < 0.5
    nm = rng.choice(["*", "+"]) if multi else rng.choice(["*", "+", None, "fixedchk"])
    hch = [F.SectD(cname, nm, multi, rng.random() < 0.3, "hold%dchk" % i, None)]
    if rng.random() < 0.6:
        hch.append(F.KeyD("title", "string", False, False, None, "hold%dtitle" % i, None))
    if rng.random() < 0.3:
        hch.append(F.KeyD("level", "integer", False, rng.random() < 0.5, None, "hold%dlevel" % i, None))
    rng.shuffle(hch)
    sd.types.append(F.TypeD(hname, hch, None, rng.choice([None, None, "zcvdt.wrap"])))
    outer = hname
    if rng.random() < 0.4:
        outer = "outer%d" % i
        och = [F.SectD(hname, rng.choice(["*", "+"]), True, False, "outer%dholds" % i, None)]
        if rng.random() < 0.5:
            och.append(F.KeyD("title", "string", False, False, None, "outer%dtitle" % i, None))
        rng.shuffle(och)
        sd.types.append(F.TypeD(outer, och, None, None))
    sd.children.append(F.SectD(outer, "*", True, False, "holders%d" % i, None))
    return cname, hname


def add_recursive_types(rng, sd):
    """extends (in place) a schema description by section types that can nest WITHOUT BOUND - nothing in a schema limits how
    deeply sections nest once a type can (directly or indirectly) hold sections of its own type:
      'direct'   a type with a slot for sections of its own type;
      'abstract' an abstract type, and one or two concrete types that implement it and have a slot for it;
      'mutual'   two types with a slot for each other.
    The slot is a single section ('*', '+') or a multisection; the types have a few optional keys, nothing required, so a chain
    of any length conforms.  A slot for the outermost section is added at top level.  Returns the names of the concrete types."""
    i = len(sd.types)
    shape = rng.choice(["direct", "direct", "abstract", "abstract", "mutual"])

    def keys(tag):
        ch = [KeyD_("label", "string", False, False, rng.choice([None, "none"]), "rec%d%slabel" % (i, tag), None)]
        if rng.random() < 0.5:
            ch.append(KeyD_("level", "integer", False, False, rng.choice([None, "0"]), "rec%d%slevel" % (i, tag), None))
        if rng.random() < 0.3:
            ch.append(KeyD_("tags", "string", True, False, None, "rec%d%stags" % (i, tag), None))
        return ch

    def slot(ty, tag):
        multi = rng.random() < 0.4
        return F.SectD(ty, rng.choice(["*", "+"]) if multi else rng.choice(["*", "*", "+"]), multi, False, "rec%d%schild" % (i, tag), None)

    KeyD_ = F.KeyD
    kt = lambda: rng.choice([None, None, "identifier", "ipaddr-or-hostname"])      # noqa: E731
    a, b, ab = "rnode%d" % i, "rleaf%d" % i, "rabs%d" % i
    if shape == "direct":
        ch = keys("a") + [slot(a, "a")]
        rng.shuffle(ch)
        sd.types.append(F.TypeD(a, ch, kt(), rng.choice([None, None, "zcvdt.wrap"])))
        names, outer = [a], a
    elif shape == "abstract":
        sd.types.append(F.AbsD(ab))
        names = [a] + ([b] if rng.random() < 0.5 else [])
        for n, tag in zip(names, "ab"):
            ch = keys(tag) + [slot(ab, tag)]
            rng.shuffle(ch)
            sd.types.append(F.TypeD(n, ch, kt(), rng.choice([None, None, "zcvdt.wrap"]), implements=ab))
        outer = ab
    else:
        # (a type is known from its opening tag on, a type named further down is not: the second type holds the first, the
        #  first reaches the second through an abstract type that only the second implements)
        sd.types.append(F.AbsD(ab))
        cha = keys("a") + [slot(ab, "a")]
        rng.shuffle(cha)
        sd.types.append(F.TypeD(a, cha, kt(), None))
        chb = keys("b") + [slot(a, "b")]
        rng.shuffle(chb)
        sd.types.append(F.TypeD(b, chb, kt(), None, implements=ab))
        names, outer = [a, b], a
    sd.children.append(F.SectD(outer, "*", rng.random() < 0.5, False, "recroot%d" % i, None))
    return names


def chain_holders(elab, depth):
    """for k = 0 .. depth the containers (names of concrete section types; None = the top level) that can hold a chain of k
    enclosing sections around an innermost section that may be EMPTY: the innermost section is of a type that requires
    nothing, the enclosing ones of types that require no section (a chain alone has to conform; the keys are given).
    Types that can nest without bound are those found at every k."""
    cons = {n: te[1][4] for n, te in elab[1] if te[0] == "concrete"}
    cons[None] = elab[2][4]
    emptyable = {n for n in cons if n is not None and not any(info[4] for _, info in cons[n])}
    linkable = {n for n in cons if n is not None and not any(info[0] == "sect" and info[4] for _, info in cons[n])}

    def holders(inner):
        return {n for n, children in cons.items()
                if any(info[0] == "sect" and any(t in inner for t in _implementers(elab, info[5])) for _, info in children)}

    out = [holders(emptyable)]
    for _ in range(depth):
        out.append(holders(out[-1] & linkable))
    return out, emptyable


def gen_chain_items(rng, elab, depth, pfill=0.6, pbad=0.0):
    """an item tree that nests sections exactly `depth` deep around one EMPTY innermost section (depth 0: the empty section
    stands at top level).  The top level is an ordinary text of the schema (optional sections up to two deep); every enclosing
    section of the chain gets the keys the generator of the ordinary texts gives it and no further sections, except now and
    then an empty sibling in a multisection slot.  The types are chosen so that the chain conforms (chain_holders); None when
    the schema offers no such chain from the top level (it has no types that nest without bound, or they need more than a chain).
    The innermost section is marked to be written '<t/>' or '<t>' '</t>' at random."""
    hold, emptyable = chain_holders(elab, depth)
    if None not in hold[depth]:
        return None

    def level(tyname, d):
        """the items of a container of type tyname that holds d more enclosing sections and then the empty one"""
        children, kt = _children_of(elab, tyname)
        items = gen_items(rng, elab, tyname, 2 if tyname is None else 0, pfill, pbad=pbad, fill_required=True)
        slots = []
        for key, info in children:
            if info[0] != "sect":
                continue
            for t in _implementers(elab, info[5]):
                if (t in emptyable) if d == 0 else (t in hold[d - 1] and not any(i2[0] == "sect" and i2[4] for _, i2 in _children_of(elab, t)[0])):
                    nm = info[1] if info[1] not in ("*", "+") else (_free_name(rng, 1000 + d) if info[1] == "+" or rng.random() < 0.5 else None)
                    if claiming_child(elab, children, t, nm.lower() if nm else None) is info:
                        slots.append((info, t, nm))
        if not slots:
            return None
        info, t, nm = rng.choice(slots)
        if not info[3]:
            # a slot for one section: the chain is its occupant
            items = [it for it in items
                     if not (it[0] == "sect" and claiming_child(elab, children, it[1].lower(), it[2].lower() if it[2] else None) is info)]
        if d == 0:
            s = sect(_case_variant(rng, t) if rng.random() < 0.3 else t, nm, [], empty=rng.random() < 0.5)
        else:
            sub = level(t, d - 1)
            if sub is None:
                return None
            s = sect(_case_variant(rng, t) if rng.random() < 0.3 else t, nm, sub)
        new = [s]
        if info[3] and t in emptyable and rng.random() < 0.2:
            # a sibling in the same multisection slot: an empty section under another name
            new.insert(rng.randint(0, 1), sect(t, "sib%d" % d, [], empty=rng.random() < 0.5))
        pos = rng.randint(0, len(items))
        items[pos:pos] = new
        return items

    return level(None, depth)


ATTR_SPELLINGS = [lambda n: "_" + n, lambda n: "_" + n, lambda n: "__" + n, lambda n: "_" + n + "_", lambda n: n + "_",
                  lambda n: "__" + n + "__", lambda n: n.upper(), lambda n: n.capitalize(), lambda n: "_" + n.capitalize()]


def implicit_attribute(c):
    """the attribute name the schema loader derives for an item that states none (None for '*' / '+' / unnamed items)"""
    if c.name in (None, "*", "+"):
        return None
    return c.name.lower().replace("-", "_")


def respell_attributes(rng, sd, p=0.5, pgive=0.2):
    """rewrites (in place) the attribute names a schema description GIVES: an attribute name is any identifier, not only a
    lower-case word - it may start or end with underscores ('_at3', '__map0__', 'sec2_'), be written in upper or mixed case
    ('AT3', '_Sec1'); names derived from key names can never look like that (a key name starts with a letter and is
    lower-cased), only names given with attribute=... can.  Each given name is respelled with probability p (the rest stay as
    they are), and a share pgive of the fixed-name keys and sections that give none get one made from the derived name
    ('max-idle' -> '_max_idle').  A new name is used only if no item of the schema has it (given or derived), so the attributes
    of every type stay distinct, inherited ones included.  Returns the number of names changed."""
    items = [c for t in sd.types if not t.abstract for c in t.children] + list(sd.children)
    used = {c.attr or implicit_attribute(c) for c in items}
    n = 0
    for c in items:
        stem = c.attr
        if stem is None:
            stem = implicit_attribute(c)
            if stem is None or "." in stem or rng.random() >= pgive:
                continue
        elif rng.random() >= p:
            continue
        new = rng.choice(ATTR_SPELLINGS)(stem)
        if new in used:
            continue
        used.add(new)
        c.attr = new
        n += 1
    return n


def given_attributes(elab):
    """all attribute names of the schema (top level and every concrete type, inherited ones listed where they are inherited)"""
    out = []
    for children in [elab[2][4]] + [te[1][4] for _, te in elab[1] if te[0] == "concrete"]:
        out.extend(info[2] for _, info in children)
    return out


def _pick_default(rng, dt, pbad):
    """schema defaults: never empty or blank (an empty <default/> element has no position in the real loader and
    fails with TypeError when it does not convert - a schema authoring error outside every property's quantifier)"""
    for _ in range(20):
        v = _pick_value(rng, dt, pbad)
        if v.strip():
            return v
    return "x"


def _pick_value(rng, dt, pbad):
    if rng.random() < pbad and dt in BAD:
        return rng.choice(BAD[dt])
    return rng.choice(GOOD[dt])


# ------------------------------------------------------------------ texts
class Item:
    pass


def kv(key, value):
    return ["kv", key, value]


def sect(ty, name, items, empty=False):
    return ["sect", ty, name, items, empty]


def _children_of(elab, tyname):
    if tyname is None:
        return elab[2][4], elab[2][2]
    for n, te in elab[1]:
        if n == tyname and te[0] == "concrete":
            return te[1][4], te[1][2]
    return None, None


def _implementers(elab, tyname):
    for n, te in elab[1]:
        if n == tyname:
            if te[0] == "abstract":
                return list(te[2])
            return [n]
    return []


# datatypes that convert the EMPTY string (a key alone on its line, or a value that substitutes to nothing, gives '')
EMPTY_OK = ("string", "null", "string-list", "zcvdt.marker")


def _value(rng, dt, pempty, pbad=0.03):
    """a value for a key of datatype dt; with probability pempty the empty value where the datatype converts it (a key that
    is PRESENT with the value '' - not an absent key: it holds the conversion of '', never the schema default)"""
    if pempty and dt in EMPTY_OK and rng.random() < pempty:
        return ""
    return _pick_value(rng, dt, pbad)


def gen_items(rng, elab, tyname, depth, pfill=0.75, pempty=0.0, pbad=0.03, fill_required=False):
    """a (mostly) conforming item list for the container type (pempty: share of empty values among the keys whose
    datatype converts the empty string; 0 = never, and then no random draw is spent on it; pbad: share of values that the
    datatype of their key does not convert; fill_required: the sections that the schema REQUIRES are given below the depth
    bound too - only the optional ones stop there - so that the bound does not cost conformance)"""
    children, kt = _children_of(elab, tyname)
    items = []
    usednames = set()
    for key, info in children:
        if info[0] == "key":
            _, name, attr, multi, mn, dt, dflt, h = info
            fill = rng.random() < pfill or mn
            if not fill:
                continue
            n = rng.randint(1, 3) if multi else 1
            if name == "+":
                pool = KEYNAMES.get(kt, KEYNAMES["basic-key"]) + ["zz-arb", "Yy"] if kt != "identifier" else KEYNAMES["identifier"] + ["zz_arb", "Yy"]
                fixed = {c[1][1] for c in children if c[1][0] == "key"} | {c[0] for c in children if c[0]}
                ks = [k for k in pool if _norm(kt, k) not in fixed]
                rng.shuffle(ks)
                for k in ks[: rng.randint(1, 2)]:
                    for _ in range(n):
                        items.append(kv(_maybe_case(rng, kt, k), _value(rng, dt, pempty, pbad)))
            else:
                for _ in range(n):
                    items.append(kv(_maybe_case(rng, kt, name), _value(rng, dt, pempty, pbad)))
        else:
            _, name, attr, multi, mn, ty, h = info
            fill = rng.random() < pfill or mn
            if not fill or (depth <= 0 and not (fill_required and mn and depth > -8)):
                continue
            impls = _implementers(elab, ty)
            if not impls:
                continue
            for _ in range(rng.randint(1, 3) if multi else 1):
                t = rng.choice(impls)
                if name == "*":
                    nm = rng.choice([None, _free_name(rng, len(usednames))])
                elif name == "+":
                    nm = _free_name(rng, len(usednames))
                else:
                    nm = name
                if nm and nm.lower() in usednames:
                    continue
                # the first child in schema order that claims (type, name) decides: keep the section only if that
                # is this slot (reference slot selection, written from the property statement)
                if claiming_child(elab, children, t, nm.lower() if nm else None) is not info:
                    continue
                if nm:
                    usednames.add(nm.lower())
                sub = gen_items(rng, elab, t, depth - 1, pfill, pempty, pbad, fill_required)
                items.append(sect(_case_variant(rng, t) if rng.random() < 0.3 else t,
                                  (_case_variant(rng, nm) if rng.random() < 0.3 else nm) if nm else None,
                                  sub, empty=(not sub and rng.random() < 0.6)))
    # keys may be interleaved with sections freely
    if rng.random() < 0.5:
        rng.shuffle(items)
    return items


def add_namesake_keys(rng, elab, items, p=0.5):
    """gives (in place) key lines whose KEY is the name of a section of the same container: in every container that has an
    arbitrary key (<key name='+'> / <multikey name='+'>) and named sections, with probability p, one key spelled like one of
    the section names (a name the key type converts, no fixed key or fixed section name, not given as a key already), at a
    random position before, between or after the sections.  Keys and section names are different things (the mapping of
    the arbitrary key gets the entry, the section keeps its name); returns the number of key lines added."""
    import re
    n = 0
    for cont, tyname in _containers(items, None, []):
        children, kt = _children_of(elab, tyname)
        if children is None:
            continue
        wild = [info for _, info in children if info[0] == "key" and info[1] == "+"]
        if not wild or any(it[0] in ("raw", "import", "include") for it in cont):
            continue
        fixed = {c[1][1] for c in children if c[1][0] == "key"} | {c[0] for c in children if c[0]}
        given = {_norm(kt, it[1]) for it in cont if it[0] == "kv"}
        names = []
        for it in cont:
            if it[0] == "sect" and it[2] and re.match(r"[a-zA-Z][a-zA-Z0-9]*\Z", it[2]):
                k = it[2].lower()       # the parser lower-cases section names
                if k not in fixed and k not in given and k not in names:
                    names.append(k)
        if not names or rng.random() >= p:
            continue
        k = rng.choice(names)
        cont.insert(rng.randint(0, len(cont)), kv(_maybe_case(rng, kt, k), _value(rng, wild[-1][5], 0.0)))
        n += 1
    return n


EMPTY_NAME = "zcvnil"


def empty_by_reference(rng, items, p=0.5):
    """rewrites (in place) a share of the empty values as references to a name defined as nothing ('$zcvnil', '${ZcvNil}':
    the value the key gets is '' all the same) and puts the definition first; returns the number of values rewritten"""
    n = 0
    for cont, _ in _containers(items, None, []):
        for it in cont:
            if it[0] == "kv" and it[2] == "" and rng.random() < p:
                it[2] = rng.choice(["$" + EMPTY_NAME, "${" + EMPTY_NAME + "}", "${ZcvNil}", "$" + EMPTY_NAME + "$ZCVNIL"])
                n += 1
    if n:
        items.insert(0, ["define", EMPTY_NAME, ""])
    return n


def empty_given(elab, items):
    """the kinds of keys the item tree gives WITH the empty value (literally or through an empty definition), for the
    evidence: 'single+default', 'single', 'multi+default', 'multi', 'wild+default', 'wild'"""
    out = []
    nil = {"$" + EMPTY_NAME, "${" + EMPTY_NAME + "}", "${ZcvNil}", "$" + EMPTY_NAME + "$ZCVNIL"}
    for cont, tyname in _containers(items, None, []):
        children, kt = _children_of(elab, tyname)
        if children is None:
            continue
        for it in cont:
            if it[0] != "kv" or not (it[2] == "" or it[2] in nil):
                continue
            hit = None
            for key, info in children:
                if info[0] == "key" and info[1] == _norm(kt, it[1]):
                    hit = info
                    break
                if info[0] == "key" and info[1] == "+" and hit is None:
                    hit = info
            if hit is None:
                continue
            kind = "wild" if hit[1] == "+" else "multi" if hit[3] else "single"
            out.append(kind + ("+default" if (isinstance(hit[6], list) and len(hit[6]) > 1) else ""))
    return out


def claiming_child(elab, children, ty, name):
    """the first child, in schema order, that claims a header (type, name); None if none does or it refuses"""
    for key, info in children:
        if key:
            if key == name:
                if info[0] != "sect":
                    return None
                return info if ty in _implementers(elab, info[5]) else None
        elif info[0] == "sect":
            if info[5] == ty:
                return info if (name or info[1] == "*") else None
            if ty in _implementers(elab, info[5]) and _is_abstract(elab, info[5]):
                return info
    return None


def _is_abstract(elab, tyname):
    return any(n == tyname and te[0] == "abstract" for n, te in elab[1])


def _norm(kt, k):
    return k if kt == "identifier" else k.lower()


def _maybe_case(rng, kt, k):
    if kt == "identifier":
        return k
    return _case_variant(rng, k) if rng.random() < 0.3 else k


FAULTS = ["unknown-key", "key-is-section-name", "repeat-single-key", "repeat-wild-key", "reuse-section-name",
          "unknown-type", "abstract-type", "wrong-type", "wrong-type-fixed-name", "missing-name", "star-name", "wrong-fixed-name",
          "second-single-section", "drop-item", "bad-value", "bad-key", "junk-line", "unclosed", "stray-close",
          "sect-marker", "exc-value", "dup-block", "dollar"]


def _containers(items, tyname, acc):
    acc.append((items, tyname))
    for it in items:
        if it[0] == "sect":
            _containers(it[3], it[1].lower(), acc)
    return acc


def apply_fault(rng, elab, items, fault):
    """mutates the item tree in place; returns a description or None if not applicable.
    The containers of the tree are tried in random order until one is found where the fault applies, so that rare
    faults (a key named like a fixed-name section, a reused section name, ...) are not lost to an unlucky draw."""
    conts = _containers(items, None, [])
    rng.shuffle(conts)
    for cont, tyname in conts:
        r = _apply_fault_at(rng, elab, cont, tyname, fault)
        if r:
            return r
    return None


def _apply_fault_at(rng, elab, cont, tyname, fault):
    children, kt = _children_of(elab, tyname)
    if children is None:
        children, kt = [], "basic-key"
    pos = rng.randint(0, len(cont))
    if fault == "unknown-key":
        cont.insert(pos, kv("nosuchkey" if kt != "ipaddr-or-hostname" else "no-such.key", "v"))
    elif fault == "key-is-section-name":
        names = [c[0] for c in children if c[0] and c[1][0] == "sect"]
        if not names:
            return None
        nm = rng.choice(names)
        if rng.random() < 0.6:
            # without the section itself: the key line is then the only thing that touches the slot
            cont[:] = [it for it in cont if not (it[0] == "sect" and (it[2] or "").lower() == nm.lower())]
            pos = rng.randint(0, len(cont))
        cont.insert(pos, kv(_maybe_case(rng, kt, nm), "v"))
    elif fault == "repeat-single-key":
        ks = [it for it in cont if it[0] == "kv"]
        if not ks:
            return None
        k = rng.choice(ks)
        cont.insert(pos, kv(_maybe_case(rng, kt, k[1]), k[2]))
    elif fault == "repeat-wild-key":
        ks = [it for it in cont if it[0] == "kv"]
        if not ks:
            return None
        k = rng.choice(ks)
        cont.insert(pos, kv(k[1].upper() if kt != "identifier" else k[1], "other"))
    elif fault == "reuse-section-name":
        ss = [it for it in cont if it[0] == "sect" and it[2]]
        if not ss:
            return None
        s = rng.choice(ss)
        cont.insert(pos, sect(s[1], _upper(s[2]), [], True))
    elif fault == "unknown-type":
        cont.insert(pos, sect("nosuchtype", rng.choice([None, "x"]), [], rng.random() < 0.5))
    elif fault == "abstract-type":
        abss = [n for n, te in elab[1] if te[0] == "abstract"]
        if not abss:
            return None
        cont.insert(pos, sect(rng.choice(abss), rng.choice([None, "x"]), [], rng.random() < 0.5))
    elif fault == "wrong-type":
        cons = [n for n, te in elab[1] if te[0] == "concrete"]
        if not cons:
            return None
        cont.insert(pos, sect(rng.choice(cons), rng.choice([None, "w1", "fixed1"]), [], rng.random() < 0.5))
    elif fault == "wrong-type-fixed-name":
        # a known concrete type that the slot addressed by a FIXED name does not admit, under exactly that name
        fx = [(c[0], c[1]) for c in children if c[0] and c[1][0] == "sect"]
        if not fx:
            return None
        nm, info = rng.choice(fx)
        ok = set(_implementers(elab, info[5]))
        cons = [n for n, te in elab[1] if te[0] == "concrete" and n not in ok]
        if not cons:
            return None
        cont[:] = [it for it in cont if not (it[0] == "sect" and (it[2] or "").lower() == nm.lower())]
        cont.insert(rng.randint(0, len(cont)), sect(rng.choice(cons), _maybe_case(rng, kt, nm), [], rng.random() < 0.5))
    elif fault == "missing-name":
        ss = [it for it in cont if it[0] == "sect" and it[2]]
        if not ss:
            return None
        rng.choice(ss)[2] = None
    elif fault == "star-name":
        ss = [it for it in cont if it[0] == "sect"]
        if not ss:
            return None
        rng.choice(ss)[2] = rng.choice(["*", "+"])
    elif fault == "wrong-fixed-name":
        ss = [it for it in cont if it[0] == "sect"]
        if not ss:
            return None
        rng.choice(ss)[2] = "othername"
    elif fault in ("second-single-section", "dup-block"):
        ss = [it for it in cont if it[0] == "sect"]
        if not ss:
            return None
        s = rng.choice(ss)
        import copy
        d = copy.deepcopy(s)
        if fault == "second-single-section":
            d[2] = (d[2] + "b") if d[2] else rng.choice([None, "second"])
        cont.insert(pos, d)
    elif fault == "drop-item":
        if not cont:
            return None
        del cont[rng.randrange(len(cont))]
    elif fault == "bad-value":
        ks = [it for it in cont if it[0] == "kv"]
        if not ks:
            return None
        k = rng.choice(ks)
        dt = None
        for key, info in children:
            if info[0] == "key" and (info[1] == _norm(kt, k[1]) or info[1] == "+"):
                dt = info[5]
                if info[1] != "+":
                    break
        if dt not in BAD:
            return None
        k[2] = rng.choice(BAD[dt])
    elif fault == "bad-key":
        cont.insert(pos, kv(rng.choice(["1bad", "_x-", "-", "a:b", "é"]), "v"))
    elif fault == "junk-line":
        cont.insert(pos, ["raw", rng.choice(["<", ">", "</", "<>", "</>", "<a b c>", "(x) y", "%bogus x", "%define", "%include",
                                              "<a>b", "< a>", "%import", "<a (b)>", "%defines a b", "a(b c"])])
    elif fault == "unclosed":
        cont.insert(pos, ["raw", "<" + rng.choice([n for n, _ in elab[1]] or ["x"]) + ">"])
    elif fault == "stray-close":
        cont.insert(pos, ["raw", "</" + rng.choice([n for n, _ in elab[1]] or ["x"]) + ">"])
    elif fault == "sect-marker":
        ks = [it for it in cont if it[0] == "kv"]
        if not ks:
            return None
        rng.choice(ks)[2] = rng.choice(["!sbad", "x !sbad y"])
    elif fault == "exc-value":
        ks = [it for it in cont if it[0] == "kv"]
        if not ks:
            return None
        rng.choice(ks)[2] = rng.choice(["!exc", "!sexc"])
    elif fault == "dollar":
        ks = [it for it in cont if it[0] == "kv"]
        if not ks:
            return None
        rng.choice(ks)[2] = rng.choice(["$undefined", "$", "${x", "a$(NOSUCHENV_ZCV)", "$$ok"])
    else:
        return None
    return fault + "@" + str(tyname)


def render_lines(rng, items, depth=0, plain=False):
    """item tree -> list of physical lines (random layout unless plain)"""
    out = []
    ind = "" if plain else " " * rng.choice([0, 2, 4]) * (1 if depth else 0)
    for it in items:
        if not plain and rng.random() < 0.08:
            out.append(rng.choice(["", "# comment", "   ", "\t# c"]))
        if it[0] == "kv":
            sep = " " if plain else rng.choice([" ", "  ", "\t"])
            out.append(ind + it[1] + (sep + it[2] if it[2] != "" else "") + ("" if plain else rng.choice(["", " ", "\t"])))
        elif it[0] == "raw":
            out.append(ind + it[1])
        elif it[0] == "import":
            out.append(ind + "%import " + it[1])
        elif it[0] == "define":
            out.append(ind + "%define " + it[1] + (" " + it[2] if it[2] else ""))
        elif it[0] == "include":
            out.append(ind + "%include " + it[1])
        else:
            _, ty, nm, sub, empty = it
            hdr = ty + ((" " if plain else rng.choice([" ", "  "])) + nm if nm else "")
            if empty and not sub:
                out.append(ind + "<" + hdr + ("/>" if plain else rng.choice(["/>", " />"])))
            else:
                out.append(ind + "<" + hdr + ">")
                out.extend(render_lines(rng, sub, depth + 1, plain))
                out.append(ind + "</" + (ty if plain or rng.random() < 0.7 else ty.upper()) + ">")
    return out
