"""Generated component packages on a scratch sys.path entry (for %import / <import package=…>)."""
import os
import shutil
import sys
import tempfile

from . import schemafam as F
from .sexp import Atom

_counter = [0]


class PkgRoot:
    def __init__(self):
        base = "/dev/shm" if os.path.isdir("/dev/shm") else None
        self.root = tempfile.mkdtemp(prefix="zcv-pkgs-", dir=base)
        sys.path.insert(0, self.root)
        self.names = []
        self.extra_paths = []
        self.layout = {}        # package name -> what is on disk for it (for replay files)

    def fresh_name(self, stem="zcvp"):
        _counter[0] += 1
        return "%s%d_%d" % (stem, os.getpid(), _counter[0])

    def add_component(self, types, name=None, imports=()):
        """types: list of F.TypeD / F.AbsD; imports: package names the component itself imports; returns package name"""
        name = name or self.fresh_name()
        d = os.path.join(self.root, name)
        os.makedirs(d)
        open(os.path.join(d, "__init__.py"), "w").write("# generated\n")
        comp = F.SchemaD([], types)
        xml = F.render_xml(comp, toplevel="component")
        if imports:
            i = xml.index(">") + 2
            xml = xml[:i] + "".join("  <import package='%s'/>\n" % q for q in imports) + xml[i:]
        open(os.path.join(d, "component.xml"), "w").write(xml)
        self.names.append(name)
        return name

    def add_raw_component(self, xml, stem="zcvraw"):
        """a regular package whose component.xml is the given text"""
        name = self.fresh_name(stem)
        d = os.path.join(self.root, name)
        os.makedirs(d)
        open(os.path.join(d, "__init__.py"), "w").write("# generated\n")
        open(os.path.join(d, "component.xml"), "w").write(xml)
        return self._note(name, "<sys.path entry>/%s/__init__.py" % name, "component.xml: " + xml)

    def add_named_component(self, dotted, types=None, imports=(), module=False):
        """a component package under a GIVEN dotted name (every component of the name any legal package name the import
        system serves: mixed case, leading underscores, non-ASCII identifiers; sub-packages).  The directories of the
        parents get an __init__.py (kept when already there) and nothing else; `types` None = no component.xml (a plain
        package); module=True: the last component is a module file, not a package.  Files are written as UTF-8."""
        parts = dotted.split(".")
        d = self.root
        for i, part in enumerate(parts):
            if module and i == len(parts) - 1:
                with open(os.path.join(d, part + ".py"), "w", encoding="utf-8") as f:
                    f.write("# a module, not a package\n")
                return self._note(dotted, "<sys.path entry>/%s.py" % "/".join(parts))
            d = os.path.join(d, part)
            os.makedirs(d, exist_ok=True)
            init = os.path.join(d, "__init__.py")
            if not os.path.exists(init):
                with open(init, "w", encoding="utf-8") as f:
                    f.write("# generated\n")
        what = ["<sys.path entry>/%s/__init__.py" % "/".join(parts)]
        if types is not None:
            xml = F.render_xml(F.SchemaD([], types), toplevel="component")
            if imports:
                i = xml.index(">") + 2
                xml = xml[:i] + "".join("  <import package='%s'/>\n" % q for q in imports) + xml[i:]
            with open(os.path.join(d, "component.xml"), "w", encoding="utf-8") as f:
                f.write(xml)
            what.append("component.xml: " + xml)
        self.refresh()
        return self._note(dotted, *what)

    def add_plain_package(self):
        name = self.fresh_name("zcvnocomp")
        d = os.path.join(self.root, name)
        os.makedirs(d)
        open(os.path.join(d, "__init__.py"), "w").write("# no component.xml here\n")
        self.names.append(name)
        return name

    def add_module(self):
        name = self.fresh_name("zcvmod")
        open(os.path.join(self.root, name + ".py"), "w").write("# a module, not a package\n")
        self.names.append(name)
        return name

    # --- importable things that are NOT ordinary component packages.  What the import system hands back for them differs
    # from the ordinary case in the module's attributes (``__path__`` of a namespace package is not a list, ``__loader__``
    # of a namespace package cannot read data, a zip-imported package is read through the zip importer), which is what the
    # loaders look at when a component or a ``package:`` resource cannot be opened.
    def _note(self, name, *what):
        self.names.append(name.split(".")[0])
        self.layout[name] = list(what)
        return name

    def add_namespace_package(self, nested=False, with_component=False):
        """a PEP 420 namespace package: a directory on sys.path without __init__.py (nested: a namespace package inside
        one); with_component: the directory holds a well-formed component.xml all the same"""
        top = self.fresh_name("zcvns")
        name = top + ".sub" if nested else top
        d = os.path.join(self.root, *name.split("."))
        os.makedirs(d)
        what = ["<sys.path entry>/%s/ (directory, no __init__.py)" % "/".join(name.split("."))]
        if with_component:
            open(os.path.join(d, "component.xml"), "w").write("<component>\n  <sectiontype name='zcvnstype'/>\n</component>\n")
            what.append("component.xml in it (well formed)")
        return self._note(name, *what)

    def add_plain_subdirectory(self):
        """a regular package with a sub-directory that has no __init__.py: importable as <pkg>.<dir> (namespace portion)"""
        top = self.fresh_name("zcvreg")
        d = os.path.join(self.root, top)
        os.makedirs(os.path.join(d, "data"))
        open(os.path.join(d, "__init__.py"), "w").write("# regular package\n")
        open(os.path.join(d, "data", "sample.conf"), "w").write("# not a component\n")
        return self._note(top + ".data", "<sys.path entry>/%s/__init__.py" % top, "<sys.path entry>/%s/data/ (directory, no __init__.py)" % top)

    def add_unreadable_component(self, kind):
        """a regular package whose component.xml cannot be read as text: 'directory' | 'not-utf8'"""
        name = self.fresh_name("zcvunread")
        d = os.path.join(self.root, name)
        os.makedirs(d)
        open(os.path.join(d, "__init__.py"), "w").write("# generated\n")
        if kind == "directory":
            os.makedirs(os.path.join(d, "component.xml"))
        else:
            open(os.path.join(d, "component.xml"), "wb").write(b"<component>\xff\xfe\x80</component>\n")
        return self._note(name, "<sys.path entry>/%s/__init__.py" % name, "component.xml: " + kind)

    def add_import_error_package(self):
        """a package whose import is refused with ImportError (what a package with a missing dependency does)"""
        name = self.fresh_name("zcvimperr")
        d = os.path.join(self.root, name)
        os.makedirs(d)
        open(os.path.join(d, "__init__.py"), "w").write("import zcv_missing_dependency_of_this_package\n")
        return self._note(name, "<sys.path entry>/%s/__init__.py: 'import zcv_missing_dependency_of_this_package'" % name)

    def add_zip(self):
        """a zip archive on sys.path holding a package without component.xml, one with a component.xml, and a bare directory
        (namespace package served by the zip importer); returns the three names"""
        import zipfile
        zp = os.path.join(self.root, self.fresh_name("zcvzip") + ".zip")
        plain, comp, bare = self.fresh_name("zcvzplain"), self.fresh_name("zcvzcomp"), self.fresh_name("zcvzbare")
        with zipfile.ZipFile(zp, "w") as z:
            z.writestr(plain + "/__init__.py", "# in a zip, no component\n")
            z.writestr(comp + "/__init__.py", "# in a zip\n")
            z.writestr(comp + "/component.xml", "<component>\n  <sectiontype name='zcvziptype'/>\n</component>\n")
            z.writestr(bare + "/readme.txt", "no __init__.py here\n")
        sys.path.insert(0, zp)
        self.extra_paths.append(zp)
        self._note(plain, "<zip on sys.path>/%s/__init__.py (no component.xml)" % plain)
        self._note(comp, "<zip on sys.path>/%s/__init__.py + component.xml" % comp)
        self._note(bare, "<zip on sys.path>/%s/readme.txt (no __init__.py)" % bare)
        return plain, comp, bare

    def refresh(self):
        import importlib
        importlib.invalidate_caches()

    def close(self):
        for p in [self.root] + self.extra_paths:
            try:
                sys.path.remove(p)
            except ValueError:
                pass
            sys.path_importer_cache.pop(p, None)
        for n in list(sys.modules):
            if any(n == x or n.startswith(x + ".") for x in self.names):
                del sys.modules[n]
        shutil.rmtree(self.root, ignore_errors=True)


def model_pkg(name, types, base_elab_types):
    """(name (component url types impls)) for the driver; types elaborated standalone (own children only)"""
    import copy
    plain = []
    for t in types:
        t2 = copy.copy(t)
        if not t2.abstract:
            t2.implements = None
        plain.append(t2)
    el = F.elaborate(F.SchemaD([], plain))
    impls = [[F._basic_key(t.name), F._basic_key(t.implements)] for t in types if not t.abstract and t.implements]
    tys = []
    for n, te in el[1]:
        if te[0] == "abstract":
            tys.append([n, [Atom("abstract"), n, []]])
        else:
            tys.append([n, te])
    return [name, [Atom("component"), "package:%s:component.xml" % name, tys, impls]]
