"""Generated component packages on a scratch sys.path entry (for %import / <import package=…>)."""
import os
import shutil
import sys
import tempfile

from . import schemafam as F
from .sexp import Atom

_counter = [0]


class PkgRoot:
    def __init__(self):
        base = "/dev/shm" if os.path.isdir("/dev/shm") else None
        self.root = tempfile.mkdtemp(prefix="zcv-pkgs-", dir=base)
        sys.path.insert(0, self.root)
        self.names = []

    def fresh_name(self, stem="zcvp"):
        _counter[0] += 1
        return "%s%d_%d" % (stem, os.getpid(), _counter[0])

    def add_component(self, types, name=None, imports=()):
        """types: list of F.TypeD / F.AbsD; imports: package names the component itself imports; returns package name"""
        name = name or self.fresh_name()
        d = os.path.join(self.root, name)
        os.makedirs(d)
        open(os.path.join(d, "__init__.py"), "w").write("# generated\n")
        comp = F.SchemaD([], types)
        xml = F.render_xml(comp, toplevel="component")
        if imports:
            i = xml.index(">") + 2
            xml = xml[:i] + "".join("  <import package='%s'/>\n" % q for q in imports) + xml[i:]
        open(os.path.join(d, "component.xml"), "w").write(xml)
        self.names.append(name)
        return name

    def add_plain_package(self):
        name = self.fresh_name("zcvnocomp")
        d = os.path.join(self.root, name)
        os.makedirs(d)
        open(os.path.join(d, "__init__.py"), "w").write("# no component.xml here\n")
        self.names.append(name)
        return name

    def add_module(self):
        name = self.fresh_name("zcvmod")
        open(os.path.join(self.root, name + ".py"), "w").write("# a module, not a package\n")
        self.names.append(name)
        return name

    def close(self):
        try:
            sys.path.remove(self.root)
        except ValueError:
            pass
        for n in list(sys.modules):
            if any(n == x or n.startswith(x + ".") for x in self.names):
                del sys.modules[n]
        shutil.rmtree(self.root, ignore_errors=True)


def model_pkg(name, types, base_elab_types):
    """(name (component url types impls)) for the driver; types elaborated standalone (own children only)"""
    import copy
    plain = []
    for t in types:
        t2 = copy.copy(t)
        if not t2.abstract:
            t2.implements = None
        plain.append(t2)
    el = F.elaborate(F.SchemaD([], plain))
    impls = [[F._basic_key(t.name), F._basic_key(t.implements)] for t in types if not t.abstract and t.implements]
    tys = []
    for n, te in el[1]:
        if te[0] == "abstract":
            tys.append([n, [Atom("abstract"), n, []]])
        else:
            tys.append([n, te])
    return [name, [Atom("component"), "package:%s:component.xml" % name, tys, impls]]
