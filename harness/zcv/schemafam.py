"""The generated schema family: abstract descriptions, XML rendering, expected elaboration
(as the S-expression the Lean model reads), and the structural digest of a real schema object."""
import io
from xml.sax.saxutils import escape, quoteattr

from .sexp import Atom

DEFAULT_LINE = 1000000007   # sentinel position of schema defaults (never compared)


# ------------------------------------------------------------------ descriptions
class KeyD:
    def __init__(self, name, dt="string", multi=False, required=False, default=None, attr=None, handler=None):
        self.name = name          # as written in the schema; '+' for wildcard
        self.dt = dt
        self.multi = multi
        self.required = required
        self.default = default    # key: str|None ; multikey: [str] ; '+' key: [(k, v)] ; '+' multikey: [(k, v)] (repeats allowed)
        self.attr = attr
        self.handler = handler
    kind = "key"


class SectD:
    def __init__(self, type, name=None, multi=False, required=False, attr=None, handler=None):
        self.type = type
        self.name = name          # None (= '*' default), '*', '+', or a fixed name as written
        self.multi = multi
        self.required = required
        self.attr = attr
        self.handler = handler
    kind = "sect"


class TypeD:
    def __init__(self, name, children=(), keytype=None, datatype=None, extends=None, implements=None):
        self.name = name
        self.children = list(children)
        self.keytype = keytype
        self.datatype = datatype
        self.extends = extends
        self.implements = implements
    abstract = False


class AbsD:
    def __init__(self, name):
        self.name = name
    abstract = True


class SchemaD:
    def __init__(self, children=(), types=(), keytype=None, datatype=None, handler=None, imports=()):
        self.children = list(children)
        self.types = list(types)
        self.keytype = keytype
        self.datatype = datatype
        self.handler = handler
        self.imports = list(imports)     # component packages imported at schema level: <import package=…/> after the own types


# ------------------------------------------------------------------ XML
def _attrs(**kw):
    return "".join(" %s=%s" % (k.rstrip("_"), quoteattr(v)) for k, v in kw.items() if v is not None)


def _render_child(c, out, ind):
    if c.kind == "key":
        tag = "multikey" if c.multi else "key"
        a = _attrs(name=c.name, datatype=c.dt if c.dt != "string" else None, attribute=c.attr,
                   required="yes" if c.required else None, handler=c.handler,
                   default=c.default if (not c.multi and c.name != "+" and c.default is not None) else None)
        body = []
        if c.multi and c.name != "+" and c.default:
            body = ["<default>%s</default>" % escape(v) for v in c.default]
        if c.name == "+" and c.default:
            body = ["<default key=%s>%s</default>" % (quoteattr(k), escape(v)) for k, v in c.default]
        if body:
            out.append("%s<%s%s>" % (ind, tag, a))
            out.extend(ind + "  " + b for b in body)
            out.append("%s</%s>" % (ind, tag))
        else:
            out.append("%s<%s%s/>" % (ind, tag, a))
    else:
        tag = "multisection" if c.multi else "section"
        a = _attrs(type=c.type, name=c.name, attribute=c.attr, required="yes" if c.required else None,
                   handler=c.handler)
        out.append("%s<%s%s/>" % (ind, tag, a))


def render_xml(s, toplevel="schema", prefix=None):
    out = ["<%s%s>" % (toplevel, _attrs(keytype=s.keytype, datatype=s.datatype, handler=s.handler, prefix=prefix)
                       if toplevel == "schema" else _attrs(prefix=prefix))]
    for t in s.types:
        if t.abstract:
            out.append("  <abstracttype name=%s/>" % quoteattr(t.name))
        else:
            out.append("  <sectiontype%s>" % _attrs(name=t.name, keytype=t.keytype, datatype=t.datatype,
                                                     extends=t.extends, implements=t.implements))
            for c in t.children:
                _render_child(c, out, "    ")
            out.append("  </sectiontype>")
    for p in getattr(s, "imports", ()):
        out.append("  <import package=%s/>" % quoteattr(p))
    for c in s.children:
        _render_child(c, out, "  ")
    out.append("</%s>" % toplevel)
    return "\n".join(out) + "\n"


# ------------------------------------------------------------------ expected elaboration
def _basic_key(s):
    return s.lower()


def _keytype_fn(kt):
    # reference normalisation for the three key types of the family, on *valid* names only
    if kt in (None, "basic-key"):
        return lambda s: s.lower()
    if kt == "identifier":
        return lambda s: s
    if kt == "ipaddr-or-hostname":
        return lambda s: s.lower()
    if kt == "string":
        return lambda s: s
    raise ValueError(kt)


def _vi(v):
    return [Atom("vi"), v, DEFAULT_LINE, None]


def _elab_key(c, ktname, origin=None):
    """ktname: the key type of the type the child is listed in; origin: the key type of the type that DECLARED it (fixed
    names are converted once, where they are declared; the defaults of a wildcard key are re-keyed in every derived type)"""
    kt = _keytype_fn(ktname)
    okt = _keytype_fn(origin or ktname)
    if c.name == "+":
        name = "+"
        attr = c.attr
        if c.multi:
            d = {}
            for k, v in (c.default or []):
                d.setdefault(kt(k), []).append(v.strip())
            dflt = [Atom("keyedmany")] + [[k, [_vi(v) for v in vs]] for k, vs in d.items()]
        else:
            dflt = [Atom("keyed")] + [[kt(k), _vi(v.strip())] for k, v in (c.default or [])]
    else:
        name = okt(c.name)
        attr = c.attr or _basic_key(name).replace("-", "_")
        if c.multi:
            dflt = [Atom("many")] + [_vi(v.strip()) for v in (c.default or [])]
        else:
            dflt = [Atom("one"), _vi(c.default.strip())] if c.default is not None else Atom("none")
    return name, [Atom("key"), name, attr, bool(c.multi), 1 if c.required else 0, c.dt, dflt, _hn(c.handler)]


def _hn(h):
    return _basic_key(h) if h is not None else None


def _elab_sect(c, ktname):
    kt = _keytype_fn(ktname)
    nm = c.name if c.name is not None else "*"
    if nm in ("*", "+"):
        key, name, attr = None, nm, c.attr
    else:
        name = kt(nm)
        key, attr = name, c.attr or _basic_key(name).replace("-", "_")
    return key, [Atom("sect"), name, attr, bool(c.multi), 1 if c.required else 0, _basic_key(c.type), _hn(c.handler)]


def _elab_children(children, ktname):
    """children: descriptions, or (description, key type of the declaring type) pairs for the children of a derived type"""
    out = []
    for c in children:
        c, origin = c if isinstance(c, tuple) else (c, ktname)
        if c.kind == "key":
            name, info = _elab_key(c, ktname, origin)
            out.append([name, info])
        else:
            key, info = _elab_sect(c, origin)
            out.append([key, info])
    return out


def elaborate(s):
    """SchemaD -> the (schema …) S-expression of lean/ZCV/Codec.lean; also returns {typename: TypeD-with-inherited}"""
    types = []
    resolved = {}   # name -> (keytype, datatype, all children descr incl. inherited)
    subs = {}
    for t in s.types:
        n = _basic_key(t.name)
        if t.abstract:
            subs[n] = []
            continue
        if t.extends:
            bk, bd, bchildren = resolved[_basic_key(t.extends)]
            kt = t.keytype or bk
            dt = t.datatype or bd
            children = bchildren + [(c, kt) for c in t.children]
        else:
            kt = t.keytype or "basic-key"
            dt = t.datatype or "null"
            children = [(c, kt) for c in t.children]
        resolved[n] = (kt, dt, children)
        if t.implements:
            subs[_basic_key(t.implements)].append(n)
    for t in s.types:
        n = _basic_key(t.name)
        if t.abstract:
            types.append([n, [Atom("abstract"), n, subs[n]]])
        else:
            kt, dt, children = resolved[n]
            # inherited fixed names stay as the DECLARING type's key type converted them (info.deriveSectionType copies the
            # children; known finding C11 when the key types differ).  The general family keeps inherited fixed names fixed
            # points of every key type in the chain; cfggen.add_keytype_override adds types where they are not
            types.append([n, [Atom("concrete"), [Atom("stype"), n, kt, dt, _elab_children(children, kt)]]])
    kt = s.keytype or "basic-key"
    top = [Atom("stype"), None, kt, s.datatype or "null", _elab_children(s.children, kt)]
    return [Atom("schema"), types, top, _hn(s.handler), []]


# ------------------------------------------------------------------ digest of a real schema object
def _dtname(registry, fn):
    return registry.find_name(fn)


def _digest_vi(vi):
    return [Atom("vi"), vi.value, DEFAULT_LINE, None]


def _digest_info(reg, key, ci):
    if ci.issection():
        return [key, [Atom("sect"), ci.name, ci.attribute, bool(ci.ismulti()), int(ci.minOccurs),
                      ci.sectiontype.name, ci.handler]]
    d = ci._default
    if ci.name == "+":
        if ci.ismulti():
            dflt = [Atom("keyedmany")] + [[k, [_digest_vi(v) for v in vs]] for k, vs in d.items()]
        else:
            dflt = [Atom("keyed")] + [[k, _digest_vi(v)] for k, v in d.items()]
    elif ci.ismulti():
        dflt = [Atom("many")] + [_digest_vi(v) for v in d]
    else:
        dflt = [Atom("one"), _digest_vi(d)] if d is not None else Atom("none")
    return [key, [Atom("key"), ci.name, ci.attribute, bool(ci.ismulti()), int(ci.minOccurs),
                  _dtname(reg, ci.datatype), dflt, ci.handler]]


def _digest_stype(reg, t, name):
    return [Atom("stype"), name, _dtname(reg, t.keytype), _dtname(reg, t.datatype),
            [_digest_info(reg, k, ci) for k, ci in t]]


def digest(schema):
    reg = schema.registry
    types = []
    for n in schema.gettypenames():
        t = schema.gettype(n)
        if t.isabstract():
            types.append([n, [Atom("abstract"), t.name, [k for k, _ in t]]])
        else:
            types.append([n, [Atom("concrete"), _digest_stype(reg, t, t.name)]])
    return [Atom("schema"), types, _digest_stype(reg, schema, None), schema.handler, list(schema._components)]


def load_real(s, url=None):
    import ZConfig
    return ZConfig.loadSchemaFile(io.StringIO(render_xml(s)), url)


def load_real_chain(s, rng):
    """the same schema delivered as a chain of three documents (top extends mid extends grand): only the innermost states
    the key type and datatype, the outer two inherit them; types and top-level children are split in order.  The resulting
    schema object must be the same as for the single document."""
    import copy
    import os
    import shutil
    import tempfile
    import ZConfig
    nt = len(s.types)
    a, b = sorted([rng.randint(0, nt), rng.randint(0, nt)])
    tsplit = [s.types[:a], s.types[a:b], s.types[b:]]
    known = set()
    csplit, rest = [], list(s.children)
    for part in tsplit[:2]:
        known |= {_basic_key(t.name) for t in part}
        take = []
        while rest and (rest[0].kind == "key" or _basic_key(rest[0].type) in known):
            take.append(rest.pop(0))
            if rng.random() < 0.3:
                break
        csplit.append(take)
    csplit.append(rest)
    d = tempfile.mkdtemp(prefix="zcv-chain-", dir="/dev/shm" if os.path.isdir("/dev/shm") else None)
    try:
        names = ["grand.xml", "mid.xml", "top.xml"]
        for i, nm in enumerate(names):
            part = SchemaD(csplit[i], tsplit[i], keytype=s.keytype if i == 0 else None, datatype=s.datatype if i == 0 else None,
                           handler=s.handler if i == 2 else None)
            xml = render_xml(part)
            if i > 0:
                xml = xml.replace("<schema", "<schema extends=%s" % quoteattr(names[i - 1]), 1)
            with open(os.path.join(d, nm), "w", encoding="utf-8") as f:
                f.write(xml)
        return ZConfig.loadSchema(os.path.join(d, "top.xml"))
    finally:
        shutil.rmtree(d, ignore_errors=True)
