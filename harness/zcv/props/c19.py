"""C19 — every resource opened during a load is closed, however the load ends"""
import io
import os
import shutil
import tempfile
import urllib.request

from .. import cfgrun, core, pkggen, schemafam as F
from ..sexp import Atom

RULE = ("configuration include trees of up to 5 resources (random shapes, nested), each run without fault and with every "
        "single failure point: urlopen of resource j failing (missing file), read() of j raising, content of j undecodable, "
        "a syntax error at step k of j, a conversion failure at the end; schema graphs (extends chains, <import src>, component "
        "packages, %import incl. repeated imports) with malformed / missing members. Real events (URL stream open/close via a "
        "wrapped urllib.request.urlopen, Resource open/close via a tracking Resource class) are compared with the model's "
        "trace and checked well-bracketed with everything closed; one ConfigLoader object serves all loads of a tree and after "
        "every load the corrected files are loaded again by it and by a fresh loader (equal results required). Resource GRAPHS (second "
        "model): random tables of configuration documents (includes incl. cycles, %import), component packages (importing each "
        "other, <import src> of leaf schemas) and schema documents (trees of bases, imports), entered by URL or open file, each "
        "run with single faults and then again, corrected, on the SAME loader object: outcome, events and the loader's state "
        "(_active_urls, component marks, schema cache) compared with the model after both loads; directed: a component that "
        "fails after it was found (schema error / XML error past its first type / nested import failing), same text three times "
        "on one loader vs a fresh loader. non-trivial = at least 2 resources; distinct by (tree, fault)")


class Tracker:
    def __init__(self):
        self.events = []
        self.open_resources = []
        self.open_streams = []
        self.read_fail = set()

    def install(self):
        import ZConfig.loader as L
        tr = self
        self._orig_resource = L.Resource
        self._orig_urlopen = urllib.request.urlopen

        class TrackedResource(self._orig_resource):
            def __init__(self, file, url):
                super().__init__(file, url)
                self.__dict__["_zcv_open"] = True
                tr.events.append(("ropen", url))
                tr.open_resources.append(self)

            def close(self):
                was = self.__dict__.get("_zcv_open")
                super().close()
                if was:
                    self.__dict__["_zcv_open"] = False
                    tr.events.append(("rclose", self.url))

        class Stream:
            def __init__(self, real, url):
                self._real = real
                self._url = url
                self._closed = False
                tr.events.append(("sopen", url))
                tr.open_streams.append(self)

            def read(self, *a):
                if self._url in tr.read_fail:
                    raise OSError("injected read failure")
                return self._real.read(*a)

            def close(self):
                if not self._closed:
                    self._closed = True
                    tr.events.append(("sclose", self._url))
                self._real.close()

            def __getattr__(self, n):
                return getattr(self._real, n)

        def urlopen(url, *a, **kw):
            real = tr._orig_urlopen(url, *a, **kw)
            return Stream(real, url if isinstance(url, str) else url.full_url)

        L.Resource = TrackedResource
        urllib.request.urlopen = urlopen

    def uninstall(self):
        import ZConfig.loader as L
        L.Resource = self._orig_resource
        urllib.request.urlopen = self._orig_urlopen

    def leaks(self):
        out = []
        for r in self.open_resources:
            if r.__dict__.get("_zcv_open") or (r.file is not None and not getattr(r.file, "closed", True)):
                out.append(("resource", r.url))
        for s in self.open_streams:
            if not s._closed:
                out.append(("stream", s._url))
        return out

    def reset(self):
        self.events = []
        self.open_resources = []
        self.open_streams = []
        self.read_fail = set()


def gen_tree(rng, maxres):
    """returns (steps, nres): steps is the nested list for resource 0"""
    counter = [0]

    def steps(depth):
        out = []
        for _ in range(rng.randint(1, 4)):
            if counter[0] < maxres - 1 and depth < 3 and rng.random() < 0.45:
                counter[0] += 1
                rid = counter[0]
                out.append(("sub", rid, steps(depth + 1)))
            else:
                out.append("work")
        return out
    return steps(0), counter[0] + 1


def sexp_steps(steps):
    return [Atom("work") if s == "work" else [Atom("sub"), s[1], sexp_steps(s[2])] for s in steps]


def all_points(steps, rid=0):
    pts = [("urlopen", rid), ("read", rid), ("decode", rid)]
    if rid != 0 or not any(s != "work" for s in steps):
        pts.append(("cycle", rid))       # resource rid ends with an %include of the top resource (an include cycle)
    for k, s in enumerate(steps):
        if s == "work":
            pts.append(("step", rid, k))
        else:
            pts.extend(all_points(s[2], s[1]))
    return pts


def materialise(root, steps, rid, fault):
    """write resource rid (and its children); returns its path"""
    path = os.path.join(root, "r%d.conf" % rid)
    lines = []
    for k, s in enumerate(steps):
        if s == "work":
            lines.append("<" if fault == ("step", rid, k) else "k v%d_%d" % (rid, k))
        else:
            materialise(root, s[2], s[1], fault)
            lines.append("%%include r%d.conf" % s[1])
    if fault == ("cycle", rid):
        lines.append("%include r0.conf")
    if fault == ("urlopen", rid):
        return path                                   # the file does not exist
    data = ("\n".join(lines) + "\n").encode("utf-8")
    if fault == ("decode", rid):
        data = b"k caf\xe9\n" + data                  # not UTF-8
    with open(path, "wb") as f:
        f.write(data)
    return path


def run(ctx):
    import ZConfig
    obligations, discharged, names = core.standard_prelude(ctx, ["ZCV.Props.C19"])
    rng = ctx.rng
    tr = Tracker()
    tr.install()
    base = "/dev/shm" if os.path.isdir("/dev/shm") else None
    schema = ZConfig.loadSchemaFile(io.StringIO("<schema><multikey name='k'/><key name='n' datatype='integer'/></schema>"))
    ntrees = 120 if ctx.thorough() else 14
    pk = pkggen.PkgRoot()
    try:
        for _ in range(ntrees):
            steps, nres = gen_tree(rng, 5)
            faults = [None] + all_points(steps) + [("conversion",)]
            if not ctx.thorough():
                faults = [None, ("conversion",)] + rng.sample(faults[1:-1], min(len(faults) - 2, 8))
            mreqs = []
            for fault in faults:
                pts = []
                st = sexp_steps(steps)
                if fault == ("conversion",):
                    st = st + [Atom("work")]
                    pts = [[Atom("step"), 0, len(steps)]]
                elif fault is not None and fault[0] != "cycle":
                    pts = [[Atom(fault[0])] + list(fault[1:])]
                mreqs.append([Atom("resrun"), pts, 0, st])
            mans = core.driver_batch(mreqs) if ctx.driver_ok else [None] * len(faults)
            mans = [None if (f is not None and f[0] == "cycle") else m for f, m in zip(faults, mans)]   # cycles: direct oracle only
            from ZConfig.loader import ConfigLoader
            reused = ConfigLoader(schema)     # one loader object serves every load of this tree, failed ones included
            for fault, ma in zip(faults, mans):
                root = tempfile.mkdtemp(prefix="zcv-c19-", dir=base)
                try:
                    tr.reset()
                    main = materialise(root, steps, 0, fault)
                    if fault == ("conversion",):
                        with open(main, "a") as f:
                            f.write("n notanint\n")
                    url_of = lambda rid: "file://" + urllib.request.pathname2url(os.path.join(root, "r%d.conf" % rid))
                    if fault is not None and fault[0] == "read":
                        tr.read_fail.add(url_of(fault[1]))
                    try:
                        reused.loadURL(main)
                        ended = "ok"
                    except ZConfig.ConfigurationError:
                        ended = "cfg"
                    except (OSError, UnicodeDecodeError):
                        ended = "io"
                    except Exception as e:
                        ended = "other:" + type(e).__name__
                    ctx.evaluations += 1
                    first_events, first_leaks = list(tr.events), tr.leaks()
                    # "a failed load leaves nothing behind that changes the outcome of later loads": the corrected files,
                    # same names, loaded again by the SAME loader object, against a fresh loader
                    tr.reset()
                    materialise(root, steps, 0, None)
                    follow = []
                    for ldr in (reused, ConfigLoader(schema)):
                        try:
                            c2, _ = ldr.loadURL(main)
                            follow.append(["ok", list(c2.k)])
                        except Exception as e:
                            follow.append(["exc", type(e).__name__, str(e)[:120]])
                    ctx.evaluations += 1
                    if follow[0] != follow[1]:
                        ctx.violate("after a load that ended %s (fault %r) the same loader gives %r for the corrected files, a fresh "
                                    "loader %r" % (ended, fault, follow[0], follow[1]),
                                    {"tree": steps, "fault": fault, "ended": ended, "same_loader": follow[0], "fresh_loader": follow[1]},
                                    signature="C19:state-left-behind:%s" % (fault[0] if fault else "none"))
                    follow_leaks = tr.leaks()
                    tr.events, _saved = first_events, tr.events
                    ctx.count("fault:%s" % (fault[0] if fault else "none"))
                    ctx.count("ended:" + ended)
                    if nres >= 2:
                        ctx.nontriv((repr(steps), fault))
                    ids = {url_of(i): i for i in range(nres)}
                    real = [[k, ids.get(u, -1)] for k, u in tr.events]
                    rep = {"tree": steps, "fault": fault, "real_events": real, "ended": ended}
                    leaks = first_leaks + follow_leaks
                    if leaks:
                        ctx.violate("after the load (%s) these were still open: %r" % (ended, [(k, ids.get(u, u)) for k, u in leaks]), rep,
                                    signature="C19:leak:%s:%s" % (leaks[0][0], fault[0] if fault else "none"))
                        continue
                    if not _wb(real):
                        ctx.violate("events are not well bracketed / a stream stayed open while parsing: %r" % real, rep,
                                    signature="C19:order:%s" % (fault[0] if fault else "none"))
                        continue
                    if ma is not None:
                        mev = [[str(e[0]), int(e[1])] for e in ma[2]]
                        if mev != real or (ma[0] == "t") != (ended == "ok"):
                            ctx.disagree("resources", rep, real, mev)
                finally:
                    shutil.rmtree(root, ignore_errors=True)
            ctx.sample({"tree": steps, "faults": len(faults)}, cap=3)
        _schema_graphs(ctx, tr, pk, base)
        _res2_correspondence(ctx, tr, pk, base)
        _interrupted_loads(ctx, tr, base)
        _caller_files_closed(ctx, base)
    finally:
        tr.uninstall()
        pk.close()
    return core.finish(ctx, obligations, discharged, names, RULE,
                       "lake build ZCV.Props.C19 && lake env lean ZCV/Audit/C19.lean",
                       ["closing is observed on the Resource objects and on the wrapped urlopen streams; the OS-level file descriptor is the stream's business"])


def _wb(events):
    st = []
    i = 0
    while i < len(events):
        k, r = events[i]
        if k == "sopen":
            if i + 1 >= len(events) or events[i + 1] != ["sclose", r]:
                return False
            i += 2
            continue
        if k == "ropen":
            st.append(r)
        elif k == "rclose":
            if not st or st.pop() != r:
                return False
        else:
            return False
        i += 1
    return not st


# ------------------------------------------------------------------ second model: resource graphs and the loaders' state
def _gen_res2(rng, pk, kind):
    """a scenario for lean/ZCV/Model/Resources2.lean: {id: doc}; docs refer to each other by id.
    cfg docs 0..: includes (cycles allowed - the loader refuses them), %import of component docs; component docs import other
    components (cycles allowed - hasComponent stops them) and <import src> leaf schema docs; schema docs extend a tree of bases
    (no diamonds, no cycles: the loader does not detect those), import leaf schemas and components."""
    docs = {}
    nid = [0]

    def new():
        nid[0] += 1
        return nid[0] - 1
    comps = []
    leaves = []

    def leaf():
        if leaves and rng.random() < 0.5:
            return rng.choice(leaves)
        i = new()
        docs[i] = ("schema", [], ["work"] * rng.randint(0, 2))
        leaves.append(i)
        return i

    def comp(depth=0):
        if comps and rng.random() < (0.5 if depth == 0 else 0.7):
            return rng.choice(comps)       # an existing one: repeated imports, cycles between components
        i = new()
        comps.append(i)
        body = []
        docs[i] = ("comp", body)
        for _ in range(rng.randint(1, 3)):
            r = rng.random()
            if r < 0.25 and depth < 2:
                body.append(("importpkg", comp(depth + 1)))
            elif r < 0.4:
                body.append(("importsrc", leaf()))
            else:
                body.append("work")
        return i
    if kind == "cfg":
        cfgs = [new()]
        ncfg = rng.randint(1, 4)
        for _ in range(ncfg - 1):
            cfgs.append(new())
        for n, i in enumerate(cfgs):
            lines = []
            for _ in range(rng.randint(1, 4)):
                r = rng.random()
                if r < 0.3:
                    later = [c for c in cfgs if c > i]
                    tgt = rng.choice(later) if (later and rng.random() < 0.85) else rng.choice(cfgs)   # sometimes a cycle / self-include
                    lines.append(("incl", tgt))
                elif r < 0.55:
                    lines.append(("imp", comp()))
                else:
                    lines.append("work")
            docs[i] = ("cfg", lines)
        return docs, cfgs[0]
    # schema graph: a tree of bases
    def schema(depth):
        i = new()
        bases = []
        if depth < 2:
            for _ in range(rng.choice([0, 1, 1, 2])):
                bases.append(schema(depth + 1))
        body = []
        for _ in range(rng.randint(0, 3)):
            r = rng.random()
            if r < 0.25:
                body.append(("importpkg", comp()))
            elif r < 0.45:
                body.append(("importsrc", leaf()))
            else:
                body.append("work")
        docs[i] = ("schema", bases, body)
        return i
    top = schema(0)
    return docs, top


def _res2_points(docs, entry_id, entry_file):
    pts = []
    for i, d in docs.items():
        if d[0] != "comp" and not (i == entry_id and entry_file):
            pts += [("urlopen", i), ("read", i), ("decode", i)]
        if d[0] == "comp":
            pts.append(("urlopen", i))
        steps = d[1] if d[0] != "schema" else ["ext"] * len(d[1]) + list(d[2])
        for k, st in enumerate(steps):
            if st == "work":
                pts.append(("step", i, k))
    return pts


def _res2_write(root, pk, docs, names, fault):
    for i, d in docs.items():
        broken = lambda k: fault == ("step", i, k)
        if d[0] == "cfg":
            lines = []
            for k, st in enumerate(d[1]):
                if st == "work":
                    lines.append("<" if broken(k) else "k v%d_%d" % (i, k))
                elif st[0] == "incl":
                    lines.append("%%include r%d.conf" % st[1])
                else:
                    lines.append("%%import %s" % names[st[1]])
            data = ("\n".join(lines) + "\n").encode("utf-8")
            path = os.path.join(root, "r%d.conf" % i)
        else:
            body = []
            nb = len(d[1]) if d[0] == "schema" else 0
            for k, st in enumerate(d[2] if d[0] == "schema" else d[1]):
                kk = k + nb
                if st == "work":
                    if d[0] == "comp":
                        body.append("<sectiontype/>" if broken(kk) else "<sectiontype name='t%d_%d'/>" % (i, kk))
                    else:
                        body.append("<key/>" if broken(kk) else "<key name='k%d_%d'/>" % (i, kk))
                elif st[0] == "importsrc":
                    body.append("<import src='%s'/>" % ("file://" + urllib.request.pathname2url(os.path.join(root, "r%d.xml" % st[1]))))
                else:
                    body.append("<import package='%s'/>" % names[st[1]])
            if d[0] == "schema":
                ext = " extends='%s'" % " ".join("r%d.xml" % b for b in d[1]) if d[1] else ""
                text = "<schema%s>%s</schema>" % (ext, "".join(body))
                path = os.path.join(root, "r%d.xml" % i)
            else:
                text = "<component>%s</component>" % "".join(body)
                path = os.path.join(pk.root, names[i], "component.xml")
            data = text.encode("utf-8")
        if fault == ("urlopen", i):
            if os.path.exists(path):
                os.remove(path)
            continue
        if fault == ("decode", i):
            data = (b"k caf\xe9\n" if d[0] == "cfg" else b"<!-- caf\xe9 -->") + data
        with open(path, "wb") as f:
            f.write(data)


def _res2_sexp(docs):
    def st(x):
        return Atom("work") if x == "work" else [Atom(x[0]), x[1]]
    out = []
    for i, d in docs.items():
        if d[0] == "cfg":
            out.append([i, [Atom("cfg"), [st(x) for x in d[1]]]])
        elif d[0] == "schema":
            out.append([i, [Atom("schema"), list(d[1]), [st(x) for x in d[2]]]])
        else:
            out.append([i, [Atom("comp"), [st(x) for x in d[1]]]])
    return out


def _res2_correspondence(ctx, tr, pk, base):
    """the graph model (Model/Resources2.lean, theorems C19_all_closed2, C19_active_restored, C19_marks_justified, ...) against the
    real loaders: per scenario, per fault point: a load with the fault, then the corrected files loaded again by the SAME loader
    object; outcome, open/close events and the loader's state (_active_urls, component marks, schema cache) are compared with
    the model's after each of the two loads"""
    import ZConfig
    from ZConfig.loader import ConfigLoader, SchemaLoader
    rng = ctx.rng
    nscen = 60 if ctx.thorough() else 10
    for si in range(nscen):
        kind = rng.choice(["cfg", "cfg", "schema"])
        docs, top = _gen_res2(rng, pk, kind)
        names = {i: pk.add_component([]) for i, d in docs.items() if d[0] == "comp"}
        entry_file = rng.random() < 0.3
        entry = [Atom(("cfg" if kind == "cfg" else "schema") + ("file" if entry_file else "url")), top]
        pts = _res2_points(docs, top, entry_file)
        faults = [None] + (pts if ctx.thorough() else rng.sample(pts, min(len(pts), 6)))
        root = tempfile.mkdtemp(prefix="zcv-c19g-", dir=base)
        try:
            def url_of(i):
                d = docs[i]
                if d[0] == "comp":
                    return "package:%s:component.xml" % names[i]
                return "file://" + urllib.request.pathname2url(os.path.join(root, "r%d.%s" % (i, "conf" if d[0] == "cfg" else "xml")))
            ids = {url_of(i): i for i in docs}
            main = os.path.join(root, "r%d.%s" % (top, "conf" if kind == "cfg" else "xml"))
            base_schema = ZConfig.loadSchemaFile(io.StringIO("<schema><multikey name='k'/></schema>"))

            def real_run(ld, fault):
                tr.reset()
                _res2_write(root, pk, docs, names, fault)
                if fault is not None and fault[0] == "read":
                    tr.read_fail.add(url_of(fault[1]))
                try:
                    if entry_file:
                        with open(main, encoding="utf-8", newline="") as f:
                            ld.loadFile(f)
                    else:
                        ld.loadURL(main)
                    ended = "ok"
                except BaseException as e:
                    ended = type(e).__name__
                ev = [[k, ids.get(u, -1)] for k, u in tr.events]
                if kind == "cfg":
                    state = [[ids.get(u, -1) for u in ld._active_urls],
                             [ids.get(u, -1) for u in ld.schema._components],
                             [ids.get(u, -1) for u in (ld._loader._cache if ld._private_schema else {})]]
                else:
                    state = [[], [], [ids.get(u, -1) for u in ld._cache]]
                return ended, ev, state, tr.leaks()
            for fault in faults:
                ld = ConfigLoader(base_schema) if kind == "cfg" else SchemaLoader()
                r1 = real_run(ld, fault)
                r2 = real_run(ld, None)
                ctx.evaluations += 2
                ctx.count("graph:%s:%s" % (kind, fault[0] if fault else "none"))
                ctx.count("graph-ended:" + ("ok" if r1[0] == "ok" else "failed"))
                ctx.nontriv(("graph", si, fault))
                rep = {"docs": {str(i): d for i, d in docs.items()}, "entry": [str(entry[0]), top], "fault": fault,
                       "first": {"ended": r1[0], "events": r1[1], "state": r1[2]}, "second": {"ended": r2[0], "events": r2[1], "state": r2[2]}}
                for which, r in (("first", r1), ("second", r2)):
                    if r[3]:
                        ctx.violate("graph scenario, %s load (%s): still open %r" % (which, r[0], [(k, ids.get(u, u)) for k, u in r[3]]), rep,
                                    signature="C19:leak:graph:%s" % (fault[0] if fault else "none"))
                    elif not _wb(r[1]):
                        ctx.violate("graph scenario, %s load: events not well bracketed: %r" % (which, r[1]), rep,
                                    signature="C19:order:graph:%s" % (fault[0] if fault else "none"))
                    elif r[2][0]:
                        ctx.violate("graph scenario: _active_urls not empty after the %s load (%s): %r" % (which, r[0], r[2][0]), rep,
                                    signature="C19:state-left-behind:active-urls")
                if not ctx.driver_ok:
                    continue
                fpts = [[Atom(fault[0])] + list(fault[1:])] if fault else []
                m1 = core.driver_batch([[Atom("res2run"), fpts, _res2_sexp(docs), entry, 64, [], [], []]])[0]
                if not (isinstance(m1, list) and len(m1) == 6):
                    ctx.disagree("resources2-request", rep, "answer", m1)
                    continue
                st1 = [[int(x) for x in m1[2]], [int(x) for x in m1[3]], [int(x) for x in m1[4]]]
                m2 = core.driver_batch([[Atom("res2run"), [], _res2_sexp(docs), entry, 64] + st1])[0]
                for which, r, m in (("first", r1, m1), ("second", r2, m2)):
                    mev = [[str(e[0]), int(e[1])] for e in m[5]]
                    mst = [[int(x) for x in m[2]], [int(x) for x in m[3]], [int(x) for x in m[4]]]
                    if (m[0] == "t") != (r[0] == "ok") or mev != r[1] or mst != r[2]:
                        ctx.disagree("resources2:" + which, rep, {"ended": r[0], "events": r[1], "state": r[2]},
                                     {"ok": str(m[0]), "events": mev, "state": mst})
                        break
        finally:
            shutil.rmtree(root, ignore_errors=True)


def _interrupted_loads(ctx, tr, base):
    """"however the load ends": a KeyboardInterrupt or SystemExit raised while a value is converted (top level, inside a section,
    in an included resource) ends the load with something that is not an Exception; everything opened must be closed all the same"""
    import ZConfig
    schema = ZConfig.loadSchemaFile(io.StringIO(
        "<schema><sectiontype name='s'><key name='v' datatype='zcvdt.interrupt'/></sectiontype><multisection type='s' name='*' attribute='ss'/>"
        "<multikey name='k' datatype='zcvdt.interrupt'/></schema>"))
    for marker in ("!kbd", "!exit"):
        for where in ("top", "section", "included", "included-section", "nested-include"):
            root = tempfile.mkdtemp(prefix="zcv-c19i-", dir=base)
            try:
                def w(n, t):
                    with open(os.path.join(root, n), "w") as f:
                        f.write(t)
                bad = "k fine\nk x%sx\n" % marker
                badsec = "<s>\n v %s\n</s>\n" % marker
                w("inc2.conf", bad if where == "nested-include" else "k ok2\n")
                w("inc.conf", bad if where == "included" else badsec if where == "included-section" else "k ok\n%include inc2.conf\n")
                w("main.conf", "k first\n%include inc.conf\n" + (bad if where == "top" else badsec if where == "section" else "") + "k last\n")
                for entry in ("url", "file"):
                    tr.reset()
                    try:
                        if entry == "url":
                            ZConfig.loadConfig(schema, os.path.join(root, "main.conf"))
                        else:
                            with open(os.path.join(root, "main.conf")) as f:
                                ZConfig.loadConfigFile(schema, f)
                        ended = "ok"
                    except BaseException as e:
                        ended = type(e).__name__
                    ctx.evaluations += 1
                    ctx.nontriv(("interrupted", marker, where, entry))
                    ctx.count("interrupted:%s:%s" % (where, ended))
                    leaks = tr.leaks()
                    if leaks:
                        ctx.violate("a load ended by %s (raised while converting a value, %s, entry by %s): still open %r" % (ended, where, entry, leaks),
                                    {"marker": marker, "where": where, "entry": entry, "ended": ended, "events": tr.events},
                                    signature="C19:leak:interrupted")
            finally:
                shutil.rmtree(root, ignore_errors=True)


def _caller_files_closed(ctx, base):
    """the file-object entry points (loadConfigFile, loadSchemaFile, ConfigLoader.loadFile, SchemaLoader.loadFile): the top resource
    is the file handed over; it has been closed when the call returns or raises - whatever URL is passed along with it (none, a
    plain one, one with a fragment identifier, a relative one) and whatever the content"""
    import ZConfig
    from ZConfig.loader import ConfigLoader, SchemaLoader
    root = tempfile.mkdtemp(prefix="zcv-c19f-", dir=base)
    try:
        def w(n, t):
            with open(os.path.join(root, n), "w") as f:
                f.write(t)
        w("good.conf", "k v\n")
        w("bad.conf", "k v\n<unclosed>\n")
        w("good.xml", "<schema><multikey name='k'/></schema>")
        w("bad.xml", "<schema><key/></schema>")
        schema = ZConfig.loadSchemaFile(io.StringIO("<schema><multikey name='k'/></schema>"))
        furl = "file://" + urllib.request.pathname2url(os.path.join(root, "good.conf"))
        urls = [None, furl, furl + "#main", "file:///nonexistent/x.conf#frag", "rel.conf", "rel.conf#f", "#", "http://[x#y"]
        calls = [("loadConfigFile", lambda f, u: ZConfig.loadConfigFile(schema, f, u), ("good.conf", "bad.conf")),
                 ("ConfigLoader.loadFile", lambda f, u: ConfigLoader(schema).loadFile(f, u), ("good.conf", "bad.conf")),
                 ("loadSchemaFile", lambda f, u: ZConfig.loadSchemaFile(f, u), ("good.xml", "bad.xml")),
                 ("SchemaLoader.loadFile", lambda f, u: SchemaLoader().loadFile(f, u), ("good.xml", "bad.xml"))]
        for cname, call, files in calls:
            for fn_ in files:
                for u in urls:
                    f = open(os.path.join(root, fn_), encoding="utf-8")
                    try:
                        call(f, u)
                        ended = "ok"
                    except BaseException as e:
                        ended = type(e).__name__
                    ctx.evaluations += 1
                    ctx.nontriv(("caller-file", cname, fn_, u))
                    ctx.count("caller-file:%s" % ("ok" if ended == "ok" else "raised"))
                    if not f.closed:
                        f.close()
                        ctx.violate("%s(open(%r), url=%r) ended with %s and left the file open" % (cname, fn_, u, ended),
                                    {"call": cname, "file": fn_, "url": u, "ended": ended}, signature="C19:leak:caller-file")
    finally:
        shutil.rmtree(root, ignore_errors=True)


def _failed_import_leaves_nothing(ctx, pk):
    """one ConfigLoader object: a load whose first %import fails, then a load that imports a valid component; afterwards
    the application's schema must still reject that component's section type when it is used WITHOUT %import, exactly as
    a fresh copy of the schema does"""
    import ZConfig
    from ZConfig.loader import ConfigLoader
    comp2 = pk.add_component([F.TypeD("lateimp", [F.KeyD("k", "string")], implements="lab")])
    xml = "<schema><abstracttype name='lab'/><multisection type='lab' name='*' attribute='items'/><key name='plain'/></schema>"

    def outcome(schema, text, loader=None):
        try:
            if loader is not None:
                loader.loadFile(io.StringIO(text), "file:///zcv/c19.conf")
            else:
                ZConfig.loadConfigFile(schema, io.StringIO(text), "file:///zcv/c19.conf")
            return "ok"
        except ZConfig.ConfigurationError:
            return "cfg"
        except Exception as e:
            return "exc:" + type(e).__name__
    for first in ("%import zcv_no_such_pkg_c19\n", "%import a..b\n", "<nosuch/>\n%import zcv_no_such_pkg_c19\n", "plain x\n"):
        schema = ZConfig.loadSchemaFile(io.StringIO(xml))
        names0 = list(schema.gettypenames())
        ld = ConfigLoader(schema)
        seq = [first, "%%import %s\n<lateimp/>\n" % comp2, "plain y\n"]
        outs = [outcome(schema, t, ld) for t in seq]
        probe = "<lateimp/>\n"
        used = outcome(schema, probe)
        fresh = outcome(ZConfig.loadSchemaFile(io.StringIO(xml)), probe)
        ctx.evaluations += 1
        ctx.nontriv(("failed-import", first))
        if used != fresh or list(schema.gettypenames()) != names0:
            ctx.violate("after the loads %r on one loader (outcomes %r) the schema %s; '<lateimp/>' without %%import gives %s on it and %s on a fresh copy"
                        % (seq, outs, "gained types %r" % [n for n in schema.gettypenames() if n not in names0], used, fresh),
                        {"schema_xml": xml, "loads": seq, "outcomes": outs, "probe": probe, "used": used, "fresh": fresh},
                        signature="C19:state-left-behind:import")


def _failed_component_leaves_nothing(ctx, pk):
    """one ConfigLoader object: a load whose %import names a component that fails AFTER it has been found and opened (a schema
    error or an XML error past its first type, or a type clash), then the same text again on the same loader: the second load
    must end like the first and like a load with a fresh loader - the files have not changed"""
    import ZConfig
    from ZConfig.loader import ConfigLoader
    xml = "<schema><abstracttype name='lab'/><multisection type='lab' name='*' attribute='items'/><key name='plain'/></schema>"
    bodies = {
        "schema-error-after-first-type": "<component><sectiontype name='cfirst' implements='lab'><key name='k'/></sectiontype>"
                                         "<sectiontype name='csecond' extends='nosuchbase'/></component>",
        "xml-error-after-first-type": "<component><sectiontype name='cfirst' implements='lab'><key name='k'/></sectiontype><oops</component>",
        "error-in-first-element": "<component><sectiontype name='cfirst' implements='nosuchabstract'/></component>",
        "nested-import-fails": "<component><import package='zcv_no_such_pkg_c19b'/><sectiontype name='cfirst' implements='lab'/></component>",
    }

    def outcome(text, loader):
        try:
            cfg, _ = loader.loadFile(io.StringIO(text), "file:///zcv/c19b.conf")
            return "ok:%d" % len(cfg.items)
        except ZConfig.ConfigurationError as e:
            return "cfg:" + type(e).__name__
        except Exception as e:
            return "exc:" + type(e).__name__
    for kind, body in bodies.items():
        name = pk.add_component([])
        with open(os.path.join(pk.root, name, "component.xml"), "w") as f:
            f.write(body)
        for text in ("%%import %s\n<cfirst>\n k v\n</cfirst>\n" % name, "%%import %s\nplain x\n" % name):
            schema = ZConfig.loadSchemaFile(io.StringIO(xml))
            ld = ConfigLoader(schema)
            outs = [outcome(text, ld), outcome(text, ld), outcome(text, ld)]
            fresh = outcome(text, ConfigLoader(ZConfig.loadSchemaFile(io.StringIO(xml))))
            ctx.evaluations += 1
            ctx.nontriv(("failed-component", kind, text))
            ctx.count("failed-component:%s:%s" % (kind, fresh.split(":")[0]))
            if any(o != fresh for o in outs):
                ctx.violate("a component that fails to load (%s) leaves something behind in the loader: the same text gives %r on one "
                            "loader used three times and %s with a fresh loader" % (kind, outs, fresh),
                            {"schema_xml": xml, "component_xml": body, "text": text, "outcomes": outs, "fresh": fresh},
                            signature="C19:state-left-behind:failed-component")


def _schema_graphs(ctx, tr, pk, base):
    """schema extends / import graphs and %import, with a malformed or missing member; direct oracle only"""
    import ZConfig
    _failed_import_leaves_nothing(ctx, pk)
    _failed_component_leaves_nothing(ctx, pk)
    comp = pk.add_component([F.TypeD("cimp", [F.KeyD("k", "string")])])
    shapes = []
    for bad in (None, "base", "mid", "imp", "missing", "missing-first", "broken-last", "fragment-first"):
        shapes.append(bad)
    for bad in shapes:
        root = tempfile.mkdtemp(prefix="zcv-c19s-", dir=base)
        try:
            def w(n, t):
                with open(os.path.join(root, n), "w") as f:
                    f.write(t)
            w("base.xml", "<schema><key name='b'/>" + ("<oops" if bad == "base" else "") + "</schema>")
            w("imp.xml", "<schema><sectiontype name='it'/>" + ("</oops>" if bad == "imp" else "") + "</schema>")
            w("mid.xml", "<schema extends='base.xml'><import src='imp.xml'/><import package='%s'/>%s</schema>" % (comp, "<key/>" if bad == "mid" else ""))
            w("other.xml", "<schema><key name='o'/>" + ("<oops" if bad == "broken-last" else "") + "</schema>")
            ext = {"missing": "mid.xml nosuch.xml", "missing-first": "nosuch.xml mid.xml", "broken-last": "mid.xml other.xml",
                   "fragment-first": "other.xml#frag mid.xml"}.get(bad, "mid.xml")
            w("top.xml", "<schema extends='%s'><import package='%s'/><multisection type='cimp' name='*' attribute='c'/></schema>" % (ext, comp))
            tr.reset()
            try:
                schema = ZConfig.loadSchema(os.path.join(root, "top.xml"))
                ended = "ok"
            except ZConfig.ConfigurationError:
                schema = None
                ended = "cfg"
            except Exception as e:
                schema = None
                ended = "other:" + type(e).__name__
            ctx.evaluations += 1
            ctx.nontriv(("schema-graph", bad))
            ctx.count("schema-graph:%s:%s" % (bad, ended))
            leaks = tr.leaks()
            if leaks:
                ctx.violate("schema graph (%s member bad, load %s): still open %r" % (bad, ended, leaks),
                            {"bad": bad, "events": tr.events}, signature="C19:leak:schema:%s" % bad)
            if schema is not None:
                # %import, repeated and via includes, then a failing load; nothing may stay open
                w("inc.conf", "%%import %s\n<cimp/>\n" % comp)
                for text in ("%%import %s\n%%import %s\n<cimp/>\n" % (comp, comp), "%%include inc.conf\n%%include inc.conf\n%%import %s\n" % comp,
                             "%%import %s\n<cimp>\n" % comp, "%%import %s\n%%import nosuchpkg_zcv\n" % comp):
                    w("main.conf", text)
                    tr.reset()
                    try:
                        ZConfig.loadConfig(schema, os.path.join(root, "main.conf"))
                        e2 = "ok"
                    except ZConfig.ConfigurationError:
                        e2 = "cfg"
                    ctx.evaluations += 1
                    leaks = tr.leaks()
                    if leaks:
                        ctx.violate("after a load with %%import (%s): still open %r" % (e2, leaks), {"text": text, "events": tr.events},
                                    signature="C19:leak:import")
        finally:
            shutil.rmtree(root, ignore_errors=True)
