"""C08 — a rejected configuration names the resource and line that caused the rejection"""
from .. import cfggen, cfgrun, cfgstream, core, cutter, schemafam as F

RULE = ("accepted texts of the schema family, each with exactly one injected fault of a listed kind at a random line "
        "(culprit line known by construction; both spellings of an empty section; a repeated key is a declared single key or "
        "a key of a single-valued arbitrary-key map '+', the latter repeated anywhere later in its container; an unconvertible value is a key's text "
        "- a text of its own, or the very text that one or two OTHER key lines of the accepted text carry as a value their datatype converts, in the same section "
        "before or after the culprit, or elsewhere - or a whole nested section that its section type's datatype rejects when the enclosing section is closed - culprit: that closing line), and the same text with 1..3 "
        "balanced ranges moved into %include fragments so that the culprit sits in the main resource or in a fragment at "
        "any include depth (expected: the line number within that resource and that resource's URL); non-trivial = the fault was applicable "
        "and the text is rejected; distinct by (schema, text)")

KINDS = ["junk", "directive", "undefined-subst", "malformed-subst", "unknown-key", "repeat-key", "repeat-arbitrary-key", "bad-key", "bad-value",
         "bad-value-repeated-text", "unknown-header", "misplaced-header", "missing-required", "missing-required-empty", "surplus-section",
         "stray-close", "mismatched-close", "rejected-section"]

# key datatypes that convert every text (zcvdt.marker: every text without '!')
_ANY_TEXT_DTS = ("string", "null", "string-list")

# key datatypes whose conversion of the text '!sbad' is a string that still holds it (what zcvdt.sectmarker looks for)
_TEXT_DTS = ("string", "null", "zcvdt.marker")


def render_map(items, cont, depth, lines, recs):
    for it in items:
        if it[0] == "kv":
            recs.append({"k": "kv", "line": len(lines), "cont": cont, "item": it})
            lines.append("  " * depth + it[1] + (" " + it[2] if it[2] else ""))
        else:
            _, ty, nm, sub, empty = it
            hdr = ty + (" " + nm if nm else "")
            rec = {"k": "sect", "start": len(lines), "cont": cont, "item": it, "type": ty.lower()}
            recs.append(rec)
            if empty and not sub:
                lines.append("  " * depth + "<" + hdr + "/>")
                rec["end"] = rec["start"]
            else:
                lines.append("  " * depth + "<" + hdr + ">")
                render_map(sub, ty.lower(), depth + 1, lines, recs)
                rec["end"] = len(lines)
                lines.append("  " * depth + "</" + ty + ">")


def inject(rng, elab, items, kind):
    """returns (lines, culprit_line_1based, expected_kinds, extra) or None"""
    lines, recs = [], []
    render_map(items, None, 0, lines, recs)
    sects = [r for r in recs if r["k"] == "sect"]
    kvs = [r for r in recs if r["k"] == "kv"]

    def insert_at():
        # any position (before line p); returns p and container type at that position
        p = rng.randint(0, len(lines))
        cont = None
        for r in sects:
            if r["start"] < p <= r["end"] and r["end"] != r["start"]:
                cont = r["type"] if cont is None or True else cont
        # innermost: last matching in document order is innermost because recs are in pre-order
        return p, cont

    if kind in ("junk", "directive", "undefined-subst", "malformed-subst", "unknown-key", "bad-key", "unknown-header",
                "stray-close"):
        p, cont = insert_at()
        if kind == "junk":
            new = [rng.choice(["<", "<>", "</", "<a b c>", "(x) y", "<a", "a>b (", "<a (b)>", "< a>"])]
            exp = ["syntax"]
        elif kind == "directive":
            new = [rng.choice(["%bogus x", "%define", "%include", "%import", "%DEFINE a b", "%defines a b", "%", "% define a", "%Include x", "%Import p", "% include x"])]
            exp = ["syntax"]
        elif kind == "undefined-subst":
            new = [rng.choice(["somekey $undefined_zcv", "somekey a${undefined_zcv}b", "somekey $(NOSUCHENV_ZCV)",
                               "%define a $undefined_zcv", "%import $undefined_zcv", "%include $undefined_zcv"])]
            exp = ["replacement"]
        elif kind == "malformed-subst":
            new = [rng.choice(["somekey $", "somekey ${a", "somekey $(a", "somekey a$-b", "%define a ${", "%import a$"])]
            exp = ["subst-syntax"]
        elif kind == "unknown-key":
            children, kt = cfggen._children_of(elab, cont)
            if children is None or any(c[1][0] == "key" and c[1][1] == "+" for c in children):
                return None
            new = ["nosuchkey v" if kt != "ipaddr-or-hostname" else "no-such.key v"]
            if rng.random() < 0.4:
                new = [new[0].split()[0]]        # the key alone on its line (an empty value)
            exp = ["plain"]
        elif kind == "bad-key":
            new = [rng.choice(["1bad v", "-x v", "a:b v"])]
            children, kt = cfggen._children_of(elab, cont)
            if kt == "ipaddr-or-hostname":
                new = ["-x v"]
            exp = ["conversion"]
        elif kind == "unknown-header":
            new = rng.choice([["<nosuchtype>", "</nosuchtype>"], ["<nosuchtype x/>"], ["<nosuchtype/>"]])
            exp = ["syntax"]
        else:  # stray-close at top level only
            if cont is not None:
                return None
            new = ["</" + rng.choice([n for n, _ in elab[1]] or ["x"]) + ">"]
            exp = ["syntax"]
        lines[p:p] = new
        return lines, p + 1, exp, {"value": new[0].split()[0] if kind == "bad-key" else None}
    if kind == "misplaced-header":
        # a known concrete type that no slot of the container admits
        p, cont = insert_at()
        children, kt = cfggen._children_of(elab, cont)
        if children is None:
            return None
        admitted = set()
        for key, info in children:
            if info[0] == "sect":
                admitted.update(cfggen._implementers(elab, info[5]))
        cands = [n for n, te in elab[1] if te[0] == "concrete" and n not in admitted]
        if not cands:
            return None
        t = rng.choice(cands)
        new = rng.choice([["<%s zz9>" % t, "</%s>" % t], ["<%s zz9/>" % t]])
        lines[p:p] = new
        return lines, p + 1, ["syntax"], {}
    if kind == "repeat-key":
        cands = []
        for r in kvs:
            children, kt = cfggen._children_of(elab, r["cont"])
            for key, info in children or []:
                if info[0] == "key" and not info[3] and info[1] == cfggen._norm(kt, r["item"][1]):
                    cands.append(r)
        if not cands:
            return None
        r = rng.choice(cands)
        dup = lines[r["line"]]
        if rng.random() < 0.4:
            dup = dup[: len(dup) - len(dup.lstrip())] + dup.split()[0]     # the repeated key alone on its line
        lines.insert(r["line"] + 1, dup)
        return lines, r["line"] + 2, ["plain"], {}
    if kind == "repeat-arbitrary-key":
        # a key line that no declared name claims and that therefore goes to the container's single-valued arbitrary-key map
        # (<key name="+">): the same key once more - same or other spelling of its letter case where the key type folds case,
        # same, other or no value - at ANY later position of the same container (directly after the first occurrence, after
        # further keys and whole sub-sections, just before the closing line; at top level: anywhere up to the end of the text).
        # The culprit is the second occurrence; the section is closed (and its values converted) only later.
        cands = []
        for r in kvs:
            children, kt = cfggen._children_of(elab, r["cont"])
            if children is None:
                continue
            rk = cfggen._norm(kt, r["item"][1])
            if any(key == rk or (info[0] == "key" and info[1] == rk) for key, info in children):
                continue
            plus = [info for key, info in children if info[0] == "key" and info[1] == "+"]
            if len(plus) != 1 or plus[0][3]:
                continue
            inside = [s for s in sects if s["end"] != s["start"] and s["start"] < r["line"] <= s["end"]]
            lo, hi = (inside[-1]["start"], inside[-1]["end"]) if inside else (-1, len(lines))
            subs = [s for s in sects if s["end"] != s["start"] and lo < s["start"] and s["end"] < hi]
            spots = [p for p in range(r["line"] + 1, hi + 1) if not any(s["start"] < p <= s["end"] for s in subs)]
            cands.append((r, kt, plus[0][5], spots))
        if not cands:
            return None
        r, kt, dt, spots = rng.choice(cands)
        p = spots[0] if rng.random() < 0.3 else rng.choice(spots)
        orig = lines[r["line"]]
        key = r["item"][1]
        if kt != "identifier" and rng.random() < 0.4:
            key = rng.choice([cfggen._upper(key), key.lower(), cfggen._case_variant(rng, key)])
        v = rng.random()
        val = r["item"][2] if v < 0.4 else "" if v < 0.6 else rng.choice(cfggen.GOOD[dt])
        lines.insert(p, orig[: len(orig) - len(orig.lstrip())] + key + (" " + val if val else ""))
        return lines, p + 1, ["plain"], {"distance": p - r["line"], "at-top": r["cont"] is None}
    if kind in ("bad-value", "bad-value-repeated-text"):
        def key_dt(x):
            children, kt = cfggen._children_of(elab, x["cont"])
            dt = None
            for key, info in children or []:
                if info[0] == "key" and info[1] == cfggen._norm(kt, x["item"][1]):
                    dt = info[5]
            if dt is None:
                for key, info in children or []:
                    if info[0] == "key" and info[1] == "+":
                        dt = info[5]
            return dt
        cands = []
        for r in kvs:
            dt = key_dt(r)
            if dt in cfggen.BAD:
                bad = [b for b in cfggen.BAD[dt] if b.strip() and "$" not in b]
                if bad:
                    cands.append((r, bad))
        if not cands:
            return None
        if kind == "bad-value":
            r, bad = rng.choice(cands)
            b = rng.choice(bad)
            ind = lines[r["line"]][: len(lines[r["line"]]) - len(lines[r["line"]].lstrip())]
            lines[r["line"]] = ind + r["item"][1] + " " + b
            return lines, r["line"] + 1, ["conversion"], {"value": b}
        # the unconvertible text is not unique in the configuration: one or two OTHER key lines - of the same section (or of
        # the top level) before or after the culprit, or anywhere else - carry exactly the same text as their value, under keys
        # whose datatype converts it (names, titles, notes: the same words given to a key that takes any text).  Those lines
        # are fine (the text with them alone is still an accepted text, checked by the caller); the one fault is the line
        # whose datatype rejects the text, and values are converted only when their section is closed.
        def inst(x):
            inside = [i for i, s in enumerate(sects) if s["end"] != s["start"] and s["start"] < x["line"] <= s["end"]]
            return inside[-1] if inside else -1
        rng.shuffle(cands)
        for r, bad in cands:
            b = rng.choice(bad)
            tol = [x for x in kvs if x is not r and (key_dt(x) in _ANY_TEXT_DTS or (key_dt(x) == "zcvdt.marker" and "!" not in b))]
            if tol:
                break
        else:
            return None
        same = [x for x in tol if inst(x) == inst(r)]
        before = [x for x in same if x["line"] < r["line"]]
        u = rng.random()
        pool = before if (before and u < 0.5) else same if (same and u < 0.8) else tol
        twins = rng.sample(pool, 2 if (len(pool) > 1 and rng.random() < 0.25) else 1)

        def put(x, text):
            ind = lines[x["line"]][: len(lines[x["line"]]) - len(lines[x["line"]].lstrip())]
            lines[x["line"]] = ind + x["item"][1] + " " + text
        for x in twins:
            put(x, b)
        fine = list(lines)
        put(r, b)
        rel = sorted({("same-section-" if inst(x) == inst(r) else "other-section-") + ("before" if x["line"] < r["line"] else "after")
                      for x in twins})
        return lines, r["line"] + 1, ["conversion"], {"value": b, "twins": "+".join(rel), "at-top": r["cont"] is None,
                                                      "without-fault": fine}
    if kind in ("missing-required", "missing-required-empty"):
        cands = []
        for r in kvs:
            if r["cont"] is None:
                continue
            children, kt = cfggen._children_of(elab, r["cont"])
            for key, info in children or []:
                if info[0] == "key" and info[4] >= 1 and info[1] not in ("+",) and info[1] == cfggen._norm(kt, r["item"][1]):
                    # the only line for that key in its section?
                    sect = [s for s in sects if s["start"] < r["line"] <= s["end"]][-1]
                    same = [x for x in kvs if sect["start"] < x["line"] <= sect["end"] and x["cont"] == r["cont"]
                            and cfggen._norm(kt, x["item"][1]) == info[1]
                            and [s for s in sects if s["start"] < x["line"] <= s["end"]][-1] is sect]
                    if len(same) == 1:
                        cands.append((r, sect))
        if not cands:
            return None
        r, sect = rng.choice(cands)
        if kind == "missing-required":
            del lines[r["line"]]
            return lines, sect["end"], ["syntax"], {}     # closing line index shifts by -1, 1-based +1
        # replace the whole section by its self-closing spelling (drops everything in it)
        hdr = lines[sect["start"]].strip()[1:-1]
        lines[sect["start"]: sect["end"] + 1] = ["<" + hdr + rng.choice(["/>", " />"])]
        return lines, sect["start"] + 1, ["syntax"], {}
    if kind == "surplus-section":
        cands = []
        for r in sects:
            children, kt = cfggen._children_of(elab, r["cont"])
            ci = None
            # the slot the section occupies must be single
            for key, info in children or []:
                if info[0] == "sect" and not info[3]:
                    if (key and r["item"][2] and key == r["item"][2].lower()) or \
                       (not key and r["type"] in cfggen._implementers(elab, info[5])):
                        ci = info
                        break
                if info[0] == "sect" and info[3] and not key and r["type"] in cfggen._implementers(elab, info[5]):
                    break
            if ci is not None and ci[1] in ("*", "+"):
                cands.append(r)
        if not cands:
            return None
        r = rng.choice(cands)
        blk = lines[r["start"]: r["end"] + 1]
        nm = r["item"][2]
        hdr = r["item"][1] + " surplus9"
        if len(blk) == 1:
            blk = ["<" + hdr + "/>"]
        else:
            blk = ["<" + hdr + ">"] + blk[1:]
        lines[r["end"] + 1: r["end"] + 1] = blk
        return lines, r["end"] + 1 + len(blk), ["syntax"], {}
    if kind == "rejected-section":
        # an unconvertible SECTION: every line of it converts, but the datatype of its section type (a check over the whole
        # section, zcvdt.sectmarker) rejects the section value.  A section is converted when the section that ENCLOSES it is
        # closed, so the line that causes the rejection is the closing line of the enclosing section (nesting depth >= 1; the
        # section is the occupant of a single slot or a member of a multisection, written '<t>...</t>' or - before the
        # offending key line is put into it - '<t/>').  Sections directly at top level are converted when the text has been
        # read to its end: no line of it closes anything, so they are not among the listed kinds.
        cands = []
        for r in sects:
            t = [te for n, te in elab[1] if n == r["type"] and te[0] == "concrete"]
            if not t or t[0][1][3] != "zcvdt.sectmarker":
                continue
            if r["cont"] is None:
                continue
            children, kt = cfggen._children_of(elab, r["type"])
            keys = [info for key, info in children if info[0] == "key" and info[1] != "+" and not info[3] and info[5] in _TEXT_DTS]
            if not keys:
                continue
            enc = [s for s in sects if s["end"] != s["start"] and s["start"] < r["start"] and r["end"] < s["end"]][-1]
            cands.append((r, kt, keys, enc))
        if not cands:
            return None
        r, kt, keys, enc = rng.choice(cands)
        info = rng.choice(keys)
        bad = rng.choice(["!sbad", "x !sbad y", "!sbad !sbad"])
        own = [x for x in kvs if x["cont"] == r["type"] and r["start"] < x["line"] < r["end"] and cfggen._norm(kt, x["item"][1]) == info[1]
               and [s for s in sects if s["end"] != s["start"] and s["start"] < x["line"] <= s["end"]][-1] is r]
        pcont, pkt = cfggen._children_of(elab, enc["type"])
        slot = cfggen.claiming_child(elab, pcont, r["type"], r["item"][2].lower() if r["item"][2] else None)
        depth = len([s for s in sects if s["end"] != s["start"] and s["start"] < r["start"] and r["end"] < s["end"]])
        extra = {"slot": "multisection" if slot and slot[3] else "section", "depth": depth}
        if own:
            x = own[-1]          # (the given line: the last one, were the key given twice the base would not be accepted)
            ind = lines[x["line"]][: len(lines[x["line"]]) - len(lines[x["line"]].lstrip())]
            lines[x["line"]] = ind + x["item"][1] + " " + bad
            extra["how"] = "value-of-given-key"
            return lines, enc["end"] + 1, ["conversion"], extra
        ind = lines[r["start"]][: len(lines[r["start"]]) - len(lines[r["start"]].lstrip())]
        if r["end"] == r["start"]:
            # '<t/>' becomes '<t>', the key line, '</t>'
            hdr = lines[r["start"]].strip()[1:-2].rstrip()
            lines[r["start"]: r["start"] + 1] = [ind + "<" + hdr + ">", ind + "  " + info[1] + " " + bad, ind + "</" + r["item"][1] + ">"]
            extra["how"] = "key-added-to-empty-form"
            return lines, enc["end"] + 3, ["conversion"], extra
        p = rng.choice([r["start"] + 1, r["end"]])      # first or last line of the section's body
        lines.insert(p, ind + "  " + info[1] + " " + bad)
        extra["how"] = "key-added"
        return lines, enc["end"] + 2, ["conversion"], extra
    if kind == "mismatched-close":
        cands = [r for r in sects if r["end"] != r["start"]]
        if not cands:
            return None
        r = rng.choice(cands)
        lines[r["end"]] = "</" + r["item"][1] + "x>"
        return lines, r["end"] + 1, ["syntax"], {}
    return None


def _restating_override(rng, lines, culprit):
    """'key=value' for a top-level key line (not the culprit line) whose key occurs once at top level and whose value is
    plain text: overriding it changes nothing"""
    import re
    prof = cutter.depth_profile(lines)
    depth, tops, ckey = 0, [], []
    for i, (l, d) in enumerate(zip(lines, prof)):
        if depth == 0 and d == 0 and i != culprit - 1:
            m = re.match(r"^\s*([A-Za-z][-._A-Za-z0-9]*)\s+(\S(?:.*\S)?)\s*$", l)
            if m and "$" not in m.group(2) and "=" not in m.group(1) and not l.lstrip().startswith(("%", "#", "<")):
                tops.append((m.group(1), m.group(2)))
        elif depth == 0 and d == 0 and l.split():
            ckey.append(l.split()[0])      # the culprit line's own key (a repeated key) is never the one restated
        depth += d
    keys = [k.lower().replace("_", "-") for k, _ in tops] + [k.lower().replace("_", "-") for k in ckey]
    once = [(k, v) for k, v in tops if keys.count(k.lower().replace("_", "-")) == 1 and v == v.strip() and not any(c in v for c in "\x0b\x0c\x1c\x1d\x1e\x85\u2028\u2029")]
    if not once:
        return None
    k, v = rng.choice(once)
    return "%s=%s" % (k, v)


def run(ctx):
    obligations, discharged, names = core.standard_prelude(ctx, ["ZCV.Props.C08"])
    n_schemas = 400 if ctx.thorough() else 50
    per = 30 if ctx.thorough() else 16
    rng = ctx.rng
    # 1. base texts, kept only when the real loader accepts them (the quantifier: accepted texts)
    bases = []
    for _ in range(n_schemas):
        # (two schemas in five also have a section type with a checking datatype nested in a holder type: the place for the
        #  fault kind 'rejected-section', which the general family offers in one accepted text out of eighty)
        sd, real, elab, hn = cfgstream.make_schema(rng, False, schema_hook=cfggen.add_checked_section if rng.random() < 0.4 else None)
        if not cfgstream.check_digest(ctx, sd, real, elab):
            continue
        for _ in range(per):
            # (one text in five is sparse: optional keys mostly left out, sections often empty and written '<t/>')
            items = cfggen.gen_items(rng, elab, None, 3, pfill=0.9 if rng.random() < 0.8 else 0.5)
            lines, recs = [], []
            render_map(items, None, 0, lines, recs)
            out, _, _ = cfgrun.real_load(real, "\n".join(lines) + "\n", cfgstream.URL)
            if out[0] == "ok":
                bases.append((sd, real, elab, hn, items))
            else:
                ctx.count("base-not-accepted")
    # 2. one fault each
    cases = []
    for sd, real, elab, hn, items in bases:
        # three kinds drawn at random, and always the rare one (few schemas offer a place for it)
        kinds = rng.sample(KINDS, 3)
        if "rejected-section" not in kinds:
            kinds.append("rejected-section")
        for kind in kinds:
            r = inject(rng, elab, items, kind)
            if r is None:
                ctx.count("inapplicable:" + kind)
                continue
            lines, culprit, exp, extra = r
            if kind == "bad-value-repeated-text":
                # (the quantifier: accepted texts - with the other lines carrying the text, without the fault)
                out, _, _ = cfgrun.real_load(real, "\n".join(extra.pop("without-fault")) + "\n", cfgstream.URL)
                if out[0] != "ok":
                    ctx.count("inapplicable:bad-value-repeated-text:text-not-accepted-elsewhere")
                    continue
                ctx.count("bad-value-repeated-text:%s:%s" % ("top-level" if extra["at-top"] else "in-section", extra["twins"]))
            if kind == "repeat-arbitrary-key":
                ctx.count("repeat-arbitrary-key:%s:%s" % ("top-level" if extra["at-top"] else "in-section",
                                                          "adjacent" if extra["distance"] == 1 else "apart"))
            if kind == "rejected-section":
                ctx.count("rejected-section:%s:depth-%d:%s" % (extra["slot"], min(extra["depth"], 3), extra["how"]))
            c = cfgstream.Case()
            c.sd, c.real, c.elab, c.hnames = sd, real, elab, hn
            c.lines, c.faults, c.overrides = lines, [kind], ()
            c.meta = {"culprit": culprit, "kinds": exp, "extra": extra, "kind": kind}
            cases.append(c)
            if rng.random() < 0.35:
                # the same faulty text loaded WITH an override that merely restates one top-level key line of the text
                # (another line than the culprit): the loader then runs through the command-line matchers; culprit and
                # position are what they were
                ov = _restating_override(rng, lines, culprit)
                if ov:
                    o = cfgstream.Case()
                    o.sd, o.real, o.elab, o.hnames = sd, real, elab, hn
                    o.lines, o.faults, o.overrides = lines, [kind, "with-override"], (ov,)
                    o.meta = dict(c.meta)
                    cases.append(o)
                    ctx.count("with-restating-override")
            if rng.random() < 0.6:
                # the same faulty text with 1..3 balanced ranges moved into %include fragments: the culprit line is
                # then a line of the main resource or of a fragment (which counts its own lines), at any include depth
                # (lines of resources read from files may end in characters that str.isspace() accepts but that are NOT line
                #  terminators for the parser: form feed, vertical tab, FS/GS/RS, NEL, LINE/PARAGRAPH SEPARATOR)
                deco = list(lines)
                for k in range(len(deco)):
                    if rng.random() < 0.15:
                        deco[k] = deco[k] + rng.choice(["\x0c", "\x0b", "\x1c", "\x1d", "\x85", "\u2028", "\u2029", " \x0c "])
                main, files, placements, where_is = cutter.cut_tracked(rng, deco, rng.choice([1, 2, 3]))
                if placements and (culprit - 1) in where_is:
                    d = cfgstream.Case()
                    d.sd, d.real, d.elab, d.hnames = sd, real, elab, hn
                    d.lines, d.files, d.faults, d.overrides = main, files, [kind, "included"], ()
                    rel, ln = where_is[culprit - 1]
                    d.meta = {"culprit": ln, "culprit_rel": rel, "kinds": exp, "extra": extra, "kind": kind,
                              "main": "m/main.conf", "inline": lines, "inline_culprit": culprit}
                    cases.append(d)
                    ctx.count("culprit-in:" + ("main" if rel == "m/main.conf" else "fragment"))
    cfgstream.evaluate(ctx, cases)
    for c in cases:
        kind = c.meta["kind"]
        out = c.out
        if out[0] == "ok":
            ctx.count("accepted-despite-fault:" + kind)
            continue
        if out[0] == "internal":
            # an exception outside the configuration-error family (C07) carries no line and no resource either
            ctx.count("non-cfg:" + kind)
            ctx.violate("fault %s at line %d: the load ends with %s, which names neither the line nor the resource" % (kind, c.meta["culprit"], out[1]),
                        dict(c.replay(), culprit=c.meta["culprit"], impl=out), signature="C08:%s:internal:%s" % (kind, out[1]))
            continue
        if out[0] != "cfg":
            ctx.count("non-cfg:" + kind)
            continue   # an exception of a datatype function itself
        ctx.count("fault:" + kind)
        ctx.nontriv((id(c.sd), tuple(c.lines)))
        # correspondence on position
        if c.model is not None:
            why = cfgrun.compare_load(c.model, c.out, c.cfg, c.handler, c.hnames)
            if why is not None and ("position" in why or "kind" in why or "conversion value" in why or "outcome" in why):
                ctx.disagree("load", c.replay(), c.out, c.model[:6])
        # oracle: the base text is accepted, so the rejection is due to the injected line; when the (independently
        # validated) model and the implementation agree on another line the generator's culprit is imprecise: no alarm
        if c.model and c.model[0] == "cfg" and c.model[2] == F.DEFAULT_LINE:
            ctx.count("schema-default-conversion:" + kind)   # the fault exposed an unconvertible schema default: not a listed kind
            continue
        if (out[2] != c.meta["culprit"] and c.model and c.model[0] == "cfg" and c.model[2] == out[2]
                and c.model[2] is not None):
            ctx.count("culprit-imprecise:" + kind)
            continue
        want_url = cfgstream.URL
        if c.files is not None:
            import urllib.parse
            import urllib.request
            root_url = c.url[: -len(urllib.request.pathname2url("m/main.conf"))]
            want_url = urllib.parse.urljoin(root_url, urllib.request.pathname2url(c.meta["culprit_rel"]))
        if out[2] != c.meta["culprit"] or out[3] != want_url:
            res_lines = c.lines if c.files is None or c.meta["culprit_rel"] == c.meta.get("main") else c.files.get(c.meta["culprit_rel"], [])
            form = "empty-form" if any(l.strip().endswith("/>") and i + 1 == c.meta["culprit"] for i, l in enumerate(res_lines)) else "line"
            sig = "C08:%s:%s:%s" % (kind if form == "line" else "any", out[1], "no-position" if out[2] is None else "wrong-position")
            if form == "empty-form":
                sig = "C08:empty-form:%s:%s" % (out[1], "no-position" if out[2] is None else "wrong-position")
            ctx.violate("fault %s at line %d of %s: error %s carries lineno=%r url=%r" % (
                kind, c.meta["culprit"], want_url, out[1], out[2], out[3]),
                dict(c.replay(), culprit=c.meta["culprit"], impl=out), signature=sig)
        elif out[1] == "conversion" and c.meta["extra"].get("value") is not None and out[4] != c.meta["extra"]["value"]:
            ctx.violate("conversion error does not carry the offending text: %r vs %r" % (out[4], c.meta["extra"]["value"]),
                        dict(c.replay(), impl=out), signature="C08:conversion-value")
    # a datatype that rejects by raising a located ZConfig error of its own (e.g. one implemented with a nested load): the
    # error the application sees must still name the line and resource of the value being converted, and that value
    import io
    import ZConfig
    sch = ZConfig.loadSchemaFile(io.StringIO(
        "<schema><sectiontype name='s'><key name='k' datatype='zcvdt.nested'/><multikey name='m' datatype='zcvdt.nested'/></sectiontype>"
        "<multisection type='s' name='*' attribute='ss'/><key name='k' datatype='zcvdt.nested'/></schema>"))
    for text, line, val in (("# c\n\nk a !nested b\n", 3, "a !nested b"), ("<s>\n k ok\n m fine\n m x!nested\n</s>\n", 4, "x!nested"),
                            ("k fine\n<s a>\n</s>\n<s b>\n k !nested\n</s>\n", 5, "!nested")):
        out, _, _ = cfgrun.real_load(sch, text, cfgstream.URL)
        ctx.evaluations += 1
        ctx.nontriv(("nested-datatype", text))
        if out[0] != "cfg" or out[1] != "conversion" or out[2] != line or out[3] != cfgstream.URL or out[4] != val:
            ctx.violate("a datatype raising its own located error at line %d: the error carries %r" % (line, out),
                        {"text": text, "expected": ["conversion", line, cfgstream.URL, val], "impl": out}, signature="C08:nested-datatype-error")
    if cases:
        ctx.sample({"lines": cases[0].lines, "culprit": cases[0].meta["culprit"], "fault": cases[0].faults, "impl": cases[0].out})
        ctx.sample({"lines": cases[-1].lines, "culprit": cases[-1].meta["culprit"], "fault": cases[-1].faults, "impl": cases[-1].out})
    return core.finish(ctx, obligations, discharged, names, RULE,
                       "lake build ZCV.Props.C08 && lake env lean ZCV/Audit/C08.lean",
                       ["datatypes fail with ValueError", "positions compared: lineno and url attributes of the raised error"])
