"""C02 — an accepted configuration yields exactly the typed value tree the schema defines"""
import re

from .. import cfggen, cfgrun, cfgstream, core, schemafam as F

RULE = ("same schema family restricted to datatypes with a reference conversion in the model; mostly valid texts "
        "(0..1 faults), keys whose datatype converts the empty string also given WITH the empty value (alone on their line "
        "or through a reference to an empty definition); attribute names GIVEN by the schema respelled as arbitrary identifiers (leading / "
        "trailing underscores, upper and mixed case) and given to fixed-name items that state none; a directed stream of schemas "
        "whose keys, multikeys, sections and multisections are given attribute names a value object might use for its own fields "
        "('_name', '_type', '_attributes', ...); the whole value tree is compared attribute by attribute (names, order, values, types, section "
        "names and types); a text the schema accepts on which the loader raises something that is no configuration error yields no tree "
        "(reported with the shortest sequence of earlier loads on a fresh schema object that reproduces it); HISTORIES of one schema "
        "object: texts that leave the defaulted keys / multikeys / arbitrary keys of their sections out, so that the schema's defaults are "
        "needed again and again - by several sections of one text, by the same text loaded twice, by a later text - each load compared "
        "with `denote`, on every other schema with the application changing the containers of each result in place before the next load; "
        "non-trivial = accepted with at least one key or section; distinct by (schema, text)")


def run(ctx):
    obligations, discharged, names = core.standard_prelude(ctx, ["ZCV.Props.C02"])
    n_s, n_t = (1500, 50) if ctx.thorough() else (120, 25)
    cases = cfgstream.gen_cases(ctx, n_s, n_t, nfaults=(0, 0, 0, 1), pempty=0.15, schema_hook=cfggen.respell_attributes)
    cfgstream.evaluate(ctx, cases, with_spec=True)
    seen = set()
    for c in cases:
        if id(c.sd) not in seen:
            seen.add(id(c.sd))
            for k in {_spelling(a) for a in cfggen.given_attributes(c.elab)}:
                ctx.count("schema-with-attribute-name:" + k)
    bad = []
    bad_spec = []
    raised = []
    for i, c in enumerate(cases):
        ctx.count("impl:" + c.out[0])
        if c.out[0] == "internal" and c.spec is not None and c.spec[0] == "accept":
            # the text conforms and the loader did not reject it (no configuration error), yet there is no value tree
            ctx.count("accepted-but-loader-raised:" + str(c.out[1]))
            raised.append((i, c))
        if c.out[0] != "ok" or c.model is None:
            continue
        if c.lines:
            ctx.nontriv((id(c.sd), tuple(c.lines)))
        for k in set(cfggen.empty_given(c.elab, c.meta["items"])):
            ctx.count("accepted-with-empty-value:" + k)      # a key that is present holds the conversion of '', not its default
        # ORACLE: the declarative `denote` of ZCV/Spec/Conforms.lean
        if _off_spec(c):
            bad_spec.append(c)
            continue
        if c.model[0] != "ok":
            continue      # accept/reject is C01's observable
        for k in {_spelling(a) for a in _listed(c.model[1])}:
            ctx.count("accepted-value-tree-with-attribute-name:" + k)
        if not cfgrun.match_val(c.model[1], c.cfg):
            bad.append(c)
            ctx.disagree("value", c.replay(), cfgrun.describe(c.cfg), c.model[1])
    for c in bad_spec[:3]:
        # (the replay names the smallest text found on which the loader's tree still differs from `denote`)
        c.lines = cfgstream.shrink_lines(ctx, c, lambda cs: [_off_spec(x) for x in cs], with_spec=True)
        cfgstream.evaluate(ctx, [c], with_spec=True)
    for c in bad_spec:
        if _off_spec(c):
            ctx.violate("accepted text yields a value tree different from the one the schema defines (denote)",
                        dict(c.replay(), impl=cfgrun.describe(c.cfg), expected=c.spec[1]), signature="C02:value-tree")
    for i, c in raised[:3]:
        _report_raised(ctx, cases[:i], c)
    for c in bad[:3]:
        small = cfgstream.shrink_lines(ctx, c, lambda cs: [x.out[0] == "ok" and x.model[0] == "ok" and not cfgrun.match_val(x.model[1], x.cfg) for x in cs])
        c.lines = small
        cfgstream.evaluate(ctx, [c])
    for c in bad:
        ctx.violate("accepted text yields a value tree different from the one the schema defines",
                    dict(c.replay(), impl=cfgrun.describe(c.cfg), expected=c.model[1]), signature="C02:value-tree")
    if cases:
        ok = [c for c in cases if c.out[0] == "ok"]
        for c in ok[:2]:
            ctx.sample({"lines": c.lines, "value": cfgrun.describe(c.cfg)})
    _defaults_again(ctx, cases)
    _own_field_names(ctx)
    _prefixed_datatypes(ctx)
    return core.finish(ctx, obligations, discharged, names, RULE,
                       "lake build ZCV.Props.C02 && lake env lean ZCV/Audit/C02.lean",
                       ["float values compared as float(literal) == value", "schema object = expected elaboration (digest checked per schema)"])


def _off_spec(c):
    """accepted by the loader and by `conforms`, with a value tree that is not `denote`'s"""
    return (c.out[0] == "ok" and c.spec is not None and c.spec[0] == "accept" and not cfgrun.match_val(c.spec[1], c.cfg))


def _spelling(a):
    """the way an attribute name is written, for the evidence"""
    if a.startswith("_"):
        return "underscore-first"
    if a.endswith("_"):
        return "underscore-last"
    return "lower-case" if a == a.lower() else "upper-or-mixed-case"


def _listed(m):
    """the attribute names the section values of an expected value tree list (all levels)"""
    if isinstance(m, list) and m:
        if m[0] == "sect":
            for a, x in m[3]:
                yield a
                yield from _listed(x)
        elif m[0] in ("list", "wrap", "tup"):
            for x in m[1:]:
                yield from _listed(x)


# ------------------------------------------------------------------ one schema object, many loads
SCRIBBLE = "zcv-scribble"


def _scribble(v, seen=None):
    """what an application may do with a value tree it was handed: change, in place, every container in it (lists get one more
    item, mappings one more entry, the lists inside mappings one more item).  The tree is the application's; the schema is not."""
    seen = set() if seen is None else seen
    if id(v) in seen:
        return
    seen.add(id(v))
    if hasattr(v, "getSectionAttributes"):
        for a in v.getSectionAttributes():
            _scribble(getattr(v, a, None), seen)
    elif isinstance(v, cfgrun.zcvdt.Wrapped):
        _scribble(v.inner, seen)
    elif isinstance(v, list):
        for x in list(v):
            _scribble(x, seen)
        v.append(SCRIBBLE)
    elif isinstance(v, dict):
        for x in list(v.values()):
            _scribble(x, seen)
        v[SCRIBBLE] = [SCRIBBLE]


def _load_history(sd, texts, scribble=False, expected=None):
    """a FRESH schema object (built from the schema text) serving the texts in order - every other load through one long-lived
    ConfigLoader, the others through the module-level entry point; returns [(outcome, value tree or None)] per load, or, with
    the expected trees given (None = nothing to compare), [(outcome, rendering of the tree, tree is the expected one)] - judged
    and rendered BEFORE the application changes the result in place"""
    real = F.load_real(sd)
    loader = None
    res = []
    for j, lines in enumerate(texts):
        if j % 2:
            if loader is None:
                from ZConfig.loader import ConfigLoader
                loader = ConfigLoader(real)
            import io
            try:
                cfg, _ = loader.loadFile(io.StringIO("\n".join(lines) + "\n"), cfgstream.URL)
                out = ["ok"]
            except Exception as e:
                out, cfg = cfgrun.classify_exc(e), None
        else:
            out, cfg, _ = cfgrun.real_load(real, "\n".join(lines) + "\n", cfgstream.URL, reuse=False)
        if expected is None:
            res.append((out, cfg))
        else:
            res.append((out, _describe(out, cfg), expected[j] is not None and _yields(expected[j], out, cfg)))
        if scribble and cfg is not None:
            try:
                _scribble(cfg)
            except Exception:
                pass      # (a tree that cannot be walked is found by the comparison, not here)
    return res


def _yields(expected, out, cfg):
    try:
        return out[0] == "ok" and cfgrun.match_val(expected, cfg)
    except Exception:
        return False


def _describe(out, cfg):
    if out[0] != "ok":
        return out
    try:
        return cfgrun.describe(cfg)
    except Exception as e:
        return "describe raised " + type(e).__name__


def _report_raised(ctx, before, c):
    """a conforming text on which the loader raised something that is no configuration error.  The replay is made
    self-contained: the text alone on a fresh schema object if that fails too (then shrunk), else the shortest sequence of the
    texts this schema object had served before (in the order of the stream) after which it fails on a fresh one."""
    what = "text the schema accepts (conforms) yields no value tree: the loader raised %s, which is no configuration error" % c.out[1]
    expected = c.spec[1]

    def fails_after(hist, lines=None):
        out, cfg = _load_history(c.sd, list(hist) + [c.lines if lines is None else lines])[-1]
        return out[0] == "internal", (out, cfg)
    alone, (out, cfg) = fails_after([])
    if alone:
        def still(cands):
            # (a shorter text must still conform and still make the loader raise, alone on a fresh schema object)
            reqs = [cfgrun.spec_load_request(c.elab, ls, cfgstream.URL, env=cfgstream.ENV) for ls in cands]
            specs = core.driver_batch(reqs, chunk=5000)
            return [sp[0] == "accept" and fails_after([], ls)[0] for ls, sp in zip(cands, specs)]
        from .. import util
        small = c.lines if any("%include" in l for l in c.lines) else util.shrink_seq(list(c.lines), still)
        out, cfg = fails_after([], small)[1]
        exp = core.driver_batch([cfgrun.spec_load_request(c.elab, small, cfgstream.URL, env=cfgstream.ENV)])[0]
        ctx.violate(what, dict(c.replay(), lines=small, history=[], impl=_describe(out, cfg), expected=exp[1] if exp[0] == "accept" else expected),
                    signature="C02:value-tree")
        return
    hist = [x.lines for x in before if x.sd is c.sd and not any("%include" in l for l in x.lines)]
    again, (out, cfg) = fails_after(hist)
    if again:
        from .. import util
        hist = util.shrink_seq(hist, lambda cands: [fails_after(h)[0] for h in cands])
        out, cfg = fails_after(hist)[1]
        note = "loaded on a fresh schema object after the texts of 'history' (in that order); alone on a fresh schema object it yields the tree"
    else:
        out, cfg = c.out, None
        note = "seen on the schema object of the stream after the texts of 'history'; not reproduced on a fresh schema object"
    ctx.violate(what + " - on a schema object that served other loads before",
                dict(c.replay(), history=hist, note=note, impl=_describe(out, cfg), expected=expected), signature="C02:value-tree")


def _fallbacks(elab, items):
    """the kinds of defaulted keys a (conforming) item tree leaves to the schema defaults, per section occurrence"""
    out = []
    for cont, tyname in cfggen._containers(items, None, []):
        children, kt = cfggen._children_of(elab, tyname)
        if children is None:
            continue
        given = {cfggen._norm(kt, it[1]) for it in cont if it[0] == "kv"}
        fixed = {info[1] for _, info in children if info[0] == "key" and info[1] != "+"}
        for _, info in children:
            if info[0] != "key" or not (isinstance(info[6], list) and len(info[6]) > 1):
                continue      # (no default, or an empty set of defaults)
            if info[1] == "+":
                if not (given - fixed):
                    out.append("arbitrary-multikey" if info[3] else "arbitrary-key")
            elif info[1] not in given:
                out.append("multikey" if info[3] else "key")
    return out


def _leave_to_defaults(rng, elab, items, p=0.85):
    """removes (in place), in a share p of the sections of an item tree (and of the top level), every key line of a key that
    need not be given: what the section then holds under those keys is what the schema says it holds by default"""
    for cont, tyname in cfggen._containers(items, None, []):
        children, kt = cfggen._children_of(elab, tyname)
        if children is None or rng.random() >= p:
            continue
        req = {info[1] for _, info in children if info[0] == "key" and info[4]}
        fixed = {info[1] for _, info in children if info[0] == "key" and info[1] != "+"}

        def needed(it):
            k = cfggen._norm(kt, it[1])
            return (k if k in fixed else "+") in req
        cont[:] = [it for it in cont if it[0] != "kv" or needed(it)]


def _defaults_again(ctx, cases):
    """the defaults belong to the SCHEMA and every section value that needs them gets its own converted copy - however often
    they were needed before.  Per schema of the main stream that declares defaults: one fresh schema object serves a text whose
    sections leave their defaulted keys out (multisections: several such sections in the one text), the same text once more,
    and a second such text; on every other schema the application changes each result's lists and mappings in place before the
    next load.  ORACLE: `denote` for every load whose text conforms (accept / reject itself is C01's observable; an exception
    that is no configuration error is no rejection)."""
    rng = ctx.rng
    sds, seen = [], set()
    for c in cases:
        if id(c.sd) in seen:
            continue
        seen.add(id(c.sd))
        if any(info[0] == "key" and isinstance(info[6], list) and len(info[6]) > 1
               for ch in [c.elab[2][4]] + [te[1][4] for _, te in c.elab[1] if te[0] == "concrete"] for _, info in ch):
            sds.append((c.sd, c.elab))
    if not ctx.thorough():
        sds = sds[:60]
    plans, reqs = [], []
    for n, (sd, elab) in enumerate(sds):
        texts = []
        for _ in range(2):
            for _ in range(6):
                items = cfggen.gen_items(rng, elab, None, 3, pfill=0.9)
                _leave_to_defaults(rng, elab, items)
                fb = _fallbacks(elab, items)
                if fb:
                    break
            texts.append((cfggen.render_lines(rng, items), fb))
        seq = [texts[0], texts[0], texts[1]]
        plans.append((sd, elab, seq, bool(n % 2)))
        reqs.extend(cfgrun.spec_load_request(elab, ls, cfgstream.URL, env=cfgstream.ENV) for ls, _ in seq)
    specs = core.driver_batch(reqs, chunk=5000) if (ctx.driver_ok and reqs) else []
    for n, (sd, elab, seq, scribble) in enumerate(plans):
        if not specs:
            break
        exp = [specs[3 * n + j][1] if specs[3 * n + j][0] == "accept" else None for j in range(len(seq))]
        res = _load_history(sd, [ls for ls, _ in seq], scribble, exp)
        for j, ((lines, fb), (out, impl, good)) in enumerate(zip(seq, res)):
            sp = specs[3 * n + j]
            ctx.evaluations += 1
            ctx.count("defaults-again:" + ("spec-" + str(sp[0]) if sp[0] != "accept" else "load-%d" % (j + 1)) + (":results-changed-in-place" if scribble and j else ""))
            if sp[0] != "accept" or out[0] == "cfg":
                continue
            for k in fb:
                ctx.count("defaults-again:left-to-default:" + k + (":again" if j else ""))
            if good:
                if fb:
                    ctx.nontriv(("defaults-again", id(sd), j, tuple(lines)))
                continue
            # the shortest history after which this load still goes wrong (none: the text alone on a fresh schema object)
            from .. import util

            def wrong(hist):
                return not _load_history(sd, list(hist) + [lines], scribble, [None] * len(hist) + [sp[1]])[-1][2]
            hist = [ls for ls, _ in seq[:j]]
            if wrong(hist):
                hist = [] if wrong([]) else util.shrink_seq(hist, lambda cands: [wrong(h) for h in cands])
            ctx.violate("a text whose sections leave keys to the schema defaults does not yield the value tree the schema defines"
                        + (" - on a schema object that needed the defaults before" if hist else ""),
                        {"schema_xml": F.render_xml(sd), "lines": lines, "history": hist, "left_to_default": fb,
                         "results_changed_in_place_between_loads": bool(scribble and hist), "url": cfgstream.URL,
                         "impl": impl, "expected": sp[1]}, signature="C02:value-tree")
            break


# attribute names an application may well give and a value object may well use for fields of its own
FIELD_NAMES = ["_name", "_matcher", "_attributes", "_type", "_value", "_values", "_keys", "_info", "_schema", "_Name", "_name_",
               "__name", "name", "matcher", "attributes", "type"]
ITEM_KINDS = ["key", "multikey", "section", "multisection"]


def _field_schema(kind, nm):
    def item(keyname):
        if kind == "key":
            return F.KeyD(keyname, "string", False, False, "dflt", nm)
        if kind == "multikey":
            return F.KeyD(keyname, "string", True, False, ["d1", "d2"], nm)
        return F.SectD("inner", "*", kind == "multisection", False, nm)
    inner = F.TypeD("inner", [F.KeyD("v", "integer", False, False, "1")])
    pt = F.TypeD("pt", [F.KeyD("size", "integer", False, False, "4"), item("label")])
    return F.SchemaD([F.KeyD("title", "string", False, False, "untitled"), item("label"),
                      F.SectD("pt", "+", True, False, "pts")], [inner, pt])


def _field_texts(kind):
    if kind in ("key", "multikey"):
        given = ["label Top"] + (["label Top2"] if kind == "multikey" else [])
        return [given + ["<pt A>", "  size 5"] + ["  " + l for l in given] + ["</pt>", "<pt b/>"], ["title t", "<pt A/>"]]
    one = ["<inner Foo>", "  v 3", "</inner>"] + (["<inner/>"] if kind == "multisection" else [])
    return [one + ["<pt A>"] + ["  " + l for l in one] + ["</pt>", "<pt b/>"], ["title t", "<pt A/>"]]


def _match_but(m, v, nm):
    """the value tree is the expected one everywhere except (possibly) in what the attribute nm holds"""
    if m != "none" and m[0] == "list":
        return isinstance(v, list) and len(v) == len(m) - 1 and all(_match_but(a, b, nm) for a, b in zip(m[1:], v))
    if m != "none" and m[0] == "sect":
        if not hasattr(v, "getSectionAttributes"):
            return False
        if (v.getSectionType() or "") != m[1] or v.getSectionName() != (None if m[2] == "none" else m[2]):
            return False
        if list(v.getSectionAttributes()) != [a for a, _ in m[3]]:
            return False
        return all(a == nm or _match_but(x, getattr(v, a), nm) for a, x in m[3])
    return cfgrun.match_val(m, v)


def _own_field_names(ctx):
    """the attributes a type declares are the schema's to name: a key, multikey, section or multisection whose GIVEN attribute
    name is one a value object might use for a field of its own ('_name', '_type', '_attributes', 'name', ...) is exposed like
    any other - listed, holding the declared value - in the schema's own value and in nested ones, given in the text or
    defaulted.  Same oracle as the main stream (`denote`, and the loader model).  A schema the schema loader refuses is outside
    the quantifier (counted)."""
    cases = []
    for nm in FIELD_NAMES:
        for kind in ITEM_KINDS:
            sd = _field_schema(kind, nm)
            try:
                real = F.load_real(sd)
            except Exception as e:
                ctx.count("field-named-attribute:schema-refused:" + type(e).__name__)
                continue
            elab = F.elaborate(sd)
            cfgstream.check_digest(ctx, sd, real, elab)
            for lines in _field_texts(kind):
                c = cfgstream.Case()
                c.sd, c.real, c.elab, c.hnames = sd, real, elab, []
                c.lines, c.meta = lines, {"attribute": nm, "kind": kind}
                cases.append(c)
    cfgstream.evaluate(ctx, cases, with_spec=True)
    for c in cases:
        nm, kind = c.meta["attribute"], c.meta["kind"]
        ctx.count("field-named-attribute:" + kind)
        expected = c.spec[1] if (c.spec is not None and c.spec[0] == "accept") else c.model[1] if (c.model and c.model[0] == "ok") else None
        if expected is None:
            ctx.disagree("field-named-attribute", c.replay(), c.out, [c.spec, c.model])      # these texts conform
            continue
        try:
            good = c.out[0] == "ok" and cfgrun.match_val(expected, c.cfg)
            only_there = not good and c.out[0] == "ok" and _match_but(expected, c.cfg, nm)
        except Exception as e:      # the value object cannot even be inspected
            good, only_there = False, False
            ctx.count("field-named-attribute:inspection-raised:" + type(e).__name__)
        if good:
            ctx.nontriv(("field-named-attribute", nm, kind, tuple(c.lines)))
            continue
        # (known finding C02-own-field-names: tight class = the three names the pinned SectionValue keeps its own state under,
        #  everything exposed as declared except the value found under that name)
        known = only_there and re.match(r"_(name|matcher|attributes)\Z", nm)
        try:
            impl = cfgrun.describe(c.cfg) if c.out[0] == "ok" else c.out
        except Exception as e:
            impl = "describe raised " + type(e).__name__
        ctx.violate("a %s given the attribute name %r: the section value does not expose it as declared (listed, holding the declared value)" % (kind, nm),
                    dict(c.replay(), attribute=nm, item=kind, impl=impl, expected=expected),
                    signature="C02:own-field-name:declared-value-replaced" if known else "C02:value-tree")


def _prefixed_datatypes(ctx):
    """the value tree goes through the datatypes the schema NAMES: relative dotted names ('.server') are names under the nearest
    enclosing prefix - a section type's own prefix for its own datatype, key type and keys; compared with the same schema written
    with absolute names (the scenario of C11's prefix clause, observed here on the values)"""
    import os
    import shutil
    import sys
    import tempfile
    from . import c11
    root = tempfile.mkdtemp(prefix="zcv-c02p-", dir="/dev/shm" if os.path.isdir("/dev/shm") else None)
    sys.path.insert(0, root)
    stem = "zcvc02p%d" % os.getpid()
    try:
        c11.make_dt_packages(root, stem)
        c11._prefixes(ctx, ctx.rng, stem)
    finally:
        sys.path.remove(root)
        for m in list(sys.modules):
            if m.startswith(stem):
                del sys.modules[m]
        shutil.rmtree(root, ignore_errors=True)
