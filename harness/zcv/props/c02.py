"""C02 — an accepted configuration yields exactly the typed value tree the schema defines"""
from .. import cfggen, cfgrun, cfgstream, core

RULE = ("same schema family restricted to datatypes with a reference conversion in the model; mostly valid texts "
        "(0..1 faults), keys whose datatype converts the empty string also given WITH the empty value (alone on their line "
        "or through a reference to an empty definition); the whole value tree is compared attribute by attribute (names, order, values, types, section "
        "names and types); non-trivial = accepted with at least one key or section; distinct by (schema, text)")


def run(ctx):
    obligations, discharged, names = core.standard_prelude(ctx, ["ZCV.Props.C02"])
    n_s, n_t = (1500, 50) if ctx.thorough() else (120, 25)
    cases = cfgstream.gen_cases(ctx, n_s, n_t, nfaults=(0, 0, 0, 1), pempty=0.15)
    cfgstream.evaluate(ctx, cases, with_spec=True)
    bad = []
    bad_spec = []
    for c in cases:
        ctx.count("impl:" + c.out[0])
        if c.out[0] != "ok" or c.model is None:
            continue
        if c.lines:
            ctx.nontriv((id(c.sd), tuple(c.lines)))
        for k in set(cfggen.empty_given(c.elab, c.meta["items"])):
            ctx.count("accepted-with-empty-value:" + k)      # a key that is present holds the conversion of '', not its default
        # ORACLE: the declarative `denote` of ZCV/Spec/Conforms.lean
        if _off_spec(c):
            bad_spec.append(c)
            continue
        if c.model[0] != "ok":
            continue      # accept/reject is C01's observable
        if not cfgrun.match_val(c.model[1], c.cfg):
            bad.append(c)
            ctx.disagree("value", c.replay(), cfgrun.describe(c.cfg), c.model[1])
    for c in bad_spec[:3]:
        # (the replay names the smallest text found on which the loader's tree still differs from `denote`)
        c.lines = cfgstream.shrink_lines(ctx, c, lambda cs: [_off_spec(x) for x in cs], with_spec=True)
        cfgstream.evaluate(ctx, [c], with_spec=True)
    for c in bad_spec:
        if _off_spec(c):
            ctx.violate("accepted text yields a value tree different from the one the schema defines (denote)",
                        dict(c.replay(), impl=cfgrun.describe(c.cfg), expected=c.spec[1]), signature="C02:value-tree")
    for c in bad[:3]:
        small = cfgstream.shrink_lines(ctx, c, lambda cs: [x.out[0] == "ok" and x.model[0] == "ok" and not cfgrun.match_val(x.model[1], x.cfg) for x in cs])
        c.lines = small
        cfgstream.evaluate(ctx, [c])
    for c in bad:
        ctx.violate("accepted text yields a value tree different from the one the schema defines",
                    dict(c.replay(), impl=cfgrun.describe(c.cfg), expected=c.model[1]), signature="C02:value-tree")
    if cases:
        ok = [c for c in cases if c.out[0] == "ok"]
        for c in ok[:2]:
            ctx.sample({"lines": c.lines, "value": cfgrun.describe(c.cfg)})
    _prefixed_datatypes(ctx)
    return core.finish(ctx, obligations, discharged, names, RULE,
                       "lake build ZCV.Props.C02 && lake env lean ZCV/Audit/C02.lean",
                       ["float values compared as float(literal) == value", "schema object = expected elaboration (digest checked per schema)"])


def _off_spec(c):
    """accepted by the loader and by `conforms`, with a value tree that is not `denote`'s"""
    return (c.out[0] == "ok" and c.spec is not None and c.spec[0] == "accept" and not cfgrun.match_val(c.spec[1], c.cfg))


def _prefixed_datatypes(ctx):
    """the value tree goes through the datatypes the schema NAMES: relative dotted names ('.server') are names under the nearest
    enclosing prefix - a section type's own prefix for its own datatype, key type and keys; compared with the same schema written
    with absolute names (the scenario of C11's prefix clause, observed here on the values)"""
    import os
    import shutil
    import sys
    import tempfile
    from . import c11
    root = tempfile.mkdtemp(prefix="zcv-c02p-", dir="/dev/shm" if os.path.isdir("/dev/shm") else None)
    sys.path.insert(0, root)
    stem = "zcvc02p%d" % os.getpid()
    try:
        c11.make_dt_packages(root, stem)
        c11._prefixes(ctx, ctx.rng, stem)
    finally:
        sys.path.remove(root)
        for m in list(sys.modules):
            if m.startswith(stem):
                del sys.modules[m]
        shutil.rmtree(root, ignore_errors=True)
