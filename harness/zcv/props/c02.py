"""C02 — an accepted configuration yields exactly the typed value tree the schema defines"""
import re

from .. import cfggen, cfgrun, cfgstream, core, schemafam as F

RULE = ("same schema family restricted to datatypes with a reference conversion in the model; mostly valid texts "
        "(0..1 faults), keys whose datatype converts the empty string also given WITH the empty value (alone on their line "
        "or through a reference to an empty definition); attribute names GIVEN by the schema respelled as arbitrary identifiers (leading / "
        "trailing underscores, upper and mixed case) and given to fixed-name items that state none; a directed stream of schemas "
        "whose keys, multikeys, sections and multisections are given attribute names a value object might use for its own fields "
        "('_name', '_type', '_attributes', ...); the whole value tree is compared attribute by attribute (names, order, values, types, section "
        "names and types); non-trivial = accepted with at least one key or section; distinct by (schema, text)")


def run(ctx):
    obligations, discharged, names = core.standard_prelude(ctx, ["ZCV.Props.C02"])
    n_s, n_t = (1500, 50) if ctx.thorough() else (120, 25)
    cases = cfgstream.gen_cases(ctx, n_s, n_t, nfaults=(0, 0, 0, 1), pempty=0.15, schema_hook=cfggen.respell_attributes)
    cfgstream.evaluate(ctx, cases, with_spec=True)
    seen = set()
    for c in cases:
        if id(c.sd) not in seen:
            seen.add(id(c.sd))
            for k in {_spelling(a) for a in cfggen.given_attributes(c.elab)}:
                ctx.count("schema-with-attribute-name:" + k)
    bad = []
    bad_spec = []
    for c in cases:
        ctx.count("impl:" + c.out[0])
        if c.out[0] != "ok" or c.model is None:
            continue
        if c.lines:
            ctx.nontriv((id(c.sd), tuple(c.lines)))
        for k in set(cfggen.empty_given(c.elab, c.meta["items"])):
            ctx.count("accepted-with-empty-value:" + k)      # a key that is present holds the conversion of '', not its default
        # ORACLE: the declarative `denote` of ZCV/Spec/Conforms.lean
        if _off_spec(c):
            bad_spec.append(c)
            continue
        if c.model[0] != "ok":
            continue      # accept/reject is C01's observable
        for k in {_spelling(a) for a in _listed(c.model[1])}:
            ctx.count("accepted-value-tree-with-attribute-name:" + k)
        if not cfgrun.match_val(c.model[1], c.cfg):
            bad.append(c)
            ctx.disagree("value", c.replay(), cfgrun.describe(c.cfg), c.model[1])
    for c in bad_spec[:3]:
        # (the replay names the smallest text found on which the loader's tree still differs from `denote`)
        c.lines = cfgstream.shrink_lines(ctx, c, lambda cs: [_off_spec(x) for x in cs], with_spec=True)
        cfgstream.evaluate(ctx, [c], with_spec=True)
    for c in bad_spec:
        if _off_spec(c):
            ctx.violate("accepted text yields a value tree different from the one the schema defines (denote)",
                        dict(c.replay(), impl=cfgrun.describe(c.cfg), expected=c.spec[1]), signature="C02:value-tree")
    for c in bad[:3]:
        small = cfgstream.shrink_lines(ctx, c, lambda cs: [x.out[0] == "ok" and x.model[0] == "ok" and not cfgrun.match_val(x.model[1], x.cfg) for x in cs])
        c.lines = small
        cfgstream.evaluate(ctx, [c])
    for c in bad:
        ctx.violate("accepted text yields a value tree different from the one the schema defines",
                    dict(c.replay(), impl=cfgrun.describe(c.cfg), expected=c.model[1]), signature="C02:value-tree")
    if cases:
        ok = [c for c in cases if c.out[0] == "ok"]
        for c in ok[:2]:
            ctx.sample({"lines": c.lines, "value": cfgrun.describe(c.cfg)})
    _own_field_names(ctx)
    _prefixed_datatypes(ctx)
    return core.finish(ctx, obligations, discharged, names, RULE,
                       "lake build ZCV.Props.C02 && lake env lean ZCV/Audit/C02.lean",
                       ["float values compared as float(literal) == value", "schema object = expected elaboration (digest checked per schema)"])


def _off_spec(c):
    """accepted by the loader and by `conforms`, with a value tree that is not `denote`'s"""
    return (c.out[0] == "ok" and c.spec is not None and c.spec[0] == "accept" and not cfgrun.match_val(c.spec[1], c.cfg))


def _spelling(a):
    """the way an attribute name is written, for the evidence"""
    if a.startswith("_"):
        return "underscore-first"
    if a.endswith("_"):
        return "underscore-last"
    return "lower-case" if a == a.lower() else "upper-or-mixed-case"


def _listed(m):
    """the attribute names the section values of an expected value tree list (all levels)"""
    if isinstance(m, list) and m:
        if m[0] == "sect":
            for a, x in m[3]:
                yield a
                yield from _listed(x)
        elif m[0] in ("list", "wrap", "tup"):
            for x in m[1:]:
                yield from _listed(x)


# attribute names an application may well give and a value object may well use for fields of its own
FIELD_NAMES = ["_name", "_matcher", "_attributes", "_type", "_value", "_values", "_keys", "_info", "_schema", "_Name", "_name_",
               "__name", "name", "matcher", "attributes", "type"]
ITEM_KINDS = ["key", "multikey", "section", "multisection"]


def _field_schema(kind, nm):
    def item(keyname):
        if kind == "key":
            return F.KeyD(keyname, "string", False, False, "dflt", nm)
        if kind == "multikey":
            return F.KeyD(keyname, "string", True, False, ["d1", "d2"], nm)
        return F.SectD("inner", "*", kind == "multisection", False, nm)
    inner = F.TypeD("inner", [F.KeyD("v", "integer", False, False, "1")])
    pt = F.TypeD("pt", [F.KeyD("size", "integer", False, False, "4"), item("label")])
    return F.SchemaD([F.KeyD("title", "string", False, False, "untitled"), item("label"),
                      F.SectD("pt", "+", True, False, "pts")], [inner, pt])


def _field_texts(kind):
    if kind in ("key", "multikey"):
        given = ["label Top"] + (["label Top2"] if kind == "multikey" else [])
        return [given + ["<pt A>", "  size 5"] + ["  " + l for l in given] + ["</pt>", "<pt b/>"], ["title t", "<pt A/>"]]
    one = ["<inner Foo>", "  v 3", "</inner>"] + (["<inner/>"] if kind == "multisection" else [])
    return [one + ["<pt A>"] + ["  " + l for l in one] + ["</pt>", "<pt b/>"], ["title t", "<pt A/>"]]


def _match_but(m, v, nm):
    """the value tree is the expected one everywhere except (possibly) in what the attribute nm holds"""
    if m != "none" and m[0] == "list":
        return isinstance(v, list) and len(v) == len(m) - 1 and all(_match_but(a, b, nm) for a, b in zip(m[1:], v))
    if m != "none" and m[0] == "sect":
        if not hasattr(v, "getSectionAttributes"):
            return False
        if (v.getSectionType() or "") != m[1] or v.getSectionName() != (None if m[2] == "none" else m[2]):
            return False
        if list(v.getSectionAttributes()) != [a for a, _ in m[3]]:
            return False
        return all(a == nm or _match_but(x, getattr(v, a), nm) for a, x in m[3])
    return cfgrun.match_val(m, v)


def _own_field_names(ctx):
    """the attributes a type declares are the schema's to name: a key, multikey, section or multisection whose GIVEN attribute
    name is one a value object might use for a field of its own ('_name', '_type', '_attributes', 'name', ...) is exposed like
    any other - listed, holding the declared value - in the schema's own value and in nested ones, given in the text or
    defaulted.  Same oracle as the main stream (`denote`, and the loader model).  A schema the schema loader refuses is outside
    the quantifier (counted)."""
    cases = []
    for nm in FIELD_NAMES:
        for kind in ITEM_KINDS:
            sd = _field_schema(kind, nm)
            try:
                real = F.load_real(sd)
            except Exception as e:
                ctx.count("field-named-attribute:schema-refused:" + type(e).__name__)
                continue
            elab = F.elaborate(sd)
            cfgstream.check_digest(ctx, sd, real, elab)
            for lines in _field_texts(kind):
                c = cfgstream.Case()
                c.sd, c.real, c.elab, c.hnames = sd, real, elab, []
                c.lines, c.meta = lines, {"attribute": nm, "kind": kind}
                cases.append(c)
    cfgstream.evaluate(ctx, cases, with_spec=True)
    for c in cases:
        nm, kind = c.meta["attribute"], c.meta["kind"]
        ctx.count("field-named-attribute:" + kind)
        expected = c.spec[1] if (c.spec is not None and c.spec[0] == "accept") else c.model[1] if (c.model and c.model[0] == "ok") else None
        if expected is None:
            ctx.disagree("field-named-attribute", c.replay(), c.out, [c.spec, c.model])      # these texts conform
            continue
        try:
            good = c.out[0] == "ok" and cfgrun.match_val(expected, c.cfg)
            only_there = not good and c.out[0] == "ok" and _match_but(expected, c.cfg, nm)
        except Exception as e:      # the value object cannot even be inspected
            good, only_there = False, False
            ctx.count("field-named-attribute:inspection-raised:" + type(e).__name__)
        if good:
            ctx.nontriv(("field-named-attribute", nm, kind, tuple(c.lines)))
            continue
        # (known finding C02-own-field-names: tight class = the three names the pinned SectionValue keeps its own state under,
        #  everything exposed as declared except the value found under that name)
        known = only_there and re.match(r"_(name|matcher|attributes)\Z", nm)
        try:
            impl = cfgrun.describe(c.cfg) if c.out[0] == "ok" else c.out
        except Exception as e:
            impl = "describe raised " + type(e).__name__
        ctx.violate("a %s given the attribute name %r: the section value does not expose it as declared (listed, holding the declared value)" % (kind, nm),
                    dict(c.replay(), attribute=nm, item=kind, impl=impl, expected=expected),
                    signature="C02:own-field-name:declared-value-replaced" if known else "C02:value-tree")


def _prefixed_datatypes(ctx):
    """the value tree goes through the datatypes the schema NAMES: relative dotted names ('.server') are names under the nearest
    enclosing prefix - a section type's own prefix for its own datatype, key type and keys; compared with the same schema written
    with absolute names (the scenario of C11's prefix clause, observed here on the values)"""
    import os
    import shutil
    import sys
    import tempfile
    from . import c11
    root = tempfile.mkdtemp(prefix="zcv-c02p-", dir="/dev/shm" if os.path.isdir("/dev/shm") else None)
    sys.path.insert(0, root)
    stem = "zcvc02p%d" % os.getpid()
    try:
        c11.make_dt_packages(root, stem)
        c11._prefixes(ctx, ctx.rng, stem)
    finally:
        sys.path.remove(root)
        for m in list(sys.modules):
            if m.startswith(stem):
                del sys.modules[m]
        shutil.rmtree(root, ignore_errors=True)
