"""C20 — logger sections produce exactly the configured logging setup, once"""
import gc
import io
import itertools
import logging
import os
import shutil
import tempfile

from .. import core
from ..sexp import Atom

RULE = ("every level spelling (all documented names in three letter cases) and integers -2..52 against the model and the "
        "documented table; logger / eventlog sections with 0..3 logfile handlers over {STDOUT, STDERR, temp file} x {plain, "
        "size rotation, timed rotation, inconsistent rotation options} x delay x encoding: acceptance against the model of "
        "FileHandlerFactory, the produced logger (name, level, propagate, handlers in order, handler levels, formatter output) "
        "and idempotence of the factory; format strings enumerated over field names x conversion types x escapes for the four "
        "styles with and without arbitrary-fields: accepted at load => the factory builds the formatter and an ordinary record "
        "formats without raising, also when the same style and format occurs in several handler sections of the process with "
        "arbitrary-fields on in some and off in others (successive loads, handlers of one logger, loggers of one configuration; "
        "every order with an 'off' section after an 'on' section); sequences of up to 6 operations {call factory, reopen, close all, drop handler reference} "
        "against the registry model, the handlers created with and without delay and records emitted in between (a delayed "
        "handler opens its file at its first record); configured logfile sections {plain, size, timed rotation} x delay x "
        "encoding through their factories: records, files moved away, reopenFiles(), records, closeFiles() - every live handler "
        "writes to a fresh file afterwards resp. has no open stream, closed / dropped handlers are left alone. "
        "non-trivial = a section with a handler or a format; distinct by configuration text")

SCHEMA = """<schema>
 <import package='ZConfig.components.logger'/>
 <multisection type='logger' name='*' attribute='loggers'/>
 <section type='eventlog' name='*' attribute='eventlog'/>
</schema>"""

LEVELS = ["critical", "fatal", "error", "warn", "warning", "info", "blather", "debug", "trace", "all", "notset"]
DOC = {"critical": 50, "fatal": 50, "error": 40, "warn": 30, "warning": 30, "info": 20, "blather": 15, "debug": 10, "trace": 5, "all": 1, "notset": 0}
FIELDS = ["name", "levelno", "levelname", "pathname", "filename", "module", "lineno", "created", "asctime", "msecs",
          "relativeCreated", "thread", "message", "process", "funcName"]


def load(text):
    import ZConfig
    schema = load.schema
    try:
        cfg, _ = ZConfig.loadConfigFile(schema, io.StringIO(text))
        return ["ok", cfg]
    except ZConfig.ConfigurationError as e:
        return ["cfg", type(e).__name__, str(e)[:120]]
    except Exception as e:
        return ["exc", type(e).__name__, str(e)[:120]]


def reset_logging(names):
    for n in names:
        lg = logging.getLogger(n) if n else logging.getLogger()
        for h in list(lg.handlers):
            lg.removeHandler(h)
            try:
                h.close()
            except Exception:
                pass
        lg.setLevel(logging.NOTSET if n else logging.WARNING)
        lg.propagate = True


def record(msg="hello %s", args=("w",)):
    return logging.LogRecord("zcv.test", logging.INFO, __file__, 12, msg, args, None, func="fn")


def _more_records():
    import sys
    out = [record("", ()), record("x", ())]
    try:
        raise RuntimeError("boom")
    except RuntimeError:
        er = logging.LogRecord("zcv.test", logging.ERROR, __file__, 7, "failed", (), sys.exc_info(), func="fn")
        out += [er, er]       # the second handler that formats it finds exc_text filled in by the first
    r = record("late", ())
    r.relativeCreated = -5.25
    out.append(r)
    return out


def _value_dependent_shape(style, fmt):
    """for the format style: is there a field whose rendering depends on the VALUE of the attribute, not only on its type?"""
    import re
    if style != "format":
        return ""
    if re.search(r"\{[^{}:!]*\[", fmt):
        return ":subscript"
    if re.search(r"\{[^{}:!]*\.", fmt):
        return ":attribute"
    if re.search(r"\{[^{}]*\{", fmt):
        return ":nested-field"
    return ""


def _level_expected(s):
    """the documented verdict for a level spelling: the name table (case-insensitive), integers 0..50; everything else is refused"""
    sl = s.lower()
    if sl in DOC:
        return ["ok", DOC[sl]]
    try:
        v = int(sl)
    except ValueError:
        return ["err", "ValueError"]
    return ["ok", v] if 0 <= v <= 50 else ["err", "ValueError"]


def _configured_levels(ctx, rng, tmp, converted_before=None):
    """level spellings through the configuration, repeatedly: logger / eventlog sections whose own level, resp. whose logfile
    handler's level, is spelled as a documented name (three letter cases), an integer -2..52 or a malformed number; every
    (spelling, position) is loaded several times in this process, the repetitions interleaved with the other spellings (an
    application that configures the same level for several loggers and handlers, or reads its configuration again).  Stated
    directly: EVERY load is accepted iff the spelling is a documented name or an integer 0..50, and the logger / handler built by
    the factory of an accepted section has exactly that number as its level"""
    ints = [str(i) for i in range(-2, 53)]
    names = [f(n) for n in LEVELS for f in (str.lower, str.upper, str.capitalize)]
    odd = ["0x10", "1_0", "+5", "05", "5.0", "\u0661\u0662", "-0", "lvl", "-51", "100", "050", "51.0"]
    if not ctx.thorough():
        edge = ["-2", "-1", "0", "1", "49", "50", "51", "52"]
        ints = edge + rng.sample([i for i in ints if i not in edge], 16)
        names = rng.sample(names, 16)
    spellings = ints + names + odd
    jobs = [(sp, pos) for sp in spellings for pos in ("logger", "handler", "eventlog", "eventlog-handler")]
    if not ctx.thorough():
        jobs = [j for j in jobs if j[1] in ("logger", "handler") or rng.random() < 0.5]
    reps = 3 if ctx.thorough() else 2
    order = [(j, 1) for j in jobs]
    for k in range(2, reps + 2):
        again = list(jobs)
        rng.shuffle(again)
        order += [(j, k) for j in again]
    earlier = {}
    root = logging.getLogger()
    n_i = 0
    for (sp, pos), nth in order:
        n_i += 1
        name = "zcv.c20.cl%d" % n_i
        ev = pos.startswith("eventlog")
        own, hl = (sp, "warn") if pos in ("logger", "eventlog") else ("info", sp)
        lines = ["<eventlog>"] if ev else ["<logger>", "  name " + name]
        lines += ["  level " + own, "  <logfile>", "    path STDOUT", "    level " + hl, "  </logfile>", "</eventlog>" if ev else "</logger>"]
        text = "\n".join(lines) + "\n"
        exp = _level_expected(sp)
        r = load(text)
        ctx.evaluations += 1
        ctx.nontriv(("configured-level", sp, pos, nth))
        ctx.count("configured-level:%s:%s" % ("in-range-or-name" if exp[0] == "ok" else "out-of-range-or-malformed", "accepted" if r[0] == "ok" else "refused"))
        if nth > 1:
            ctx.count("configured-level:repeated-load")
        hist = earlier.setdefault((sp, pos), [])
        by_spelling = earlier.setdefault(sp, [])
        replay = {"text": text, "level_spelling": sp, "position": pos, "load_number_of_this_section_in_this_process": nth,
                  "earlier_verdicts_for_this_section": list(hist), "earlier_loads_with_this_spelling_in_any_position": list(by_spelling),
                  "results_of_logging_level_called_directly_on_this_spelling_earlier_in_this_process": list((converted_before or {}).get(sp, [])),
                  "expected": exp}
        hist.append("accepted" if r[0] == "ok" else "refused")
        by_spelling.append("%s: %s" % (pos, hist[-1]))
        if r[0] != "ok":
            if exp[0] == "ok":
                ctx.violate("%s level %r refused (%s) at load number %d of this section; it is documented to mean %d" % (pos, sp, r[1], nth, exp[1]),
                            replay, signature="C20:valid-rejected")
            continue
        root_before, root_level = len(root.handlers), root.level
        try:
            logger = (r[1].eventlog if ev else r[1].loggers[0])()
            hs = list(logger.handlers)[root_before if ev else 0:]
            got = logger.level if pos in ("logger", "eventlog") else (hs[0].level if hs else None)
        except Exception as e:
            got = "factory raised " + type(e).__name__
            hs = []
        replay["resulting_numeric_level"] = got
        if exp[0] != "ok":
            ctx.violate("%s level %r accepted at load number %d of this section in this process (earlier loads with this spelling: %r; logging_level() "
                        "called directly on it before: %d times), the %s gets level %r; only the documented names and integers 0..50 are levels"
                        % (pos, sp, nth, replay["earlier_loads_with_this_spelling_in_any_position"], len((converted_before or {}).get(sp, [])),
                           "logger" if pos in ("logger", "eventlog") else "handler", got),
                        replay, signature="C20:level:configured-accepted-outside-range")
        elif got != exp[1]:
            ctx.violate("%s level %r gives numeric level %r, documented: %d" % (pos, sp, got, exp[1]), replay, signature="C20:setup:level")
        if ev:
            for h in hs:
                root.removeHandler(h)
                h.close()
            root.setLevel(root_level)
        else:
            reset_logging([name])


def run(ctx):
    import ZConfig
    from ZConfig.components.logger import loghandler
    from ZConfig.components.logger.datatypes import logging_level
    obligations, discharged, names = core.standard_prelude(ctx, ["ZCV.Props.C20"])
    load.schema = ZConfig.loadSchemaFile(io.StringIO(SCHEMA))
    rng = ctx.rng
    tmp = tempfile.mkdtemp(prefix="zcv-c20-", dir="/dev/shm" if os.path.isdir("/dev/shm") else None)
    saved_root = (logging.getLogger().handlers[:], logging.getLogger().level)
    try:
        # ---------------------------------------------------------------- levels
        spell = []
        for n in LEVELS:
            spell += [n, n.upper(), n.capitalize(), n + " ", " " + n, n + "x"]
        spell += [str(i) for i in range(-2, 53)] + ["", "0x10", "1_0", "+5", "05", "5.0", "١٢", "5 0", "-0", "lvl"]
        ans = core.driver_batch([[Atom("loglevel"), s] for s in spell]) if ctx.driver_ok else [None] * len(spell)
        # every spelling is converted several times in this process (an application configures the same level for many
        # loggers and handlers, and reads its configuration again): the first pass in order, a second pass in the same order,
        # further passes shuffled.  The verdict for a spelling is the documented one EVERY time, whatever was converted before
        model_of = dict(zip(spell, ans))
        order = [(s, 1) for s in spell] + [(s, 2) for s in spell]
        for p_ in range(3, 6 if ctx.thorough() else 4):
            again = list(spell)
            rng.shuffle(again)
            order += [(s, p_) for s in again]
        earlier = {}
        for s, nth in order:
            a = model_of[s]
            ctx.evaluations += 1
            ctx.nontriv(("level", s, nth))
            try:
                r = ["ok", logging_level(s)]
            except ValueError:
                r = ["err", "ValueError"]
            except Exception as e:
                r = ["exc", type(e).__name__]
            exp = _level_expected(s)
            if nth > 1:
                ctx.count("level:repeated-conversion")
                if exp[0] == "err":
                    ctx.count("level:repeated-conversion:out-of-range-or-malformed")
            if r != exp:
                ctx.violate("logging_level(%r) = %r at conversion number %d of this spelling in this process (earlier results: %r), documented: %r"
                            % (s, r, nth, earlier.get(s, []), exp),
                            {"value": s, "impl": r, "expected": exp, "conversion_number": nth, "earlier_results_for_this_value": list(earlier.get(s, []))},
                            signature="C20:level:%s%s" % (r[0], "" if nth == 1 else ":repeated"))
            if a is not None:
                m = ["ok", int(a[0][1][1])] if a[0][0] == "ok" else ["err", str(a[0][1])]
                if m != r:
                    ctx.disagree("level", {"value": s, "conversion_number": nth}, r, m)
            earlier.setdefault(s, []).append(r)
        _configured_levels(ctx, rng, tmp, earlier)
        # ---------------------------------------------------------------- logfile option matrix
        paths = ["STDOUT", "STDERR", os.path.join(tmp, "a.log")]
        combos = []
        for path in paths:
            for mx, old, when, iv, delay, enc in itertools.product([0, 1000], [0, 3], [None, "D", "MIDNIGHT"], [0, 2], [False, True], [None, "utf-8"]):
                combos.append((path, mx, old, when, iv, delay, enc))
        if not ctx.thorough():
            combos = rng.sample(combos, 90)
        reqs = [[Atom("filekind"), p, mx, old, when, iv, enc, delay] for p, mx, old, when, iv, delay, enc in combos]
        kinds = core.driver_batch(reqs) if ctx.driver_ok else [None] * len(combos)
        lg_i = 0
        for (path, mx, old, when, iv, delay, enc), mk in zip(combos, kinds):
            lg_i += 1
            name = "zcv.c20.l%d" % lg_i
            lines = ["<logger>", "  name " + name, "  level info", "  propagate no", "  <logfile>", "    path " + path, "    level warn",
                     "    format %(levelname)s|%(message)s"]
            if mx:
                lines.append("    max-size %d" % mx)
            if old:
                lines.append("    old-files %d" % old)
            if when:
                lines.append("    when " + when)
            if iv:
                lines.append("    interval %d" % iv)
            if delay:
                lines.append("    delay yes")
            if enc:
                lines.append("    encoding " + enc)
            lines += ["  </logfile>", "</logger>"]
            text = "\n".join(lines) + "\n"
            r = load(text)
            ctx.evaluations += 1
            ctx.nontriv(text)
            ctx.count("logfile:" + r[0])
            accepted = r[0] == "ok"
            # statement-level expectations
            std = path in ("STDOUT", "STDERR")
            must_refuse = (std and (mx or old or when or delay or enc)) or (not std and (mx or when or iv) and not old)
            if r[0] == "exc":
                ctx.violate("logfile section raised %s: %s" % (r[1], r[2]), {"text": text}, signature="C20:logfile:exc:" + r[1])
                continue
            if must_refuse and accepted:
                ctx.violate("inconsistent logfile options accepted", {"text": text}, signature="C20:logfile:accepted-inconsistent")
            if mk is not None:
                model_ok = mk != "ValueError"
                if model_ok != accepted:
                    ctx.disagree("logfile", text, r[:2], str(mk))
            if not accepted:
                continue
            f = r[1].loggers[0]
            try:
                logger = f()
                again = f()
            except Exception as e:
                ctx.violate("logger factory raised %s for an accepted section" % type(e).__name__, {"text": text}, signature="C20:factory:exc")
                reset_logging([name])
                continue
            hs = list(logger.handlers)
            problems = []
            if logger.name != name:
                problems.append("name %r" % logger.name)
            if logger.level != 20:
                problems.append("level %r" % logger.level)
            if logger.propagate is not False:
                problems.append("propagate %r" % logger.propagate)
            if len(hs) != 1:
                problems.append("%d handlers" % len(hs))
            elif hs[0].level != 30:
                problems.append("handler level %r" % hs[0].level)
            if again is not logger or len(again.handlers) != len(hs):
                problems.append("second call added handlers or returned another logger")
            if hs:
                want = {"stdout": "StreamHandler", "stderr": "StreamHandler", "file": "FileHandler", "rotating": "RotatingFileHandler"}
                mkname = str(mk) if not isinstance(mk, list) else "timed"
                cls = type(hs[0]).__name__
                if mk is not None and want.get(mkname, "TimedRotatingFileHandler") not in cls:
                    problems.append("handler class %s for %s" % (cls, mkname))
                out = hs[0].format(record())
                if out != "INFO|hello w":
                    problems.append("formatted %r" % out)
            if problems:
                ctx.violate("logger built from an accepted section differs from the configuration: " + "; ".join(problems), {"text": text},
                            signature="C20:setup:" + problems[0].split()[0])
            reset_logging([name])
        # ---------------------------------------------------------------- several handlers, eventlog, order
        for n in range(0, 4):
            for _ in range(3 if not ctx.thorough() else 10):
                lg_i += 1
                name = "zcv.c20.m%d" % lg_i
                hl = [rng.choice(["debug", "info", "warn", "error", "17"]) for _ in range(n)]
                tgt = [rng.choice(["STDOUT", "STDERR", os.path.join(tmp, "m%d_%d.log" % (lg_i, i))]) for i in range(n)]
                ev = rng.random() < 0.3
                lines = ["<eventlog>", "  level debug"] if ev else ["<logger>", "  name " + name, "  level 13"]
                for i in range(n):
                    lines += ["  <logfile>", "    path " + tgt[i], "    level " + hl[i], "    format h%d:%%(message)s" % i, "  </logfile>"]
                lines.append("</eventlog>" if ev else "</logger>")
                text = "\n".join(lines) + "\n"
                r = load(text)
                ctx.evaluations += 1
                ctx.nontriv(text)
                if r[0] != "ok":
                    ctx.violate("valid logger section rejected: %r" % (r[1:],), {"text": text}, signature="C20:valid-rejected")
                    continue
                f = r[1].eventlog if ev else r[1].loggers[0]
                root_before = len(logging.getLogger().handlers)
                logger = f()
                logger2 = f()
                hs = list(logger.handlers)[root_before if ev else 0:]
                exp_levels = [logging_level(x) for x in hl]
                ok = (logger is logger2 and (logger is logging.getLogger() if ev else logger.name == name)
                      and logger.level == (10 if ev else 13))
                if n == 0:
                    ok = ok and len(hs) == 1 and isinstance(hs[0], logging.NullHandler)
                else:
                    ok = ok and [h.level for h in hs] == exp_levels and [h.format(record("m", ())) for h in hs] == ["h%d:m" % i for i in range(n)]
                if not ok:
                    ctx.violate("logger with %d handlers: got levels %r formats %r" % (n, [h.level for h in hs], [h.format(record('m', ())) for h in hs]),
                                {"text": text}, signature="C20:setup:handlers")
                for h in hs:
                    logger.removeHandler(h)
                    h.close()
                reset_logging([name])
        # ---------------------------------------------------------------- a handler that cannot be built at first
        # a logger with two file handlers, the second in a directory that does not exist yet: the first factory call fails;
        # after the directory is created the same factory must give one handler per section (no handler twice)
        for k in range(2 if not ctx.thorough() else 6):
            lg_i += 1
            name = "zcv.c20.late%d" % lg_i
            late_dir = os.path.join(tmp, "late%d" % lg_i)
            text = ("<logger>\n name %s\n level info\n <logfile>\n  path %s\n  format a:%%(message)s\n </logfile>\n"
                    " <logfile>\n  path %s\n  format b:%%(message)s\n </logfile>\n</logger>\n") % (
                        name, os.path.join(tmp, "late%d_a.log" % lg_i), os.path.join(late_dir, "b.log"))
            r = load(text)
            ctx.evaluations += 1
            if r[0] != "ok":
                continue
            f = r[1].loggers[0]
            try:
                f()
                first = "ok"
            except Exception as e:
                first = type(e).__name__
            os.makedirs(late_dir, exist_ok=True)
            try:
                logger = f()
                fmts = [getattr(h.formatter, "_fmt", None) for h in logger.handlers]
            except Exception as e:
                fmts = "EXC:" + type(e).__name__
            ctx.nontriv(("late-handler", k))
            if fmts != ["a:%(message)s", "b:%(message)s"]:
                ctx.violate("a logger factory called again after its first call failed (%s) gives handlers %r; one per section expected" % (first, fmts),
                            {"text": text, "first_call": first, "handlers": fmts}, signature="C20:setup:retry-after-failure")
            reset_logging([name])
        # ---------------------------------------------------------------- set-up model (ZCV/Model/LoggerSetup.lean)
        _setup_model(ctx, rng, tmp)
        # ---------------------------------------------------------------- formats
        _formats(ctx, rng, tmp)
        # ---------------------------------------------------------------- registry
        _registry(ctx, rng, tmp, loghandler)
        _factory_reopen(ctx, load, tmp)
        _configured_files(ctx, rng, tmp, loghandler)
    finally:
        loghandler.closeFiles()
        root = logging.getLogger()
        root.handlers[:] = saved_root[0]
        root.setLevel(saved_root[1])
        shutil.rmtree(tmp, ignore_errors=True)
    return core.finish(ctx, obligations, discharged, names, RULE,
                       "lake build ZCV.Props.C20 && lake env lean ZCV/Audit/C20.lean",
                       ["rendering by logging / str.format / string.Template, streams, files and weak-reference timing are outside the model and explored on the real component",
                        "gc.collect() is used to make dropped handlers unreachable"])


def _ordinary_records_format(ctx, h, style, fmt, text, replay, where=""):
    """the statement for a handler section accepted at load time with arbitrary-fields off: ordinary records format without
    raising (an empty message, a short one, one logged with exception information, one created "before" the logging module was
    loaded - relativeCreated negative: the clock was set back), and the template styles render what string.Template gives"""
    try:
        for rec2 in _more_records():
            h.format(rec2)
        rec = record()
        out = h.format(rec)
        if style in ("template", "safe-template"):
            # reference rendering with string.Template semantics over the record's own fields
            import string
            d = dict(rec.__dict__)
            d["message"] = rec.getMessage()
            d["asctime"] = h.formatter.formatTime(rec, h.formatter.datefmt)
            fmt = fmt or "${message}"       # an empty format means the style's default
            try:
                exp = string.Template(fmt.replace("\\n", "\n").replace("\\t", "\t")).safe_substitute(d) if style == "safe-template" \
                    else string.Template(fmt.replace("\\n", "\n").replace("\\t", "\t")).substitute(d)
            except Exception:
                exp = None
            if exp is not None and out != exp:
                ctx.violate("%s format %r%s rendered %r, string.Template gives %r" % (style, fmt, where, out, exp),
                            dict(replay, output=out, expected=exp), signature="C20:format:render:" + style)
    except Exception as e:
        ctx.violate("format %r (%s)%s accepted at load, but formatting an ordinary record raises %s: %s" % (fmt, style, where, type(e).__name__, str(e)[:100]),
                    dict(replay, raised="%s: %s" % (type(e).__name__, str(e)[:200])),
                    signature="C20:format:format-raises:%s:%s%s" % (style, type(e).__name__, _value_dependent_shape(style, fmt)))


def _formats(ctx, rng, tmp):
    convs = ["s", "d", "r", "f", "x", "c", "5.2f", "-10s", "03d", "e", "i", "o", "%"]
    cases = []
    for style in ("classic", "format", "template", "safe-template"):
        for fld in FIELDS + ["nosuchfield", "custom1"]:
            if style == "classic":
                for c in (convs if ctx.thorough() else rng.sample(convs, 5)):
                    cases.append((style, "%%(%s)%s" % (fld, c) if c != "%" else "%%(%s)s 100%%%%" % fld))
            elif style == "format":
                for c in ("", ":>10", "!r", ":d", ":.2f", ":x", "!s:5"):
                    cases.append((style, "{%s%s}" % (fld, c)))
            else:
                for f in ("${%s}", "$%s", "$$%s ${%s}", "${%s", "$%s-$"):
                    cases.append((style, f.replace("%s", fld)))
        cases += [(style, "hello"), (style, ""), (style, "%"), (style, "{"), (style, "$"), (style, "a\\nb\\t%(message)s" if style == "classic" else "a\\nb"),
                  (style, "{}"), (style, "{0}"), (style, "%s"), (style, "%(message)"), (style, "${asctime} x"), (style, "$asctime x"),
                  (style, "%(asctime)s x"), (style, "{asctime} x")]
    if not ctx.thorough():
        must = [c for c in cases if "asctime" in c[1] or c[1] in ("hello", "", "%(thread)c", "%(process)c")]
        rest = [c for c in cases if c not in must]
        cases = must + rng.sample(rest, min(len(rest), 200))
    # the classic style against the model ZCV/Model/LogFormat.lean (CPython's `str % mapping` on the sample record + logging's
    # validation): accepted at load <-> the model accepts, and the class of the exception when the format check itself raises
    classic = sorted({f for st_, f in cases if st_ == "classic"})
    more = []
    for _ in range(3000 if ctx.thorough() else 400):
        fld = rng.choice(FIELDS + ["nosuch", "msg", "args", "threadName"])
        flags = "".join(rng.sample("-+ #0", rng.randint(0, 2)))
        width = rng.choice(["", "", "5", "*", "12"])
        prec = rng.choice(["", "", ".2", ".", ".*"])
        lm = rng.choice(["", "", "l", "h"])
        conv = rng.choice(list("sdrfxXceEgGioua%") + ["", "z"])
        more.append(rng.choice(["", "x ", "%% "]) + "%%(%s)%s%s%s%s%s" % (fld, flags, width, prec, lm, conv) + rng.choice(["", " y", " %(message)s", " %s"]))
    classic += more
    if ctx.driver_ok:
        mans = core.driver_batch([[Atom("logfmt"), f] for f in classic])
        for f, a in zip(classic, mans):
            if "\n" in f or "$" in f:
                continue
            text = "<logger>\n name zcv.c20.lf\n <logfile>\n  path STDOUT\n  format %s\n </logfile>\n</logger>\n" % f
            if f.strip() != f or not f:
                continue        # the configuration parser strips values; an empty format means the default
            r = load(text)
            ctx.evaluations += 1
            got = "accepted" if r[0] == "ok" else "rejected" if r[0] == "cfg" else "raised:" + r[1]
            want = "accepted" if a[0] == "t" else ("rejected" if a[1] == "ValueError" else "raised:" + str(a[1]))
            ctx.count("classic-model:" + got.split(":")[0])
            if got != want:
                ctx.disagree("classic-format", {"format": f}, got, [a[0], str(a[1])])
    # the template and safe-template styles against the model ZCV/Model/LogTemplate.lean (string.Template's scanner, substitute /
    # safe_substitute on the sample record, logging.StringTemplateStyle.validate): accepted at load <-> the model accepts
    tpl = sorted({f for st_, f in cases if st_ in ("template", "safe-template")})
    pieces = ["$$", "$", "${", "}", "{", "_", "a", "Z", "9", "\u017f", "\u212a", "\u00e9", " ", "-", "$ x", "${}", "${ message}", "$message", "${message}",
              "$asctime", "${asctime}", "$levelno", "${levelname}", "$nosuch", "${nosuch}", "$msg", "$args", "${threadName}", "$taskName", "$_", "$9",
              "${9}", "$Message", "$MESSAGE", "\\n", "\\t"] + ["$" + f_ for f_ in FIELDS] + ["${%s}" % f_ for f_ in FIELDS]
    for _ in range(4000 if ctx.thorough() else 500):
        tpl.append("".join(rng.choice(pieces) for _ in range(rng.randint(1, 5))))
    tpl = [f for f in dict.fromkeys(tpl) if f and f.strip() == f and "\n" not in f and not f.startswith(("<", "#", "%"))]
    if ctx.driver_ok:
        mans = core.driver_batch([[Atom("logtpl"), f] for f in tpl])
        for f, a in zip(tpl, mans):
            for k, style in enumerate(("template", "safe-template")):
                text = "<logger>\n name zcv.c20.lt\n <logfile>\n  path STDOUT\n  style %s\n  format %s\n </logfile>\n</logger>\n" % (style, f.replace("$", "$$"))
                r = load(text)
                ctx.evaluations += 1
                got = "accepted" if r[0] == "ok" else "not-accepted"
                want = "accepted" if str(a[k]) == "t" else "not-accepted"
                ctx.count("%s-model:%s" % (style, got if r[0] != "exc" else "raised:" + str(r[1])))
                if got != want:
                    ctx.disagree("template-format", {"format": f, "style": style}, [got] + [str(x) for x in r[:2]][:2], [str(x) for x in a])
    # the format style against the model ZCV/Model/LogStrFormat.lean (string.Formatter.vformat on the sample record, logging's
    # StrFormatStyle.validate): accepted at load <-> the model accepts (the model may abstain: attributes of arbitrary objects,
    # astronomically wide fields)
    sf = sorted({f for st_, f in cases if st_ == "format"})
    sp = ["{message}", "{levelno:>5d}", "{created:.3f}", "{name!r:^10}", "{thread:x}", "{lineno:c}", "{msecs:03.0f}", "{message:{lineno}}", "{}", "{0}",
          "{{", "}}", "{", "}", "{nope}", "{message.upper}", "{message[0]}", "{message[99]}", "{name:=10}", "{levelno:,}", "{levelno:_b}", "{created:%}",
          "{asctime!z}", "{message:s:}", "{levelname:<8}", "{process:d}", "{exc_info:5}", "{thread:c}", "{relativeCreated:+.1e}", "{asctime}", " ", "-", "x",
          "{funcName!s}", "{pathname!a:.10}", "{module:>{lineno}}", "{lineno:#x}", "{levelno:08.3f}", "{name.real}", "{process.real}", "{message:\u017f}"]
    for _ in range(4000 if ctx.thorough() else 500):
        sf.append("".join(rng.choice(sp) for _ in range(rng.randint(1, 4))))
    sf = [f for f in dict.fromkeys(sf) if f and f.strip() == f and "\n" not in f and "$" not in f and not f.startswith(("<", "#", "%"))]
    if ctx.driver_ok:
        mans = core.driver_batch([[Atom("logsfmt"), f] for f in sf])
        for f, a in zip(sf, mans):
            if str(a[1]) == "unmodelled":
                ctx.count("format-model:abstained")
                continue
            text = "<logger>\n name zcv.c20.ls\n <logfile>\n  path STDOUT\n  style format\n  format %s\n </logfile>\n</logger>\n" % f
            r = load(text)
            ctx.evaluations += 1
            got = "accepted" if r[0] == "ok" else "not-accepted"
            want = "accepted" if str(a[0]) == "t" else "not-accepted"
            ctx.count("format-model:%s" % (got if r[0] != "exc" else "raised:" + str(r[1])))
            if got != want:
                ctx.disagree("str-format", {"format": f}, [got] + [str(x) for x in r[:2]][:2], [str(x) for x in a])
    # directed: formats of the format style whose rendering depends on the VALUE of an attribute (a subscript, an attribute of
    # an attribute, a nested field used as a format spec) - see the listed findings
    cases += [("format", "{message[0]}"), ("format", "{levelname} {message[7]}"), ("format", "{exc_text.__bool__} {message}"),
              ("format", "{message:{relativeCreated}}")]
    i = 0
    for style, fmt in cases:
        for arb in (False, True):
            i += 1
            name = "zcv.c20.f%d" % i
            path = os.path.join(tmp, "f%d.log" % i)
            text = "<logger>\n name %s\n <logfile>\n  path %s\n  style %s\n  format %s\n  arbitrary-fields %s\n </logfile>\n</logger>\n" % (
                name, path, style, fmt.replace("$", "$$"), "yes" if arb else "no")
            r = load(text)
            ctx.evaluations += 1
            ctx.nontriv(text)
            ctx.count("format:%s:%s" % (style, r[0]))
            if r[0] == "exc":
                # the format datatype itself raised (KeyError, TypeError …): the section is not accepted; what escapes from a
                # datatype function is C07's carve-out, not a statement of C20
                ctx.count("format-datatype-raised:%s" % r[1])
                continue
            if r[0] != "ok" or arb:
                continue
            # accepted with arbitrary-fields off: the formatter can be built and an ordinary record formats
            try:
                logger = r[1].loggers[0]()
            except Exception as e:
                ctx.violate("format %r (%s) accepted at load, but building the formatter raises %s" % (fmt, style, type(e).__name__),
                            {"text": text, "style": style, "format": fmt}, signature="C20:format:factory-raises:%s:%s" % (style, type(e).__name__))
                reset_logging([name])
                continue
            if logger.handlers:
                _ordinary_records_format(ctx, logger.handlers[0], style, fmt, text, {"text": text, "style": style, "format": fmt})
            reset_logging([name])
    _format_histories(ctx, rng, cases)


def _format_histories(ctx, rng, cases):
    """the same style and format in SEVERAL handler sections of one process, some with arbitrary-fields on and some with it
    off, in every order in which a section with arbitrary-fields off comes after one with it on (the stream above loads every
    format once with arbitrary-fields off and then once with it on): as successive configuration loads, as several logfile
    handlers of one logger section, or as the handlers of several logger sections of one configuration.  The formats are those
    of the stream above plus formats that mix ordinary fields with fields ordinary records do not carry.  The statement is
    the same for every section, whatever was loaded before it: if the configuration is accepted, every handler configured
    with arbitrary-fields off formats ordinary records without raising (and the factory can build it)"""
    extra = []
    for fld in ("request_id", "custom1", "nosuchfield", "user", "Message"):
        extra += [("classic", "%%(levelname)s [%%(%s)s] %%(message)s" % fld), ("classic", "%%(%s)-8s|%%(message)s" % fld),
                  ("format", "{levelname} [{%s}] {message}" % fld), ("format", "{%s!r:>8} {message}" % fld),
                  ("template", "${levelname} [${%s}] ${message}" % fld), ("template", "$%s $message" % fld),
                  ("safe-template", "${levelname} [${%s}] ${message}" % fld)]
    pool = extra + [c for c in cases if c[1] and c[1].strip() == c[1] and "\n" not in c[1] and not c[1].startswith(("<", "#"))]
    if not ctx.thorough():
        nonstd = [c for c in pool[len(extra):] if "nosuchfield" in c[1] or "custom1" in c[1]]
        rest = [c for c in pool[len(extra):] if c not in nonstd]
        pool = extra + rng.sample(nonstd, min(len(nonstd), 80)) + rng.sample(rest, min(len(rest), 80))
    orders = [("on", "off"), ("on", "off", "off"), ("off", "on", "off"), ("on", "on", "off"), ("on", "default"), ("on", "off", "on")]
    layouts = ["loads", "handlers-of-one-logger", "loggers-of-one-configuration"]
    n_i = 0
    for ci, (style, fmt) in enumerate(pool):
        order = orders[ci % len(orders)] if ci < 2 * len(orders) else rng.choice(orders)
        layout = layouts[ci % len(layouts)] if ci < 2 * len(layouts) else rng.choice(layouts)

        def handler(arb):
            return ["  <logfile>", "    path STDOUT", "    style " + style, "    format " + fmt.replace("$", "$$")] + \
                   ([] if arb == "default" else ["    arbitrary-fields " + ("true" if arb == "on" else "false")]) + ["  </logfile>"]
        # the configurations of this history: [(text, [(logger name, [arbitrary-fields setting of each handler])])]
        configs = []
        if layout == "loads":
            for arb in order:
                n_i += 1
                nm = "zcv.c20.fh%d" % n_i
                configs.append(("\n".join(["<logger>", "  name " + nm] + handler(arb) + ["</logger>"]) + "\n", [(nm, [arb])]))
        elif layout == "handlers-of-one-logger":
            n_i += 1
            nm = "zcv.c20.fh%d" % n_i
            configs.append(("\n".join(["<logger>", "  name " + nm] + [l for arb in order for l in handler(arb)] + ["</logger>"]) + "\n", [(nm, list(order))]))
        else:
            lines, lgs = [], []
            for arb in order:
                n_i += 1
                nm = "zcv.c20.fh%d" % n_i
                lines += ["<logger>", "  name " + nm] + handler(arb) + ["</logger>"]
                lgs.append((nm, [arb]))
            configs.append(("\n".join(lines) + "\n", lgs))
        ctx.count("format-history:%s" % layout)
        history = []
        for text, lgs in configs:
            r = load(text)
            ctx.evaluations += 1
            ctx.nontriv(("format-history", text))
            history.append({"text": text, "verdict": "accepted" if r[0] == "ok" else "refused: " + str(r[1])})
            ctx.count("format-history:load:%s" % ("accepted" if r[0] == "ok" else "refused"))
            if r[0] != "ok":
                continue
            replay = {"style": style, "format": fmt, "layout": layout, "arbitrary_fields_of_the_sections_in_order": list(order),
                      "loads_so_far_in_order": [dict(h_) for h_ in history], "text": text}
            for (nm, arbs), fac in zip(lgs, r[1].loggers):
                if all(a == "on" for a in arbs):
                    continue        # nothing is stated about formats with arbitrary-fields on
                try:
                    logger = fac()
                except Exception as e:
                    ctx.violate("format %r (%s) accepted at load, but building the formatter raises %s" % (fmt, style, type(e).__name__),
                                dict(replay, logger=nm), signature="C20:format:factory-raises:%s:%s" % (style, type(e).__name__))
                    reset_logging([nm])
                    continue
                hs = list(logger.handlers)
                if len(hs) != len(arbs):
                    ctx.violate("logger with %d logfile sections got %d handlers" % (len(arbs), len(hs)), dict(replay, logger=nm), signature="C20:setup:handlers")
                else:
                    for j, (a, h) in enumerate(zip(arbs, hs)):
                        if a != "on":
                            ctx.count("format-history:handler-without-arbitrary-fields:formatted")
                            _ordinary_records_format(ctx, h, style, fmt, text, dict(replay, logger=nm, handler_index=j),
                                                     where=" in handler section %d of logger %s (arbitrary-fields %s; the sections with this format in this "
                                                     "process, in order, have arbitrary-fields %s, as %s)" % (j, nm, a, "/".join(order[:max(len(history), len(arbs), len(lgs))]), layout))
                reset_logging([nm])


def _factory_reopen(ctx, load, tmp):
    """LoggerFactoryBase.reopen() walks the logger's handlers: it must act on the file handlers that are still alive - a handler
    that was closed (handler.close(), loghandler.closeFiles()) while still attached to its logger is left alone: its file is not
    created again and it gets no stream"""
    import logging
    from ZConfig.components.logger import loghandler
    a, b = os.path.join(tmp, "ro-a.log"), os.path.join(tmp, "ro-b.log")
    text = "<logger>\n name zcv.c20.ro\n <logfile>\n  path %s\n </logfile>\n <logfile>\n  path %s\n </logfile>\n</logger>\n" % (a, b)
    r = load(text)
    ctx.evaluations += 1
    if r[0] != "ok":
        ctx.notes.append("factory-reopen scenario did not load: %r" % (r[:2],))
        return
    fac = r[1].loggers[0]
    logger = fac()
    try:
        ha, hb = logger.handlers
        logger.warning("one")
        ha.close()                                   # closed, still attached
        for p_ in (a, b):
            if os.path.exists(p_):
                os.rename(p_, p_ + ".1")             # the files are rotated away
        fac.reopen()
        state = {"closed handler has a stream": ha.stream is not None, "closed handler's file re-created": os.path.exists(a),
                 "live handler's file re-created": os.path.exists(b)}
        ctx.nontriv("factory-reopen")
        if state != {"closed handler has a stream": False, "closed handler's file re-created": False, "live handler's file re-created": True}:
            ctx.violate("factory.reopen() after one of two file handlers was closed: %r" % (state,), {"text": text, "state": state},
                        signature="C20:reopen:closed-handler-touched")
        loghandler.closeFiles()
        for p_ in (a, b):
            if os.path.exists(p_):
                os.remove(p_)
        fac.reopen()
        ctx.evaluations += 1
        if os.path.exists(a) or os.path.exists(b) or ha.stream is not None or hb.stream is not None:
            ctx.violate("factory.reopen() after closeFiles() re-opened closed handlers: files %r" % ([os.path.exists(a), os.path.exists(b)],),
                        {"text": text}, signature="C20:reopen:closed-handler-touched")
    finally:
        reset_logging(["zcv.c20.ro"])


def _configured_files(ctx, rng, tmp, loghandler):
    """reopening / closing log files through the configuration: logger sections with 1..3 logfile handlers over {plain, size
    rotation, timed rotation} x delay x encoding; the factory is called, 0..2 records are logged (a handler configured with
    `delay` opens its file at its first record), possibly one handler is taken off its logger and closed or dropped by the
    application, the files are moved away the way an external log rotation does, loghandler.reopenFiles(), 1..2 further records,
    loghandler.closeFiles().  Stated directly on the files and streams (no model): every handler still alive wrote the earlier
    records into the file that was moved away and the later ones into a fresh file at the configured path; the file of a
    closed / dropped handler is not created again; after closeFiles() no handler keeps an open stream, and a further
    reopenFiles() creates no file"""
    variants = [(k, d, e) for k in ("plain", "size", "timed") for d in (False, True) for e in (None, "utf-8")]
    moved_dir = os.path.join(tmp, "moved")
    os.makedirs(moved_dir, exist_ok=True)

    def read(p_):
        if not os.path.exists(p_):
            return ""
        with open(p_, encoding="utf-8") as f_:
            return f_.read()

    ntrials = 80 if ctx.thorough() else 24
    for trial in range(ntrials):
        if trial < 4:
            hs = variants[trial * 3:(trial + 1) * 3]         # every variant at least once per run
            pre, post, away = (1, 1, None) if trial % 2 == 0 else (rng.randint(0, 2), rng.randint(1, 2), None)
        else:
            hs = [rng.choice(variants) for _ in range(rng.randint(1, 3))]
            pre, post = rng.randint(0, 2), rng.randint(1, 2)
            away = rng.choice([None, None, "close", "drop"])
        name = "zcv.c20.cf%d" % trial
        paths = [os.path.join(tmp, "cf%d_%d.log" % (trial, i)) for i in range(len(hs))]
        lines = ["<logger>", "  name " + name, "  level info", "  propagate no"]
        for (kind, delay, enc), p_ in zip(hs, paths):
            lines += ["  <logfile>", "    path " + p_, "    format %(message)s"]
            if kind == "size":
                lines += ["    max-size 100000", "    old-files 2"]
            elif kind == "timed":
                lines += ["    when D", "    interval 3", "    old-files 2"]
            if delay:
                lines.append("    delay true")
            if enc:
                lines.append("    encoding " + enc)
            lines.append("  </logfile>")
        lines.append("</logger>")
        text = "\n".join(lines) + "\n"
        loghandler.closeFiles()
        r = load(text)
        ctx.evaluations += 1
        ctx.nontriv(text)
        if r[0] != "ok":
            ctx.violate("valid logger section rejected: %r" % (r[1:],), {"text": text}, signature="C20:valid-rejected")
            continue
        history = ["factory()"]
        logger = None
        try:
            try:
                logger = r[1].loggers[0]()
            except Exception as e:
                ctx.violate("logger factory raised %s for an accepted section" % type(e).__name__, {"text": text}, signature="C20:factory:exc")
                continue
            if len(logger.handlers) != len(hs):
                ctx.violate("logger with %d logfile sections got %d handlers" % (len(hs), len(logger.handlers)), {"text": text},
                            signature="C20:setup:handlers")
                continue
            for j in range(pre):
                logger.warning("a%d", j)
                history.append("log a%d" % j)
            gone = None
            if away is not None and len(hs) > 1:
                gone = rng.randrange(len(hs))
                h = logger.handlers[gone]
                logger.removeHandler(h)
                if away == "close":
                    h.close()
                else:
                    r = None        # the handler factories of the configuration remember their handlers: let go of them too
                del h
                gc.collect()
                history.append("handler %d removed from the logger and %s" % (gone, "closed" if away == "close" else "dropped"))
            for p_ in paths:
                if os.path.exists(p_):
                    os.rename(p_, os.path.join(moved_dir, os.path.basename(p_)))
            history.append("files moved away")
            loghandler.reopenFiles()
            history.append("reopenFiles()")
            for j in range(post):
                logger.warning("b%d", j)
                history.append("log b%d" % j)
            for h in logger.handlers:
                h.flush()
            before = "".join("a%d\n" % j for j in range(pre))
            after = "".join("b%d\n" % j for j in range(post))
            ctx.count("configured-files:histories")
            ctx.count("configured-files:handlers", len(hs))
            if pre and any(d for _, d, _ in hs):
                ctx.count("configured-files:delayed-handler-opened-before-reopen")
            bad = []
            for i, ((kind, delay, enc), p_) in enumerate(zip(hs, paths)):
                what = "%s%s" % (kind, " delay" if delay else "")
                old, cur = read(os.path.join(moved_dir, os.path.basename(p_))), read(p_)
                if i == gone:
                    if os.path.exists(p_):
                        bad.append(["handler %d (%s) was %s before reopenFiles(), its file was created again" % (i, what, "closed" if away == "close" else "dropped"), cur])
                elif old != before or cur != after:
                    bad.append(["handler %d (%s): the file moved away holds %r (records before: %r), the configured path holds %r (records after reopenFiles(): %r)"
                                % (i, what, old, before, cur, after), [old, cur]])
            if bad:
                ctx.violate("reopenFiles() did not act on exactly the live file handlers of this configuration: " + "; ".join(b[0] for b in bad),
                            {"text": text, "history": list(history), "observed": bad}, signature="C20:files:reopen")
            loghandler.closeFiles()
            history.append("closeFiles()")
            still = [os.path.basename(h.baseFilename) for h in logger.handlers if getattr(h, "stream", None) is not None and not h.stream.closed]
            if still:
                ctx.violate("closeFiles() left %d of the %d live file handlers of this configuration with an open stream (after %r)"
                            % (len(still), len(logger.handlers), history),
                            {"text": text, "history": list(history), "open_handlers": still,
                             "handlers": {os.path.basename(p_): "%s%s" % (k, " delay" if d else "") for (k, d, _), p_ in zip(hs, paths)}}, signature="C20:files:closeall-left-open")
            for p_ in paths:
                if os.path.exists(p_):
                    os.remove(p_)
            loghandler.reopenFiles()
            history.append("files removed; reopenFiles()")
            again = [os.path.basename(p_) for p_ in paths if os.path.exists(p_)]
            if again and not still:
                ctx.violate("reopenFiles() after closeFiles() created %r again: closed handlers were reopened" % (again,),
                            {"text": text, "history": list(history), "files": again}, signature="C20:reopen:closed-handler-touched")
        finally:
            reset_logging([name])
            for p_ in paths:
                for q in (p_, os.path.join(moved_dir, os.path.basename(p_))):
                    if os.path.exists(q):
                        os.remove(q)


def _registry(ctx, rng, tmp, loghandler):
    def counting(base):
        class C(base):
            zcv_n = 0

            def reopen(self):
                self.zcv_n += 1
                return base.reopen(self)
        return C
    classes = {"file": counting(loghandler.FileHandler), "rot": counting(loghandler.RotatingFileHandler),
               "timed": counting(loghandler.TimedRotatingFileHandler)}
    nseq = 400 if ctx.thorough() else 120
    # fixed sequences first: several handlers alive when everything is closed / reopened, with and without one dropped or
    # closed by the application before; handlers created with delay (no stream until the first record) with and without a
    # record emitted before the files are reopened / closed
    directed = [
        ["create:file", "create:file", "create:file", "closeall"],
        ["create:file", "create:file", "create:file", "create:file", "drop", "closeall"],
        ["create:file", "create:file", "close", "create:file", "closeall", "reopen"],
        ["create:file", "create:rot", "create:file", "reopen", "closeall"],
        ["create:file", "create:file", "closeall", "closeall", "create:file", "closeall"],
        ["create:file:delay", "emit:0", "closeall"],
        ["create:file:delay", "closeall", "reopen"],
        ["create:file:delay", "create:file", "emit:0", "emit:1", "reopen", "emit:0", "closeall"],
        ["create:rot:delay", "create:timed:delay", "emit:0", "emit:1", "reopen", "closeall"],
        ["create:file:delay", "create:rot:delay", "reopen", "emit:0", "emit:1", "reopen"],
        ["create:timed:delay", "create:file:delay", "emit:1", "drop", "reopen", "closeall"],
    ]
    observed = []
    for si in range(len(directed) + nseq):
        plan = list(directed[si]) if si < len(directed) else None
        loghandler.closeFiles()
        gc.collect()
        del loghandler._reopenable_handlers[:]
        ops, mops = [], []
        live = {}          # id -> handler (strong reference held by "the application")
        kinds = {}
        delayed = {}
        explicitly_closed = set()
        maybe_closed = set()        # closed by the application or alive at a closeFiles(): no records are sent to these
        emitted = set()             # handlers that got a record since they were created / since the last reopenFiles()
        left_open = None
        created = 0
        for _ in range(len(plan) if plan is not None else rng.randint(2, 6)):
            k = plan.pop(0) if plan is not None else rng.choice(["create", "create", "reopen", "closeall", "drop", "close", "emit", "emit"])
            forced_kind = forced_delay = forced_i = None
            if k.startswith("create:"):
                forced_kind, forced_delay = k.split(":")[1], k.endswith(":delay")
                k = "create"
            elif k.startswith("emit:"):
                k, forced_i = "emit", int(k.split(":")[1])
            if k == "create":
                kind = forced_kind or rng.choice(["file", "rot", "timed"])
                delay = forced_delay if forced_delay is not None else rng.random() < 0.5
                p = os.path.join(tmp, "r%d_%d.log" % (si, created))
                if kind == "file":
                    h = classes[kind](p, delay=delay)
                elif kind == "rot":
                    h = classes[kind](p, maxBytes=1000, backupCount=2, delay=delay)
                else:
                    h = classes[kind](p, when="D", backupCount=2, delay=delay)
                live[created] = h
                kinds[created] = kind
                delayed[created] = delay
                ops.append("create:" + kind + (":delay" if delay else ""))
                mops.append(Atom("create"))
                created += 1
                del h
            elif k == "drop" and live:
                i = rng.choice(sorted(live))
                h = live.pop(i)
                del h
                gc.collect()
                ops.append("drop:%d" % i)
                mops.append([Atom("drop"), i])
            elif k == "close" and live:
                i = rng.choice(sorted(live))
                live[i].close()
                explicitly_closed.add(i)
                maybe_closed.add(i)
                ops.append("close:%d" % i)
                mops.append([Atom("close"), i])
            elif k == "emit":
                # a record reaches a handler the application has not closed: a delayed handler opens its file now.  Neither
                # the registry nor the reopen counts of the model depend on it (no model operation)
                cand = [i for i in sorted(live) if i not in maybe_closed]
                if forced_i is not None:
                    cand = [i for i in cand if i == forced_i]
                if cand:
                    i = rng.choice(cand)
                    live[i].handle(record("e", ()))
                    emitted.add(i)
                    ops.append("emit:%d" % i)
            elif k == "reopen":
                loghandler.reopenFiles()
                emitted.clear()
                ops.append("reopen")
                mops.append(Atom("reopen"))
            elif k == "closeall":
                loghandler.closeFiles()
                ops.append("closeall")
                mops.append(Atom("closeall"))
                maybe_closed.update(live)
                # closing the log files acts on every file handler still alive: none of them keeps an open stream
                still = [i for i, h in sorted(live.items()) if h.stream is not None and not h.stream.closed]
                if still and left_open is None:
                    left_open = (list(ops), still)
        ctx.evaluations += 1
        ctx.nontriv(("registry", tuple(ops)))
        ctx.count("registry:with-delayed-handler" if any(delayed.values()) else "registry:no-delayed-handler")
        if any(delayed.get(int(o.split(":")[1])) for o in ops if o.startswith("emit:")):
            ctx.count("registry:record-to-delayed-handler")
        if left_open is not None:
            ctx.violate("after closeFiles() at the end of %r the live handlers %r (%s) still have an open stream"
                        % (left_open[0], left_open[1], ", ".join(kinds[i] + (" delay" if delayed[i] else "") for i in left_open[1])),
                        {"ops": left_open[0], "open_after_closeFiles": left_open[1]}, signature="C20:registry:closeall-left-open")
        # what the real registry and handlers look like now; compared with the model after the last sequence (one driver call)
        real_reg = sorted(i for i, h in live.items() if any(wr() is h for wr in loghandler._reopenable_handlers))
        unknown = len([wr for wr in loghandler._reopenable_handlers if wr() is not None and all(wr() is not h for h in live.values())])
        state = {i: (h.zcv_n, h.stream is None or h.stream.closed, kinds[i], delayed[i], i in emitted) for i, h in live.items()}
        observed.append((ops, mops, real_reg, unknown, state))
        for h in live.values():
            h.close()
        live.clear()
        gc.collect()
    if ctx.driver_ok:
        answers = core.driver_batch([[Atom("regrun")] + mops for _, mops, _, _, _ in observed])
        for (ops, mops, real_reg, unknown, state), a in zip(observed, answers):
            mreg = sorted(int(x) for x in a[0])
            mh = {int(h[0]): (h[1] == "t", h[2] == "t", int(h[3])) for h in a[1]}
            if real_reg != [i for i in mreg if i in state] or unknown:
                ctx.violate("registry of re-openable handlers after %r holds %r (+%d unknown), expected %r" % (ops, real_reg, unknown, mreg),
                            {"ops": ops}, signature="C20:registry:membership")
                continue
            for i, (n_reopened, is_closed, kind, delay, got_record) in state.items():
                alive, mclosed, mre = mh[i]
                if n_reopened != mre:
                    ctx.violate("handler %d was reopened %d times after %r, expected %d" % (i, n_reopened, ops, mre), {"ops": ops},
                                signature="C20:registry:reopen-count")
                # a delayed handler has a stream only once a record reached it
                exp_closed = mclosed or (delay and not got_record)
                if kind == "file" and mre == 0 and is_closed != exp_closed:
                    ctx.violate("handler %d closed=%r after %r, expected %r" % (i, is_closed, ops, exp_closed), {"ops": ops},
                                signature="C20:registry:closed")


def _setup_model(ctx, rng, tmp):
    """several logger sections (distinct names, the same name twice, the name 'root', an eventlog) with 0..3 handlers each;
    the factories are called in a random order with repetitions; the loggers returned and the final state of every logger
    (level, propagate, handlers by identity / format / level) are compared with the model of factory.Factory and
    logger.LoggerFactoryBase (driver op `logsetup`)"""
    from ..sexp import Atom
    for trial in range(120 if ctx.thorough() else 40):
        nf = rng.randint(1, 4)
        pool = ["zcv.c20.s%d" % rng.randint(0, 2), "zcv.c20.t", "root", "zcv.c20.s0"]
        specs, lines = [], []
        ev_used = False
        for i in range(nf):
            ev = (not ev_used) and rng.random() < 0.3
            ev_used = ev_used or ev
            prev = [sp[1] for sp in specs if sp[1]]
            name = None if ev else (rng.choice(prev) if prev and rng.random() < 0.5 else rng.choice(pool))   # the same logger configured twice
            level = rng.choice([10, 13, 20, 30, 47])
            prop = rng.random() < 0.5
            hs = []
            blk = ["<eventlog>", "  level %d" % level] if ev else ["<logger>", "  name " + name, "  level %d" % level,
                                                                 "  propagate " + ("yes" if prop else "no")]
            for j in range(rng.choice([0, 1, 1, 2, 3])):
                hl = rng.choice([10, 20, 17, 40])
                fmt = "f%d.%d:%%(message)s" % (i, j)
                hs.append([fmt, hl])
                blk += ["  <logfile>", "    path " + rng.choice(["STDOUT", "STDERR", os.path.join(tmp, "sm%d_%d_%d.log" % (trial, i, j))]),
                        "    level %d" % hl, "    format " + fmt, "  </logfile>"]
            blk.append("</eventlog>" if ev else "</logger>")
            specs.append([Atom("eventlog" if ev else "logger"), name, level, prop, hs, ev])
            lines.append((ev, blk))
        # the schema wants the eventlog section first or anywhere: order of sections in the text = order of factories below
        text = "\n".join(l for _, blk in lines for l in blk) + "\n"
        r = load(text)
        ctx.evaluations += 1
        if r[0] != "ok":
            ctx.count("setup-model:not-loaded")
            continue
        cfg = r[1]
        logger_facs = list(cfg.loggers)
        facs = []
        for sp in specs:
            facs.append(cfg.eventlog if sp[5] else logger_facs.pop(0))
        calls = [rng.randrange(nf) for _ in range(rng.randint(1, 6))]
        names = sorted({sp[1] for sp in specs if sp[1]} | {""})
        reset_logging(names)
        saved = logging.getLogger().handlers[:]
        logging.getLogger().handlers[:] = []
        try:
            returned = []
            try:
                for i in calls:
                    returned.append(facs[i]().name)
            except Exception as e:
                ctx.violate("logger factory raised %s" % type(e).__name__, {"text": text, "calls": calls}, signature="C20:factory:exc")
                continue
            ids = {}
            real_world = {}
            for n in names:
                lg = logging.getLogger(n) if n else logging.getLogger()
                hl = []
                for h in lg.handlers:
                    ids.setdefault(id(h), len(ids))
                    isnull = isinstance(h, logging.NullHandler)
                    hl.append([None if isnull else getattr(h.formatter, "_fmt", None), None if isnull else h.level])
                if lg.handlers or lg.level not in (0,) or n == "" or not lg.propagate:
                    real_world[lg.name] = [lg.level, bool(lg.propagate), hl]
            ctx.nontriv(("setup-model", text, tuple(calls)))
            if ctx.driver_ok:
                a = core.driver_batch([[Atom("logsetup"), [sp[:5] for sp in specs], calls]])[0]
                m_ret = list(a[0])
                m_world = {}
                for k, lv, pr, hs in a[1]:
                    m_world[k] = [int(lv), pr == "t", [[None if f == "none" else f, None if l == "none" else int(l)] for _, f, l in hs]]
                # loggers the model never touched are absent from its table; drop untouched real ones the same way
                rw = {k: v for k, v in real_world.items() if k in m_world or v[2] or k != "root"}
                rw = {k: v for k, v in rw.items() if k in m_world or v != [30 if k == "root" else 0, True, []]}
                ctx.count("setup-model:compared")
                if trial == 0:
                    ctx.sample({"setup_calls": calls, "returned": returned, "world": rw})
                if m_ret != returned or m_world != rw:
                    # the model IS the statement here (C20_logger_setup / C20_factory_idempotent are theorems about it): a
                    # difference on this input is the property failing on this input
                    ctx.violate("calling the logger factories %r of this configuration gives loggers %r with state %r; the configured set-up is %r / %r"
                                % (calls, returned, rw, m_ret, m_world),
                                {"text": text, "calls": calls, "real": [returned, rw], "configured": [m_ret, m_world]},
                                signature="C20:setup:differs-from-configured")
        finally:
            for n in names:
                lg = logging.getLogger(n) if n else logging.getLogger()
                for h in list(lg.handlers):
                    lg.removeHandler(h)
                    try:
                        h.close()
                    except Exception:
                        pass
            reset_logging(names)
            logging.getLogger().handlers[:] = saved
