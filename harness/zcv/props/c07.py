"""C07 — user input can only produce configuration errors, never internal exceptions"""
import io
import os
import shutil
import sys
import tempfile

from .. import cfggen, cfgrun, cfgstream, core, ovgen, pkggen, schemafam as F

RULE = ("valid texts of the schema family mutated at character, token and line level (deletion, duplication, "
        "transposition, insertion of every grammar metacharacter); override lists obtained by mutating valid specifiers "
        "(unconvertible values at every depth, unknown keys/sections, malformed specifiers); include graphs over 3 files "
        "including cyclic ones; '%include' arguments by class; '%import' / 'package:' references to every kind of importable "
        "thing (component packages, packages without or with an unreadable component, namespace packages at top level / nested / "
        "inside a regular package, modules, zip-imported packages, packages whose import fails, missing and ill-formed names); "
        "validator.main in-process. A case is a violation when an exception outside the "
        "ZConfig configuration-error family escapes (exceptions raised by the zcvdt datatype functions themselves are "
        "excluded). non-trivial = mutated or overridden or including; distinct by (schema, text, overrides)")

META = list("<>/%#()$=\\ \t{}-:.*+") + ["</", "/>", "${", "$(", "%include ", "%define ", "%import ", "%Include ", "%DEFINE ", "%Import ", "% include ", "%\tdefine ", "\x0c", " ", " "]


def mutate_lines(rng, lines):
    lines = list(lines)
    if not lines:
        return [rng.choice(META)]
    k = rng.random()
    i = rng.randrange(len(lines))
    if k < 0.06:
        lines.insert(i, rng.choice(["%Include x.conf", "%DEFINE v 1", "%Import some.pkg", "% define a b", "%define", "%Define", "%INCLUDE", "%import\tp q"]))
    elif k < 0.15:
        del lines[i]
    elif k < 0.3:
        lines.insert(i, lines[i])
    elif k < 0.4 and len(lines) > 1:
        j = rng.randrange(len(lines))
        lines[i], lines[j] = lines[j], lines[i]
    else:
        l = lines[i]
        toks = l.split(" ")
        m = rng.random()
        if m < 0.25 and l:
            p = rng.randrange(len(l))
            l = l[:p] + l[p + 1:]
        elif m < 0.5:
            p = rng.randint(0, len(l))
            l = l[:p] + rng.choice(META) + l[p:]
        elif m < 0.65 and l:
            p = rng.randrange(len(l))
            l = l[:p] + l[p] + l[p:]
        elif m < 0.8 and len(l) > 1:
            p = rng.randrange(len(l) - 1)
            l = l[:p] + l[p + 1] + l[p] + l[p + 2:]
        elif m < 0.9 and len(toks) > 1:
            t = rng.randrange(len(toks))
            del toks[t]
            l = " ".join(toks)
        else:
            t = rng.randrange(len(toks))
            toks.insert(t, toks[t])
            l = " ".join(toks)
        lines[i] = l
    return lines


def mutate_spec(rng, s):
    if not s:
        return "="
    m = rng.random()
    p = rng.randrange(len(s))
    if m < 0.3:
        return s[:p] + s[p + 1:]
    if m < 0.7:
        return s[:p] + rng.choice(list("=/ $<>%.-1é") + ["//"]) + s[p:]
    if m < 0.85:
        return s[:p] + s[p] + s[p:]
    return s.replace("=", "", 1) if "=" in s else s + "="


def include_graphs(rng, elab):
    """3-file include graphs, some cyclic; returns (lines, files) pairs"""
    out = []
    shapes = [
        ({"a": ["b"], "b": ["c"], "c": []}, False),
        ({"a": ["b", "c"], "b": ["c"], "c": []}, False),
        ({"a": ["b", "b"], "b": [], "c": []}, False),
        ({"a": ["a"], "b": [], "c": []}, True),
        ({"a": ["b"], "b": ["a"], "c": []}, True),
        ({"a": ["b"], "b": ["c"], "c": ["a"]}, True),
        ({"a": ["b"], "b": ["c"], "c": ["b"]}, True),
        ({"a": ["c"], "b": [], "c": ["c"]}, True),
    ]
    for shape, cyclic in shapes:
        files = {}
        for n, incs in shape.items():
            body = cfggen.render_lines(rng, cfggen.gen_items(rng, elab, None, 1, pfill=0.3)) if n == "a" else ["# " + n]
            for t in incs:
                arg = {"a": "main.conf", "b": "b.conf", "c": "sub/c.conf"}[t]
                if n == "c":
                    arg = {"a": "../main.conf", "b": "../b.conf", "c": "c.conf"}[t]
                body.insert(rng.randint(0, len(body)), "%include " + arg)
            files[n] = body
        out.append((files["a"], {"m/b.conf": files["b"], "m/sub/c.conf": files["c"]}, cyclic))
    return out


# %include arguments by class: unknown / malformed schemes, package: references with 0-2 colons naming existing,
# missing and non-package modules, bracketed hosts, percent escapes, fragments, directories, odd paths
INCLUDE_ARGS = ["conf:site.conf", "zope://h/x.conf", "svn+ssh://h/x", "mailto:a@b", "package:foo", "package:",
                "package::", "package:os:x", "package:nosuch9:x", "package:ZConfig:nosuch.xml", "package:.:x",
                "package:ZConfig.nosuch9:component.xml", "http://[x", "http://[::1", "file:///%00", "x%00y", "ftp://",
                "x#frag", "#", "file:", "file://", "//h/x", "\\\\h\\x", "c:x", "C:\\x", "a b", "%41", "?q",
                "nosuch.conf", "sub/", ".", "..", "/", "file:///", "data:,k%20v", "x:", ":x", "1:2",
                "http://[x#y", "[#", "//[x#f", "http://h/p#f", "x#", "a#b#c", "[", "]:", "http://]", "//[", "http://[::1]#", "file://[/x#y",
                # authorities the HTTP client refuses before any connection is made (ports that are not numbers, blanks
                # and control characters in the host), ports out of range, empty hosts: no network is needed for any
                "http://localhost:abc/x", "https://localhost:x/", "http://a b/x", "http://localhost:80:90/x",
                "http://localhost:/x", "http://:80/x", "http://localhost:99999/x", "http://u@localhost:z/x",
                "http://loc\x7falhost/x", "https://[::1]:p/x", "ftp://localhost:abc/x", "http://localhost:1e3/x"]


def include_arg_cases(ctx, base):
    """one %include line with an argument of every class, at top level and inside a section, literal and through a
    %define; evaluated on the real loader only (there is nothing to model: the observable is the exception family)"""
    import ZConfig
    rng = ctx.rng
    root = tempfile.mkdtemp(prefix="zcv-inc-", dir="/dev/shm" if os.path.isdir("/dev/shm") else None)
    try:
        os.makedirs(os.path.join(root, "sub"))
        hosts = [c for c in base if not c.faults][:: max(1, len(base) // 6)][:6] or base[:3]
        for c in hosts:
            for arg in INCLUDE_ARGS:
                for via_define in (False, True):
                    lines = list(c.lines)
                    depth_ok = [i for i in range(len(lines) + 1)]
                    pos = rng.choice(depth_ok)
                    inc = ["%define zcvu " + arg.replace("$", "$$"), "%include $zcvu"] if via_define else ["%include " + arg]
                    lines[pos:pos] = inc
                    p = os.path.join(root, "main.conf")
                    with open(p, "w", encoding="utf-8", newline="") as f:
                        f.write("".join(l + "\n" for l in lines))
                    # by path, and from an open stream that has no URL at all (relative arguments then meet no base)
                    for entry in ("path", "stream-without-url"):
                        if entry == "path":
                            out, _, _ = cfgrun.real_load_path(c.real, p)
                        else:
                            try:
                                ZConfig.loadConfigFile(c.real, io.StringIO("".join(l + "\n" for l in lines)))
                                out = ["ok"]
                            except Exception as e:
                                out = cfgrun.classify_exc(e)
                        ctx.evaluations += 1
                        ctx.count("include-arg:%s:%s" % (entry, out[0]))
                        ctx.nontriv(("incarg", id(c.sd), arg, via_define, pos, entry))
                        if out[0] == "internal":
                            ctx.violate("%s escaped from %s for '%%include %s'" % (out[1], "loadConfig" if entry == "path" else "loadConfigFile (stream without URL)", arg),
                                        {"schema_xml": F.render_xml(c.sd), "lines": lines, "impl": out, "entry": entry},
                                        signature="C07:include-arg:%s" % out[1])
    finally:
        shutil.rmtree(root, ignore_errors=True)


class CountingStream(io.StringIO):
    def __init__(self):
        super().__init__()
        self.messages = 0

    def write(self, t):
        if t != "\n":
            self.messages += 1
        return super().write(t)


def import_world(pk):
    """(kind, dotted name) for every kind of thing a '%import' line or a 'package:' URL can name.  The generated ones live
    on a scratch sys.path entry; the components are well-formed XML (an ill-formed schema document is outside the property,
    DESIGN §8) and no package runs code that fails with anything but ImportError (a package's own code is not user input)"""
    world = [
        ("component", pk.add_raw_component("<component>\n  <sectiontype name='zcvimptype'>\n    <key name='k'/>\n  </sectiontype>\n</component>\n", "zcvcomp")),
        ("component-schema-error", pk.add_raw_component("<component>\n  <sectiontype name='zcvimpbad' extends='zcvnosuchtype'/>\n</component>\n", "zcvcompbad")),
        ("package-without-component", pk.add_plain_package()),
        ("module", pk.add_module()),
        ("namespace-package", pk.add_namespace_package()),
        ("namespace-package-nested", pk.add_namespace_package(nested=True)),
        ("namespace-package-with-component", pk.add_namespace_package(with_component=True)),
        ("namespace-portion-of-regular-package", pk.add_plain_subdirectory()),
        ("component-is-directory", pk.add_unreadable_component("directory")),
        ("component-not-utf8", pk.add_unreadable_component("not-utf8")),
        ("import-error", pk.add_import_error_package()),
    ]
    zplain, zcomp, zbare = pk.add_zip()
    world += [("zip-package-without-component", zplain), ("zip-component", zcomp), ("zip-namespace-package", zbare)]
    pk.refresh()
    ns, reg = world[4][1], world[2][1]
    # what is importable anyway: modules and packages of the standard library and of ZConfig itself (its tests' input
    # directory has no __init__.py in a source checkout, its logger component is a real component)
    world += [("stdlib:" + n, n) for n in ("os", "os.path", "sys", "email", "email.mime", "xml.sax.handler", "__main__", "builtins")]
    world += [("zconfig:" + n, n) for n in ("ZConfig", "ZConfig.components", "ZConfig.components.logger", "ZConfig.components.logger.handlers",
                                            "ZConfig.tests", "ZConfig.tests.input", "ZConfig.tests.library.thing")]
    # names that do not resolve, and ill-formed names (each derived from a name that does resolve where that matters)
    world += [("missing", n) for n in ("zcv_no_such_package", "zcv_no_such_package.sub", "os.zcvnosuch", "os.path.zcvnosuch", ns + ".zcvnosuch",
                                       reg + ".zcvnosuch", reg + ".__init__", reg + ".__path__", ns.upper())]
    world += [("ill-formed-name", n) for n in ("", ".", "..", "." + ns, ns + ".", ns + "..sub", reg + ".", "a..b", "a b", ns + " x", "a\tb", "a/b", "a\\b",
                                               "../" + ns, ns + "/", "a\x00b", "\u00e9.\u00e8", "a-b", "1", "1.2", "$zcv", "*", "<" + ns + ">", ns + ":component.xml",
                                               "package:" + ns, "x" * 300, ".".join(["p"] * 40), "import", "None")]
    return world


def import_arg_cases(ctx, base):
    """'%import <name>' and '%include package:<name>:<file>' for every kind of importable thing (import_world): at any line
    of a valid host text, literal and through a %define, loaded by path and from a stream without URL; and the validator on the
    file.  Real loader only, like include_arg_cases: the observable is the exception family (status and message count for
    the validator)."""
    import contextlib
    import ZConfig
    from ZConfig import validator
    rng = ctx.rng
    root = tempfile.mkdtemp(prefix="zcv-imp-", dir="/dev/shm" if os.path.isdir("/dev/shm") else None)
    pk = pkggen.PkgRoot()
    try:
        world = import_world(pk)
        nh = 12 if ctx.thorough() else 3
        # host texts: valid texts that the loader accepts as they are (so that a '%import' that succeeds leaves an accepted text)
        hosts = []
        good = [c for c in base if not c.faults]
        for c in good[:: max(1, len(good) // (4 * nh))]:
            try:
                ZConfig.loadConfigFile(c.real, io.StringIO("".join(l + "\n" for l in c.lines)))
            except Exception:
                continue
            hosts.append(c)
        hosts = hosts[:: max(1, len(hosts) // nh)][:nh] or base[:nh]
        for hi, c in enumerate(hosts):
            sp = os.path.join(root, "schema%d.xml" % hi)
            with open(sp, "w") as f:
                f.write(F.render_xml(c.sd))
            for kind, name in world:
                lit = name.replace("$", "$$")
                forms = [("import", ["%import " + lit]),
                         ("import-defined", ["%define zcvp " + lit, "%import $zcvp"]),
                         ("include-package-component", ["%include package:" + lit + ":component.xml"]),
                         ("include-package-file", ["%define ZCVP " + lit, "%include package:${zcvp}:" + rng.choice(["x.conf", "data/sample.conf", "../x.conf", "", "__init__.py", "."])])]
                for form, inc in forms:
                    lines = list(c.lines)
                    pos = rng.randint(0, len(lines))
                    lines[pos:pos] = inc
                    text = "".join(l + "\n" for l in lines)
                    p = os.path.join(root, "main.conf")
                    with open(p, "w", encoding="utf-8", newline="") as f:
                        f.write(text)
                    replay = {"schema_xml": F.render_xml(c.sd), "lines": lines, "form": form, "package_kind": kind, "package_name": name,
                              "package_layout": pk.layout.get(name) or
                              [{g: pk.layout[g]} for g in pk.layout if g in name] or "nothing generated: importable as it is (standard library / ZConfig) or not at all"}
                    outs = {}
                    for entry in ("path", "stream-without-url"):
                        if entry == "path":
                            out, _, _ = cfgrun.real_load_path(c.real, p)
                        else:
                            try:
                                ZConfig.loadConfigFile(c.real, io.StringIO(text))
                                out = ["ok"]
                            except Exception as e:
                                out = cfgrun.classify_exc(e)
                        outs[entry] = out
                        ctx.evaluations += 1
                        ctx.count("import-arg:%s:%s:%s" % (form.split("-")[0], kind.split(":")[0], out[0]))
                        ctx.nontriv(("imparg", id(c.sd), kind, name, form, pos, entry))
                        if out[0] == "internal":
                            ctx.violate("%s escaped from %s for %r (%s)" % (out[1], "loadConfig" if entry == "path" else "loadConfigFile (stream without URL)", inc[-1] if len(inc) == 1 else inc, kind),
                                        dict(replay, impl=out, entry=entry), signature="C07:import-arg:%s" % out[1])
                    # the validator on the same file: 0 or 1, one message iff invalid, no exception
                    if form != "import" or outs["path"][0] == "dtexc":
                        continue
                    buf = CountingStream()
                    try:
                        with contextlib.redirect_stderr(buf), contextlib.redirect_stdout(io.StringIO()):
                            rc = validator.main(["--schema", sp, p])
                    except SystemExit as e:
                        rc = e.code
                    except Exception as e:
                        ctx.violate("validator.main raised %s for a file with %r (%s)" % (type(e).__name__, inc[0], kind), dict(replay, entry="validator"),
                                    signature="C07:validator:" + type(e).__name__)
                        continue
                    ctx.evaluations += 1
                    ctx.count("import-arg:validator:rc=%s" % rc)
                    if outs["path"][0] == "internal":
                        continue    # reported above; the validator then has no defined answer
                    want = 0 if outs["path"][0] == "ok" else 1
                    if rc != want or buf.messages != want:
                        ctx.violate("validator status %r with %d message(s) for a file with %r (%s) that loadConfig %s" % (
                            rc, buf.messages, inc[0], kind, "accepts" if want == 0 else "rejects with a configuration error"),
                            dict(replay, entry="validator", stderr=buf.getvalue()[:500]), signature="C07:validator:import-arg")
    finally:
        pk.close()
        shutil.rmtree(root, ignore_errors=True)



# datatypes that reject with ValueError, with a text each accepts / rejects
_DEFAULT_DT = [("integer", "7", "seven"), ("boolean", "on", "maybe"), ("port-number", "80", "99999"), ("byte-size", "1kb", "1xb"),
               ("ipaddr-or-hostname", "host1", "a b"), ("identifier", "abc", "1 2"), ("float", "1.5", "x"), ("time-interval", "5m", "5y")]
# spellings of the text of a <default> element (the empty element has NO character data at all)
_DEFAULT_TEXT = [("empty-element", lambda good, bad: ""), ("blank", lambda good, bad: " "), ("newline", lambda good, bad: "\n  "),
                 ("bad", lambda good, bad: bad), ("good", lambda good, bad: good), ("bad-padded", lambda good, bad: "\n " + bad + "\n")]


def schema_default_cases(ctx):
    """schemas whose <default> ELEMENTS (multikey, wildcard key, wildcard multikey; top level and inside a section type) hold
    a text the datatype rejects - among them the element with no character data at all - loaded with texts that do not give
    the key, so that the default is converted: the load returns a configuration or raises within the configuration-error
    family (the text is as valid as a text can be: it is empty, or opens the section)"""
    import ZConfig
    for dt, good, bad in _DEFAULT_DT:
        for tname, mk in _DEFAULT_TEXT:
            txt = mk(good, bad).replace("&", "&amp;").replace("<", "&lt;")
            items = {
                "multikey": "<multikey name='mk' datatype='%s' attribute='mk'><default>%s</default></multikey>" % (dt, txt),
                "wild-key": "<key name='+' datatype='%s' attribute='wk'><default key='a1'>%s</default></key>" % (dt, txt),
                "wild-multikey": "<multikey name='+' datatype='%s' attribute='wm'><default key='a1'>%s</default><default key='a1'>%s</default></multikey>" % (dt, good, txt),
            }
            for iname, item in items.items():
                for where in ("top", "sectiontype"):
                    if where == "top":
                        xml, texts = "<schema>%s</schema>" % item, ["", "# nothing\n"]
                    else:
                        xml = "<schema><sectiontype name='st'>%s</sectiontype><multisection type='st' name='*' attribute='sts'/></schema>" % item
                        texts = ["<st/>\n", "<st a>\n</st>\n<st b/>\n"]
                    try:
                        schema = ZConfig.loadSchemaFile(io.StringIO(xml))
                    except ZConfig.SchemaError:
                        ctx.count("schema-default:schema-refused")
                        continue
                    except Exception as e:
                        ctx.count("schema-default:schema-load:" + type(e).__name__)
                        continue
                    for text in texts:
                        try:
                            ZConfig.loadConfigFile(schema, io.StringIO(text))
                            out = ["ok"]
                        except Exception as e:
                            out = cfgrun.classify_exc(e)
                        ctx.evaluations += 1
                        ctx.count("schema-default:%s:%s" % (tname, out[0]))
                        ctx.nontriv(("schema-default", dt, tname, iname, where, text))
                        if out[0] == "internal":
                            ctx.violate("%s escaped from loadConfigFile: the schema's <default> element (%s, %s, %s) does not convert under %s" % (
                                out[1], tname, iname, where, dt), {"schema_xml": xml, "text": text, "impl": out},
                                signature="C07:schema-default:%s:%s" % (tname, out[1]))

def run(ctx):
    obligations, discharged, names = core.standard_prelude(ctx, ["ZCV.Props.C07"])
    n_s, n_t = (800, 40) if ctx.thorough() else (70, 18)
    rng = ctx.rng
    base = cfgstream.gen_cases(ctx, n_s, n_t, nfaults=(0, 0, 1))
    cases = []
    for c in base:
        if c.faults:
            cases.append(c)     # the faulty text as generated (every fault kind of the catalogue, unmasked by mutation)
        k = rng.random()
        d = cfgstream.Case()
        d.sd, d.real, d.elab, d.hnames = c.sd, c.real, c.elab, c.hnames
        d.lines, d.faults = c.lines, list(c.faults)
        if k < 0.5:
            for _ in range(rng.randint(1, 3)):
                d.lines = mutate_lines(rng, d.lines)
            d.faults.append("mutated")
        elif k < 0.9:
            # overrides derived from the text's own keys and sections
            items_specs = ovgen.gen_overrides(rng, c.elab, c.meta.get("items") or [], rng.randint(1, 3))
            specs = [mutate_spec(rng, s) if rng.random() < 0.3 else s for s in items_specs]
            d.overrides = tuple(specs)
            d.faults.append("overrides")
        cases.append(d)
    # include graphs
    sds = {}
    for c in base[:: max(1, len(base) // 40)]:
        for lines, files, cyclic in include_graphs(rng, c.elab):
            d = cfgstream.Case()
            d.sd, d.real, d.elab, d.hnames = c.sd, c.real, c.elab, c.hnames
            d.lines, d.files, d.faults = lines, files, ["include-graph", "cyclic" if cyclic else "acyclic"]
            d.meta = {"main": "m/main.conf"}
            cases.append(d)
    cfgstream.evaluate(ctx, cases)
    for c in cases:
        ctx.count("impl:" + c.out[0] + (":" + str(c.out[1]) if c.out[0] != "ok" else ""))
        for f in c.faults:
            ctx.count("kind:" + f.split("@")[0])
        ctx.nontriv((id(c.sd), tuple(c.lines), tuple(c.overrides), bool(c.files)))
        if c.model is not None and list(c.model[:2]) == ["internal", "unresolved-by-harness"]:
            # the model asked for an %include target the harness' resolve table does not list (a mutated line turned into an
            # %include with an argument the harness did not foresee): no model answer for this text, the direct oracle below
            # still judges the real outcome (false alarm under VERIF_SEED=13)
            ctx.count("model:no-answer:unresolved-include")
        elif c.model is not None and c.model[0] not in ("bad",):
            if (c.model[0] == "internal") != (c.out[0] == "internal") or (c.out[0] == "internal" and c.model[1] != c.out[1]):
                ctx.disagree("load", c.replay(), c.out, c.model[:6])
        if c.out[0] == "internal":
            what = c.out[1]
            where = "cyclic-include" if "cyclic" in c.faults else "override" if c.overrides else "text"
            ctx.violate("%s escaped from the loading entry point (%s)" % (what, where), dict(c.replay(), impl=c.out),
                        signature="C07:%s:%s" % (where, what))
    include_arg_cases(ctx, base)
    schema_default_cases(ctx)
    import_arg_cases(ctx, base)
    # the validator: given a loadable schema, status 0 iff all files valid, else 1 with one message per invalid file
    _validator(ctx, base)
    if cases:
        ctx.sample({"lines": cases[0].lines, "overrides": cases[0].overrides, "impl": cases[0].out[:3]})
        ctx.sample({"lines": cases[-1].lines, "files": cases[-1].files, "impl": cases[-1].out[:3]})
    return core.finish(ctx, obligations, discharged, names, RULE,
                       "lake build ZCV.Props.C07 && lake env lean ZCV/Audit/C07.lean",
                       ["datatype functions used by the generated schemas reject with ValueError (zcvdt.marker's KeyError is the declared carve-out)",
                        "interpreter limits (recursion limit) are modelled as fuel"])


def _validator(ctx, cases):
    """validator.main in-process: per schema, good and bad files in several orders (a bad file first, last, in the
    middle, only good, only bad); status must be 0 iff every file is valid, and exactly one message per invalid file"""
    import contextlib
    import ZConfig
    from ZConfig import validator
    from ..sexp import Atom

    root = tempfile.mkdtemp(prefix="zcv-val-", dir="/dev/shm" if os.path.isdir("/dev/shm") else None)
    try:
        groups = {}
        for c in cases:
            groups.setdefault(id(c.sd), []).append(c)
        for gi, (_, cs) in enumerate(list(groups.items())[: (60 if ctx.thorough() else 12)]):
            d = os.path.join(root, "g%d" % gi)
            os.makedirs(d)
            sp = os.path.join(d, "schema.xml")
            open(sp, "w").write(F.render_xml(cs[0].sd))
            good, bad = [], []
            for i, c in enumerate(cs[:24]):
                p = os.path.join(d, "f%d.conf" % i)
                open(p, "w", encoding="utf-8", newline="").write("".join(l + "\n" for l in c.lines))
                out, _, _ = cfgrun.real_load_path(F.load_real(c.sd), p)
                if out[0] == "ok":
                    good.append(p)
                elif out[0] == "cfg":
                    bad.append(p)
            plans = []
            if good:
                plans.append(good[:2])
            if bad:
                plans.append(bad[:1])
            if good and bad:
                plans += [[bad[0], good[0]], [good[0], bad[0]], [bad[0], bad[-1], good[0]], [good[0], bad[0], good[-1]]]
            # the same loop on the model (lean/ZCV/Model/Validator.lean, theorems C07_validator_*): status and messages from
            # the per-file outcomes of the real loads
            # (the messages the model loop is given come from loads done the way the validator does them - schema by path,
            # file by path - so that an error located IN THE SCHEMA, e.g. a default that does not convert, names the same
            # resource; with a schema loaded from a string it would name the configuration file: false alarm, VERIF_SEED=3)
            msg_of = {}
            try:
                vschema = ZConfig.loadSchema(sp)
            except Exception:
                vschema = F.load_real(cs[0].sd)
            for p in bad:
                try:
                    ZConfig.loadConfig(vschema, p)
                except ZConfig.ConfigurationError as e:
                    msg_of[p] = str(e)
            model_ans = core.driver_batch([[Atom("validator"), [([Atom("cfg"), msg_of.get(p, "?")] if p in bad else Atom("valid")) for p in paths]]
                                           for paths in plans]) if (ctx.driver_ok and plans) else [None] * len(plans)
            for paths, mans in zip(plans, model_ans):
                expected_bad = sum(1 for p in paths if p in bad)
                buf = CountingStream()
                try:
                    with contextlib.redirect_stderr(buf), contextlib.redirect_stdout(io.StringIO()):
                        rc = validator.main(["--schema", sp] + paths)
                except SystemExit as e:
                    rc = e.code
                except Exception as e:
                    ctx.violate("validator.main raised %s" % type(e).__name__, {"schema_xml": F.render_xml(cs[0].sd), "files": paths},
                                signature="C07:validator:" + type(e).__name__)
                    continue
                ctx.evaluations += 1
                ctx.count("validator:rc=%s" % rc)
                if mans is not None:
                    model_err = "".join(str(m) + "\n" for m in mans[2]) if (isinstance(mans, list) and len(mans) == 3) else None
                    if not (isinstance(mans, list) and mans and mans[0] == "exit" and int(mans[1]) == rc):
                        ctx.disagree("validator-status", [("bad" if p in bad else "good") for p in paths], rc, mans)
                    elif model_err != buf.getvalue():
                        ctx.disagree("validator-messages", [("bad" if p in bad else "good") for p in paths], buf.getvalue()[:600], (model_err or "")[:600])
                texts = [open(p, encoding="utf-8").read() for p in paths]
                if rc != (1 if expected_bad else 0):
                    ctx.violate("validator status %r for files of which %d are invalid (order: %s)" % (
                        rc, expected_bad, ["bad" if p in bad else "good" for p in paths]),
                        {"schema_xml": F.render_xml(cs[0].sd), "texts": texts}, signature="C07:validator:status")
                elif buf.messages != expected_bad:
                    ctx.violate("validator printed %d messages for %d invalid files" % (buf.messages, expected_bad),
                                {"schema_xml": F.render_xml(cs[0].sd), "texts": texts, "stderr": buf.getvalue()[:500]},
                                signature="C07:validator:messages")
            # no file argument: the text comes from standard input (a pipe, not a terminal); same verdict, one message
            for p in (good[:1] + bad[:1]):
                text = open(p, encoding="utf-8", newline="").read()
                buf = CountingStream()
                old_stdin = sys.stdin
                sys.stdin = io.StringIO(text)
                try:
                    with contextlib.redirect_stderr(buf), contextlib.redirect_stdout(io.StringIO()):
                        rc = validator.main(["--schema", sp])
                except SystemExit as e:
                    rc = e.code
                except Exception as e:
                    ctx.violate("validator.main raised %s for a text on standard input" % type(e).__name__,
                                {"schema_xml": F.render_xml(cs[0].sd), "stdin": text}, signature="C07:validator-stdin:" + type(e).__name__)
                    continue
                finally:
                    sys.stdin = old_stdin
                ctx.evaluations += 1
                want = 1 if p in bad else 0
                ctx.count("validator-stdin:rc=%s" % rc)
                if rc != want or buf.messages != want:
                    ctx.violate("validator on standard input: status %r, %d messages for a text that is %s" % (
                        rc, buf.messages, "invalid" if want else "valid"),
                        {"schema_xml": F.render_xml(cs[0].sd), "stdin": text, "stderr": buf.getvalue()[:500]},
                        signature="C07:validator-stdin:status")
    finally:
        shutil.rmtree(root, ignore_errors=True)
