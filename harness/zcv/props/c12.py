"""C12 — abstract slots accept exactly their implementers, including %import-ed ones"""
from .. import cfgrun, cfgstream, core, pkggen, schemafam as F

RULE = ("schemas with 1..3 abstract types and 0..4 concrete types implementing / extending them in random combinations, one "
        "multisection slot per abstract type plus single slots addressed by a fixed name whose type is abstract (any order), 0..2 generated component packages adding implementers, some of them ALSO imported by the schema itself ('<import package=…/>': a '%import' of such a package is a no-op); texts of '<type/>' "
        "lines for every kind of type name (implementer, extender, non-implementer, the abstract type itself, package type, "
        "unknown) with '%import' lines before, between and after; sequences of up to 4 loads on one schema object; all '%import' sequences of length <= 3 over three packages against schemas importing none / one / two of them, each followed by three probe loads per package type (type alone, type before its '%import', type after it). The "
        "'%import' lines together with overrides reaching into sections of static and imported types (ovimport.py: real vs model vs hand-edited text). The expected outcome is computed line by line from the statement (visible implementers = static ones + those imported "
        "earlier in this load). non-trivial = at least one section line; distinct by (schema, text)")


def gen_world(rng, pk):
    nabs = rng.randint(1, 3)
    abss = ["ab%d" % i for i in range(nabs)]
    types = [F.AbsD(a) for a in abss]
    con = []
    impl = {}        # type -> abstract it implements (static)
    for i in range(rng.randint(0, 4)):
        n = "ct%d" % i
        r = rng.random()
        if r < 0.25 and con:
            base = rng.choice(con)
            im = rng.choice(abss) if rng.random() < 0.3 else None
            types.append(F.TypeD(n, [], extends=base, implements=im))   # extends does not inherit implements
        else:
            im = rng.choice(abss) if rng.random() < 0.7 else None
            types.append(F.TypeD(n, [F.KeyD("k", "string")], implements=im))
        con.append(n)
        impl[n] = im
    children = [F.SectD(a, "*", True, False, "s_" + a) for a in abss]
    # slots addressed by a FIXED name whose type is abstract (single sections), in any position among the others
    for a in abss:
        if rng.random() < 0.45:
            children.insert(rng.randint(0, len(children)), F.SectD(a, "fx" + a, False, False, None))
    children.append(F.KeyD("plain", "string"))      # a top-level key for command-line overrides that touch nothing else
    sd = F.SchemaD(children, types)
    pkgs = []
    npk = rng.randint(0, 2)
    names = [pk.fresh_name() for _ in range(npk)]
    # sometimes the generated components import each other (a cycle) or one imports the other: %import of one then brings
    # in both, each exactly once
    shape = rng.choice(["none", "none", "cycle", "chain"]) if npk == 2 else "none"
    for j in range(npk):
        ptypes = []
        for i in range(rng.randint(1, 2)):
            n = "pt%d_%d" % (j, i) if rng.random() < 0.8 else "shared"
            if any(t.name == n for t in ptypes):
                continue
            ptypes.append(F.TypeD(n, [], implements=rng.choice(abss) if rng.random() < 0.8 else None))
        imports = ()
        if shape == "cycle":
            imports = (names[1 - j],)
        elif shape == "chain" and j == 0:
            imports = (names[1],)
        pk.add_component(ptypes, name=names[j], imports=imports)
        pkgs.append((names[j], ptypes, imports))
    # the application schema itself imports some of the packages (schema-level <import package=…/>): their implementers are
    # static vocabulary, and a '%import' naming them adds nothing (the configuration may still say it, anywhere)
    if npk and rng.random() < 0.5:
        cand = rng.sample(names, rng.randint(1, npk))
        if static_closure(abss, impl, pkgs, cand) is not None:
            sd.imports = cand
    bad = {"nocomp": pk.add_plain_package(), "module": pk.add_module(), "missing": "zcv_no_such_package_%d" % rng.randint(0, 999)}
    return sd, abss, con, impl, pkgs, bad


def _import_into(bypkg, abss, visible, imported, order, p):
    """a component is recorded, then its own imports are read, then its types are defined; each component once.  False when a
    type name would be defined twice"""
    if p in imported:
        return True
    imported.add(p)
    e = bypkg.get(p)
    if e is None:
        return True
    for q in (e[2] if len(e) > 2 else ()):
        if not _import_into(bypkg, abss, visible, imported, order, q):
            return False
    for t in e[1]:
        if t.name in visible or t.name in abss:
            return False                # a type name cannot be redefined
        visible[t.name] = t.implements
        order.append((p, t))
    return True


def static_closure(abss, impl, pkgs, simports):
    """what the schema-level imports contribute: (visible types, components, package types in definition order), or None when
    the schema document would be refused (a type name defined twice)"""
    visible, imported, order = dict(impl), set(), []
    bypkg = {e[0]: e for e in pkgs}
    for p in simports:
        if not _import_into(bypkg, abss, visible, imported, order, p):
            return None
    # components in the order they were recorded = first visit order
    seen = []

    def visit(p):
        if p in seen or p not in bypkg:
            return
        seen.append(p)
        for q in bypkg[p][2]:
            visit(q)
    for p in simports:
        visit(p)
    return visible, seen, order


def world_elab(sd, abss, impl, pkgs):
    """the schema object the model starts from: own types, then the types of the schema-level imports in definition order,
    and the component URLs they recorded"""
    simports = getattr(sd, "imports", ())
    if not simports:
        return F.elaborate(sd)
    _, comps, order = static_closure(abss, impl, pkgs, simports)
    el = F.elaborate(F.SchemaD(sd.children, list(sd.types) + [t for _, t in order], sd.keytype, sd.datatype, sd.handler))
    el[4] = ["package:%s:component.xml" % p for p in comps]
    return el


def expected(abss, con, impl, pkgs, bad, lines, slots=None, simports=()):
    return expected_why(abss, con, impl, pkgs, bad, lines, slots, simports)[0]


def expected_why(abss, con, impl, pkgs, bad, lines, slots=None, simports=()):
    """the statement, line by line; returns ('ok', None) or ('reject', why) with why = the clause of the statement that refuses
    the first refused line ('unknown-type': the type is in the vocabulary of neither the schema nor an '%import' read earlier
    IN THIS LOAD; 'not-implementer'; 'import-refused'; 'name-reused'; 'slot').  `simports` = the packages the schema itself imports.  `slots` = the schema's section slots in schema order as
    (fixed name or None, abstract type): the first slot that claims a header decides (a fixed-name slot claims the
    header carrying its name and admits it only for an implementer of its type; a '*' slot claims every header whose
    type implements its abstract type)"""
    visible = dict(impl)              # concrete type -> abstract implemented (or None)
    imported = set()
    used = set()
    defs = {}
    if slots is None:
        slots = [(None, a) for a in abss]
    bypkg = {e[0]: e for e in pkgs}

    def do_import(p):
        return _import_into(bypkg, abss, visible, imported, [], p)
    for p in simports:
        do_import(p)                  # static vocabulary: the schema document was accepted, so this cannot clash

    for l in lines:
        if l.startswith("%define "):
            parts = l.split(None, 2)
            defs.setdefault(parts[1].lower(), parts[2] if len(parts) > 2 else "")
        elif l.startswith("%import "):
            p = l.split()[1]
            if p.startswith("$"):
                p = defs.get(p.strip("${}").lower())
                if p is None:
                    return "reject", "import-refused"
            if p in bad.values() or p.startswith(".") or ".." in p or p.endswith("."):
                return "reject", "import-refused"
            if not do_import(p):
                return "reject", "import-refused"
        else:
            parts = l[1:-2].strip().split()
            t = parts[0].lower()
            nm = parts[1].lower() if len(parts) > 1 else None
            if t not in visible and t not in abss:
                return "reject", "unknown-type"
            if t not in visible or visible[t] is None:
                return "reject", "not-implementer"
            if nm is not None:
                if nm in used:
                    return "reject", "name-reused"          # a section name is not reused inside one container
                used.add(nm)
            verdict = "reject"
            for fixed, ab in slots:
                if fixed is not None:
                    if nm == fixed:
                        verdict = "ok" if visible[t] == ab else "reject"
                        break
                elif visible[t] == ab:
                    verdict = "ok"
                    break
            if verdict != "ok":
                return "reject", "slot"
    return "ok", None


def gen_text(rng, abss, con, impl, pkgs, bad, fixed=()):
    names = list(con) + list(abss) + ["nosuch"] + [t.name for e in pkgs for t in e[1]]
    lines = []
    for _ in range(rng.randint(1, 6)):
        r = rng.random()
        if r < 0.3 and pkgs:
            pn = rng.choice(pkgs)[0]
            if rng.random() < 0.25:
                # the package name through a definition
                lines.append("%define zpk" + str(len(lines)) + " " + pn)
                lines.append("%import " + rng.choice(["$zpk", "${ZPK", "${zpk"]) + str(len(lines) - 1) + ("}" if lines[-1] and rng.random() < 2 and False else ""))
                if "{" in lines[-1]:
                    lines[-1] += "}"
            else:
                lines.append("%import " + pn)
        elif r < 0.36:
            lines.append("%import " + rng.choice(list(bad.values()) + ["a..b", ".x"]))
        else:
            # favour names that make the load succeed
            good = [n for n in names if impl.get(n)] + [t.name for e in pkgs for t in e[1] if t.implements]
            n = rng.choice(good) if good and rng.random() < 0.7 else rng.choice(names)
            r2 = rng.random()
            if fixed and r2 < 0.35:
                f = rng.choice(fixed)
                nm = " " + (f.upper() if rng.random() < 0.3 else f)
            elif r2 < 0.55:
                nm = " x%d" % len(lines)
            else:
                nm = ""
            lines.append("<" + (n.upper() if rng.random() < 0.2 else n) + nm + "/>")
    return lines


def run(ctx):
    obligations, discharged, names = core.standard_prelude(ctx, ["ZCV.Props.C12"])
    rng = ctx.rng
    pk = pkggen.PkgRoot()
    nworlds = 300 if ctx.thorough() else 40
    try:
        for _ in range(nworlds):
            sd, abss, con, impl, pkgs, bad = gen_world(rng, pk)
            real = F.load_real(sd)
            elab = world_elab(sd, abss, impl, pkgs)
            if not cfgstream.check_digest(ctx, sd, real, elab):
                continue
            simports = tuple(sd.imports)
            if simports:
                ctx.count("world:schema-level-import")
            nested = any(e[2] for e in pkgs)     # the model's packages are flat: components importing components are compared with the reference only
            mp = [pkggen.model_pkg(e[0], e[1], elab) for e in pkgs] + \
                 [[bad["nocomp"], core.sexp.Atom("nocomponent")], [bad["module"], core.sexp.Atom("notpackage")],
                  [bad["missing"], core.sexp.Atom("notimportable")], ["a..b", core.sexp.Atom("illegalname")], [".x", core.sexp.Atom("illegalname")]]
            slots = [(c.name if c.name not in ("*", "+", None) else None, c.type) for c in sd.children if c.kind == "sect"]
            fixed = [f for f, _ in slots if f]
            texts = [gen_text(rng, abss, con, impl, pkgs, bad, fixed) for _ in range(12)]
            # some loads carry a command-line override for the unrelated top-level key: slot admission must not change
            ovs = [(("plain=ov",) if rng.random() < 0.3 else ()) for _ in texts]
            if ctx.driver_ok and not nested:
                ans = core.driver_batch([cfgrun.model_load_request(elab, t, cfgstream.URL, overrides=o, pkgs=mp) for t, o in zip(texts, ovs)])
            else:
                ans = [None] * len(texts)
            vocab = _vocabulary(real)
            history = []
            for t, a, ov in zip(texts, ans, ovs):
                exp, why = expected_why(abss, con, impl, pkgs, bad, t, slots, simports)
                if simports and any(l.startswith("%import ") and l.split()[1] in simports for l in t):
                    ctx.count("text:%import-of-a-schema-level-component")
                out, cfg, _ = cfgrun.real_load(real, "\n".join(t) + "\n", cfgstream.URL, ov, reuse=False)
                fresh, _, _ = cfgrun.real_load(F.load_real(sd), "\n".join(t) + "\n", cfgstream.URL, ov, reuse=False)
                if ov:
                    ctx.count("with-override")
                ctx.evaluations += 1
                ctx.count("expected:" + exp)
                if any(l.startswith("<") for l in t):
                    ctx.nontriv((id(sd), tuple(t)))
                got = "ok" if out[0] == "ok" else "reject" if out[0] == "cfg" else out[0]
                gotf = "ok" if fresh[0] == "ok" else "reject" if fresh[0] == "cfg" else fresh[0]
                rep = {"schema_xml": F.render_xml(sd), "lines": t, "packages": {e[0]: [F.render_xml(F.SchemaD([], e[1]), "component"), list(e[2])] for e in pkgs},
                       "history": list(history), "overrides": list(ov), "expected": exp, "reused_schema": out[:2], "fresh_schema": fresh[:2]}
                if a is not None:
                    m = cfgrun.canon_model(a)
                    mm = "ok" if m[0] == "ok" else "reject" if m[0] == "cfg" else m[0]
                    if mm != gotf:
                        ctx.disagree("import-load", rep, fresh[:3], m[:6])
                if gotf != exp and gotf in ("ok", "reject"):
                    ctx.violate("fresh schema: %r gives %s, the implementer rules give %s" % (t, gotf, exp), rep,
                                signature="C12:fresh:%s-expected-%s" % (gotf, exp))
                elif got != exp and got in ("ok", "reject"):
                    # the same text against the schema object that already served earlier loads
                    leaked = any(l.startswith("%import") for h in history for l in h)
                    ctx.violate("after %d earlier loads: %r gives %s, against a fresh schema %s" % (len(history), t, got, gotf), rep,
                                signature=_history_signature(got, exp, why, leaked))
                history.append(t)
                _check_vocabulary(ctx, real, vocab, rep, history)
                if len(history) >= 4:
                    history = []
                    real = F.load_real(sd)
                    vocab = _vocabulary(real)
            ctx.sample({"lines": texts[0], "schema_level_imports": list(simports), "expected": expected(abss, con, impl, pkgs, bad, texts[0], slots, simports)})
        # '%import' lines and overrides TOGETHER, overrides reaching into sections (C01_load_accept_iff / C02_load_value_eq over
        # conformsI / denoteI of the edited items): real vs model, real vs the hand-edited text
        from .. import ovimport
        ovimport.run_stream(ctx, "C12")
        # directed history: two packages define the same type name, only the first implements the abstract type
        sd = F.SchemaD([F.SectD("ab0", "*", True, False, "s_ab0")], [F.AbsD("ab0")])
        pa = pk.add_component([F.TypeD("shared", [], implements="ab0")])
        pb = pk.add_component([F.TypeD("shared", [])])
        real = F.load_real(sd)
        t1, t2 = ["%import " + pa, "<shared/>"], ["%import " + pb, "<shared/>"]
        o1, _, _ = cfgrun.real_load(real, "\n".join(t1) + "\n", cfgstream.URL)
        o2, _, _ = cfgrun.real_load(real, "\n".join(t2) + "\n", cfgstream.URL)
        f2, _, _ = cfgrun.real_load(F.load_real(sd), "\n".join(t2) + "\n", cfgstream.URL)
        ctx.evaluations += 3
        if o1[0] != "ok" or f2[0] != "cfg":
            ctx.violate("directed two-package scenario: first load %s, second load on a fresh schema %s" % (o1[:2], f2[:2]),
                        {"schema_xml": F.render_xml(sd), "loads": [t1, t2]}, signature="C12:fresh:directed")
        elif o2[0] == "ok":
            ctx.violate("a type that does not implement the abstract type is accepted in its slot because an earlier load "
                        "imported a same-named implementer: %r then %r" % (t1, t2),
                        {"schema_xml": F.render_xml(sd), "loads": [t1, t2], "second_load": o2[:2], "fresh_schema": f2[:2]},
                        signature="C12:history:ok-expected-reject:after-import")
        # a schema-level <import src=…> that brings a same-named, NON-implementing type: the name may not be redefined, so
        # the slot can never come to admit the imported type under the implementer's name
        import io
        import os
        import tempfile
        import ZConfig
        with tempfile.TemporaryDirectory(prefix="zcv-c12-") as td:
            open(os.path.join(td, "lib.xml"), "w").write("<schema><sectiontype name='cache'><key name='dir'/></sectiontype></schema>")
            for order in ("define-then-import", "import-then-define"):
                own = "<sectiontype name='cache' implements='storage'><key name='size'/></sectiontype>"
                imp = "<import src='lib.xml'/>"
                body = (own + imp) if order == "define-then-import" else (imp + own)
                xml = "<schema><abstracttype name='storage'/>%s<multisection type='storage' name='*' attribute='st'/></schema>" % body
                open(os.path.join(td, "main.xml"), "w").write(xml)
                ctx.evaluations += 1
                try:
                    sch = ZConfig.loadSchema(os.path.join(td, "main.xml"))
                except ZConfig.SchemaError:
                    continue
                except Exception as e:
                    ctx.violate("schema with a redefined imported type raised %s" % type(e).__name__, {"schema_xml": xml, "order": order},
                                signature="C12:import-src-redefinition:exc")
                    continue
                o1, _, _ = cfgrun.real_load(sch, "<cache>\ndir /x\n</cache>\n", cfgstream.URL)
                ctx.violate("a type name defined twice (own implementer and an <import src> of a non-implementing type, %s) was accepted; "
                            "the slot of 'storage' then gives %r for a <cache> section with the imported type's key" % (order, o1[:2]),
                            {"schema_xml": xml, "lib": "<sectiontype name='cache'><key name='dir'/></sectiontype>", "order": order},
                            signature="C12:import-src-redefinition:accepted")
        _directed_imports(ctx, pk)
        _import_histories(ctx, pk)
        _package_names(ctx, pk)
    finally:
        pk.close()
    return core.finish(ctx, obligations, discharged, names, RULE,
                       "lake build ZCV.Props.C12 && lake env lean ZCV/Audit/C12.lean",
                       ["package import machinery (sys.path, __path__) is outside the model: packages are given to the model as their elaborated types"])


def _history_signature(got, exp, why, leaked):
    """the class of a load whose outcome on a schema object that served earlier loads differs from the statement.  An accepted
    section whose type is in the vocabulary of neither the schema nor an '%import' of THIS load is a class of its own: the
    known implementer-table leak (C12-import-leak-accepts) needs the later load to define the type name itself"""
    if got == "ok" and exp == "reject" and why == "unknown-type":
        return "C12:history:unimported-type-accepted"
    return "C12:history:%s-expected-%s%s" % (got, exp, ":after-import" if leaked else "")


def _vocabulary(schema):
    """what the application's schema object offers to a load: its type names and the components it has recorded"""
    return sorted(schema.gettypenames()), sorted(schema._components)


def _check_vocabulary(ctx, schema, vocab, rep, history):
    """'%import' extends the vocabulary of that load only: the schema object handed to the load has the same type names and
    components afterwards (which implementers an abstract type lists is the separate known finding C13-implementers-leak)"""
    now = _vocabulary(schema)
    if now != vocab:
        r = dict(rep)
        r.update({"loads_so_far": [list(h) for h in history], "type_names_before": vocab[0], "type_names_after": now[0],
                  "components_before": vocab[1], "components_after": now[1]})
        ctx.violate("after the loads %r the application's schema object knows the type names %r / components %r it did not have before"
                    % ([list(h) for h in history], sorted(set(now[0]) - set(vocab[0])), sorted(set(now[1]) - set(vocab[1]))), r,
                    signature="C12:history:schema-vocabulary-grew")
        return False
    return True


def _import_histories(ctx, pk):
    """'%import' extends the vocabulary of that load only, whatever the load imported and in which order - including
    '%import's that add nothing because the schema itself imports the component.  Three flat packages PA, PB, PC (one implementer
    each) and one that imports PC; schemas importing none, one or two of them at schema level; first load = every sequence of
    '%import' lines (length 1..3 quick, ..4 thorough, repetitions included) followed by one section per type then visible;
    then, ON THE SAME SCHEMA OBJECT, three probe loads per package type: the type alone, the type before its '%import', the
    type after its '%import'.  Oracle: the statement (expected_why), the same text on a fresh schema object, the model on the
    fresh schema, and the schema object's vocabulary after every load."""
    import itertools
    abss = ["plug"]
    own = F.TypeD("own0", [F.KeyD("k", "string")], implements="plug")
    impl = {"own0": "plug"}
    pkgs = []
    for stem in ("pa", "pb", "pc"):
        ty = [F.TypeD(stem + "0", [], implements="plug")]
        pkgs.append((pk.add_component(ty), ty, ()))
    tyd = [F.TypeD("pd0", [], implements="plug")]
    pkgs.append((pk.add_component(tyd, imports=(pkgs[2][0],)), tyd, (pkgs[2][0],)))
    PA, PB, PC, PD = [e[0] for e in pkgs]
    flat = pkgs[:3]
    bad = {}
    maxlen = 4 if ctx.thorough() else 3
    for simports, avail in (((), flat), ((PA,), flat), ((PB, PA), flat), ((PA,), pkgs), ((PD,), pkgs)):
        sd = F.SchemaD([F.SectD("plug", "*", True, False, "plugs")], [F.AbsD("plug"), own], imports=simports)
        elab = world_elab(sd, abss, impl, pkgs)
        if not cfgstream.check_digest(ctx, sd, F.load_real(sd), elab):
            continue
        ctx.count("histories:schema-imports-%d" % len(simports))
        nested = avail is pkgs
        names = [e[0] for e in avail]
        static = static_closure(abss, impl, pkgs, simports)[0]
        seqs = [q for n in range(1, (maxlen if not nested else 2) + 1) for q in itertools.product(names, repeat=n)]
        probes = []
        for e in avail:
            t = e[1][0].name
            probes.append((e[0], [["<%s/>" % t], ["<%s/>" % t, "%import " + e[0]], ["%import " + e[0], "<%s/>" % t]]))
        texts = {}
        for q in seqs:
            vis, imported = dict(static), set()
            first = []
            for p in q:
                first.append("%import " + p)
                _import_into({e[0]: e for e in pkgs}, abss, vis, imported, [], p)
            first += ["<%s/>" % t for t in vis if vis[t]]
            texts[q] = first
        # the model (flat packages only) on a fresh schema, one batch
        model = {}
        if ctx.driver_ok and not nested:
            mp = [pkggen.model_pkg(e[0], e[1], elab) for e in flat]
            uniq = [list(x) for x in sorted({tuple(t) for t in texts.values()} | {tuple(t) for _, ps in probes for t in ps})]
            for t, a in zip(uniq, core.driver_batch([cfgrun.model_load_request(elab, t, cfgstream.URL, pkgs=mp) for t in uniq])):
                m = cfgrun.canon_model(a)
                model[tuple(t)] = "ok" if m[0] == "ok" else "reject" if m[0] == "cfg" else m[0]
        fresh_memo = {}

        def fresh(t):
            k = tuple(t)
            if k not in fresh_memo:
                o, _, _ = cfgrun.real_load(F.load_real(sd), "\n".join(t) + "\n", cfgstream.URL, reuse=False)
                fresh_memo[k] = ("ok" if o[0] == "ok" else "reject" if o[0] == "cfg" else o[0]), o[:2]
            return fresh_memo[k]
        for q in seqs:
            for pname, ps in probes:
                real = F.load_real(sd)
                vocab = _vocabulary(real)
                history = []
                for t in [texts[q]] + ps:
                    exp, why = expected_why(abss, [], impl, pkgs, bad, t, None, simports)
                    out, _, _ = cfgrun.real_load(real, "\n".join(t) + "\n", cfgstream.URL, reuse=False)
                    got = "ok" if out[0] == "ok" else "reject" if out[0] == "cfg" else out[0]
                    gotf, fo = fresh(t)
                    ctx.evaluations += 1
                    ctx.count("histories:expected:" + exp)
                    if any(p in simports for p in q):
                        ctx.count("histories:no-op-import-in-first-load")
                    ctx.nontriv(("import-history", simports, q, pname, tuple(t)))
                    rep = {"schema_xml": F.render_xml(sd), "schema_level_imports": list(simports), "lines": t,
                           "packages": {e[0]: [F.render_xml(F.SchemaD([], e[1]), "component"), list(e[2])] for e in pkgs},
                           "history": [list(h) for h in history], "expected": exp, "why": why, "reused_schema": out[:2], "fresh_schema": fo}
                    mm = model.get(tuple(t))
                    if mm is not None and mm != gotf and not history:
                        ctx.disagree("import-history", rep, fo, mm)
                    if gotf != exp and gotf in ("ok", "reject"):
                        ctx.violate("fresh schema (importing %r itself): %r gives %s, the implementer rules give %s" % (list(simports), t, gotf, exp), rep,
                                    signature="C12:fresh:%s-expected-%s" % (gotf, exp))
                    elif got != exp and got in ("ok", "reject"):
                        ctx.violate("schema importing %r itself, after the loads %r: %r gives %s, against a fresh schema %s"
                                    % (list(simports), [list(h) for h in history], t, got, gotf), rep,
                                    signature=_history_signature(got, exp, why, bool(history)))
                    history.append(t)
                    _check_vocabulary(ctx, real, vocab, rep, history)
        ctx.sample({"schema_level_imports": list(simports), "first_load": texts[seqs[-1]], "probes": probes[-1][1]})


def _directed_imports(ctx, pk):
    """(a) '%import' only EXTENDS the vocabulary: a component defining a type name the schema already has is refused - also when
    the schema's type has no keys or sections at all - and the abstract slot keeps admitting exactly the declared implementers;
    (b) 'extends the vocabulary of that load only' on one loader object: a component that fails half-way (malformed XML after
    its first implementer) leaves no implementer behind for the next load of that loader"""
    import io
    import os
    import ZConfig
    from ZConfig.loader import ConfigLoader
    # (a)
    for own in ("<sectiontype name='marker' implements='plugin'/>", "<sectiontype name='marker' implements='plugin'><key name='own'/></sectiontype>"):
        xml = "<schema><abstracttype name='plugin'/>%s<multisection type='plugin' name='*' attribute='plugins'/></schema>" % own
        clash = pk.add_component([])
        with open(os.path.join(pk.root, clash, "component.xml"), "w") as f:
            f.write("<component><sectiontype name='Marker'><key name='x'/></sectiontype></component>")
        for text in ("%%import %s\n<marker/>\n" % clash, "%%import %s\n<marker>\n x 1\n</marker>\n" % clash):
            out, cfg, _ = cfgrun.real_load(ZConfig.loadSchemaFile(io.StringIO(xml)), text, cfgstream.URL, reuse=False)
            ctx.evaluations += 1
            ctx.nontriv(("import-redefines", own, text))
            if out[0] == "ok":
                ctx.violate("'%%import' of a component that defines the type name 'marker' again (without 'implements') was accepted over the "
                            "schema's own implementer %s: the slot of 'plugin' then admits the component's type" % own,
                            {"schema_xml": xml, "component_xml": "<component><sectiontype name='Marker'><key name='x'/></sectiontype></component>",
                             "text": text}, signature="C12:import-redefinition:accepted")
    # (b)
    xml = "<schema><abstracttype name='plugin'/><multisection type='plugin' name='*' attribute='plugins'/></schema>"
    for kind, body in (("malformed-xml", "<component><sectiontype name='halfread' implements='plugin'><key name='k'/></sectiontype><oops</component>"),
                       ("schema-error", "<component><sectiontype name='halfread' implements='plugin'><key name='k'/></sectiontype><sectiontype name='x' extends='nosuch'/></component>")):
        broken = pk.add_component([])
        with open(os.path.join(pk.root, broken, "component.xml"), "w") as f:
            f.write(body)

        def outcome(loader, text):
            try:
                cfg, _ = loader.loadFile(io.StringIO(text), cfgstream.URL)
                return "ok:%d" % len(cfg.plugins)
            except ZConfig.ConfigurationError:
                return "rejected"
            except Exception as e:
                return "raised:" + type(e).__name__
        texts = ["%%import %s\n<halfread/>\n" % broken, "<halfread/>\n", "%%import %s\n<halfread/>\n" % broken, "<halfread>\n k v\n</halfread>\n"]
        ld = ConfigLoader(ZConfig.loadSchemaFile(io.StringIO(xml)))
        reused = [outcome(ld, t) for t in texts]
        fresh = [outcome(ConfigLoader(ZConfig.loadSchemaFile(io.StringIO(xml))), t) for t in texts]
        ctx.evaluations += len(texts)
        ctx.nontriv(("half-read-component", kind))
        if reused != fresh:
            ctx.violate("a component that fails half-way (%s): on one loader the loads %r give %r, with fresh loaders %r - the half-read "
                        "implementer stayed in the loader's vocabulary" % (kind, texts, reused, fresh),
                        {"schema_xml": xml, "component_xml": body, "texts": texts, "reused": reused, "fresh": fresh},
                        signature="C12:half-read-component:vocabulary-kept")


# --- the NAMES component packages carry.  A '%import' (and a schema-level <import package=…/>) is refused for names that are
# not importable packages providing a component - and for no others: which names are importable packages is the import
# system's business, and it serves every dotted name whose components are identifiers (PEP 3131: letters of any script),
# sub-packages included.  One class per row: (what decorates the generated top-level name, a sub-package name of the class).
_NAME_CLASSES = (
    ("ascii-lower", ("", ""), "sub1"),
    ("ascii-mixed-case", ("Zc", "Q"), "SubPkg"),
    ("underscores", ("_", "__x"), "_priv"),
    ("latin-1", ("\u00fc", "\u00e9"), "\u00fcber"),
    ("latin-extended", ("\u017e", "\u0142"), "vid\u017eety"),
    ("greek", ("\u03c0\u03b1\u03ba", "\u03b1"), "\u03c0\u03b1\u03ba\u03ad\u03c4\u03bf"),
    ("cyrillic", ("\u0432\u0438\u0434", "\u044b"), "\u0432\u0438\u0434\u0436\u0435\u0442\u044b"),
    ("cjk", ("\u90e8\u4ef6", ""), "\u90e8\u4ef6"),
    ("non-ascii-digit", ("n", "\u0663"), "v\u0663"),
)


def _legal_component(seg):
    """a name `import <seg>` in a source file looks up as it stands: an identifier, not a keyword, its own NFKC form"""
    import keyword
    import unicodedata
    return seg.isidentifier() and not keyword.iskeyword(seg) and unicodedata.normalize("NFKC", seg) == seg


def _is_component_package(name):
    """the import system's own answer (independent of the library): the name imports, is a package, and one of its
    directories holds a component.xml"""
    import importlib
    import os
    try:
        m = importlib.import_module(name)
    except Exception:
        return False
    return hasattr(m, "__path__") and any(os.path.isfile(os.path.join(d, "component.xml")) for d in m.__path__)


def _package_names(ctx, pk):
    """component packages under every class of legal package name (_NAME_CLASSES), flat and as sub-packages of plain packages
    of another class (quick: each class once flat and once as a sub-package; thorough: also three levels and more pairings).
    Per package P (one implementer, one non-implementer): the texts that import it before / after / twice / through a
    definition / not at all, a second (plainly named) component that itself imports P, the schema importing P itself, and
    the names of the same class that are NOT importable component packages (sibling that does not exist, missing sub-package,
    missing parent, the plain parent package, a module, empty components).  Loads run in sequences of up to 4 on one schema
    object and on a fresh one.  Oracle: the statement (expected_why), the model on the fresh schema, the schema object's
    vocabulary after every load."""
    rng = ctx.rng
    abss = ["plug"]
    own = [F.AbsD("plug"), F.TypeD("own0", [F.KeyD("k", "string")], implements="plug"), F.TypeD("ext0", [], extends="own0")]
    impl = {"own0": "plug", "ext0": None}
    con = ["own0", "ext0"]

    def top(cls):
        return cls[1][0] + pk.fresh_name("zcvn") + cls[1][1]

    plans = []          # (class of the package's own name, shape, name components, their classes)
    for cls in _NAME_CLASSES:
        plans.append((cls, "flat", [top(cls)], [cls[0]]))
        parent = rng.choice(_NAME_CLASSES)
        plans.append((cls, "sub-package", [top(parent), cls[2]], [parent[0], cls[0]]))
    if ctx.thorough():
        for cls in _NAME_CLASSES:
            for parent in _NAME_CLASSES:
                plans.append((cls, "sub-package", [top(parent), cls[2]], [parent[0], cls[0]]))
            mid, up = rng.choice(_NAME_CLASSES), rng.choice(_NAME_CLASSES)
            plans.append((cls, "sub-sub-package", [top(up), mid[2], cls[2] + "_3"], [up[0], mid[0], cls[0]]))
    for n, (cls, shape, parts, pclasses) in enumerate(plans):
        cname = ".".join(pclasses)
        if not all(_legal_component(x) for x in parts):
            ctx.count("pkgname:skipped-not-a-legal-name")
            continue
        P = ".".join(parts)
        ptypes = [F.TypeD("pt%d" % n, [], implements="plug"), F.TypeD("pn%d" % n, [])]
        try:
            pk.add_named_component(P, ptypes)
            if not _is_component_package(P):
                raise OSError("not served by the import system")
        except (OSError, UnicodeError):
            ctx.count("pkgname:skipped-host-cannot-store-the-name")      # a file system that cannot hold the name
            continue
        qtypes = [F.TypeD("qt%d" % n, [], implements="plug")]
        Q = pk.add_named_component(pk.fresh_name("zcvq"), qtypes, imports=(P,))
        pkgs = [(P, ptypes, ()), (Q, qtypes, (P,))]
        # names of the same class that are not importable component packages
        bad = {"missing": P + (cls[1][1] or cls[1][0] or "x"), "missing-child": P + "." + cls[2] + "_none",
               "missing-parent": top(cls) + "." + parts[-1], "nocomp": pk.add_named_component(top(cls)),
               "module": pk.add_named_component(top(cls), module=True)}
        if len(parts) > 1:
            bad["plain-parent"] = ".".join(parts[:-1])
        illegal = [P + ".", "." + P, parts[0] + ".." + parts[-1]]
        stale = [b for b in bad.values() if _is_component_package(b)]
        if stale:       # cannot happen by construction; never let a wrong expectation through
            raise AssertionError("generated 'bad' names are importable component packages: %r" % stale)
        pt, pn, qt = ptypes[0].name, ptypes[1].name, qtypes[0].name
        for c in set(pclasses):
            ctx.count("pkgname:class:" + c)
        ctx.count("pkgname:shape:" + shape)
        texts = [["%import " + P, "<%s/>" % pt],
                 ["<%s/>" % pt, "%import " + P],
                 ["<own0/>", "%import " + P, "<%s/>" % pt, "%import " + P, "<%s x1/>" % pt.upper()],
                 ["%import " + P, "<%s/>" % pn],
                 ["%import " + P, "<ext0/>"],
                 ["%define zpk " + P, "%import " + rng.choice(["$zpk", "${ZPK}"]), "<%s/>" % pt],
                 ["<%s/>" % pt],
                 ["%import " + Q, "<%s/>" % pt, "<%s/>" % qt],
                 ["<%s/>" % qt, "%import " + Q]]
        texts += [["%import " + b, "<own0/>"] for b in list(bad.values()) + illegal]
        rng.shuffle(texts)
        for simports in ((), (P,), (Q,)):
            sd = F.SchemaD([F.SectD("plug", "*", True, False, "plugs"), F.KeyD("plain", "string")], own, imports=simports)
            try:
                real = F.load_real(sd)
            except Exception as e:
                ctx.evaluations += 1
                ctx.violate("a schema importing the component package %r (%s name, %s; an importable package providing a component) "
                            "was refused: %s: %s" % (P, cname, shape, type(e).__name__, e),
                            {"schema_xml": F.render_xml(sd), "package": P, "name_class": cname, "shape": shape,
                             "packages": {e2[0]: [F.render_xml(F.SchemaD([], e2[1]), "component"), list(e2[2])] for e2 in pkgs}},
                            signature="C12:package-name:schema-level-import-refused")
                continue
            elab = world_elab(sd, abss, impl, pkgs)
            if not cfgstream.check_digest(ctx, sd, real, elab):
                continue
            use = texts if not simports else texts[:6] + [["<%s/>" % pt], ["<%s/>" % pn]]
            model = {}
            if ctx.driver_ok and not simports:
                mp = [pkggen.model_pkg(P, ptypes, elab)] + [[b, core.sexp.Atom("illegalname")] for b in illegal] + \
                     [[b, core.sexp.Atom({"nocomp": "nocomponent", "plain-parent": "nocomponent", "module": "notpackage"}.get(k, "notimportable"))]
                      for k, b in bad.items()]
                flat = [t for t in use if not any(Q in l for l in t)]      # the model's packages do not import packages
                for t, a in zip(flat, core.driver_batch([cfgrun.model_load_request(elab, t, cfgstream.URL, pkgs=mp) for t in flat])):
                    m = cfgrun.canon_model(a)
                    model[tuple(t)] = "ok" if m[0] == "ok" else "reject" if m[0] == "cfg" else m[0]
            vocab = _vocabulary(real)
            history = []
            for t in use:
                exp, why = expected_why(abss, con, impl, pkgs, bad, t, None, simports)
                out, _, _ = cfgrun.real_load(real, "\n".join(t) + "\n", cfgstream.URL, reuse=False)
                fo, _, _ = cfgrun.real_load(F.load_real(sd), "\n".join(t) + "\n", cfgstream.URL, reuse=False)
                got = "ok" if out[0] == "ok" else "reject" if out[0] == "cfg" else out[0]
                gotf = "ok" if fo[0] == "ok" else "reject" if fo[0] == "cfg" else fo[0]
                ctx.evaluations += 1
                ctx.count("pkgname:expected:" + exp)
                ctx.nontriv(("package-name", P, simports, tuple(t)))
                rep = {"schema_xml": F.render_xml(sd), "schema_level_imports": list(simports), "lines": t, "package": P,
                       "name_class": cname, "shape": shape, "layout": {k: pk.layout.get(k) for k in [P, Q] + list(bad.values())},
                       "packages": {e[0]: [F.render_xml(F.SchemaD([], e[1]), "component"), list(e[2])] for e in pkgs},
                       "not_component_packages": dict(bad), "history": [list(h) for h in history], "expected": exp, "why": why,
                       "reused_schema": out[:2], "fresh_schema": fo[:2]}
                mm = model.get(tuple(t))
                if mm is not None:
                    ctx.count("pkgname:model-compared")
                    if mm != gotf:
                        ctx.disagree("package-name", rep, fo[:3], mm)
                if gotf != exp and gotf in ("ok", "reject"):
                    ctx.violate("component package %r (%s name, %s), fresh schema importing %r itself: %r gives %s %r, the implementer "
                                "rules give %s" % (P, cname, shape, list(simports), t, gotf, fo[1:3], exp), rep,
                                signature="C12:package-name:fresh:%s-expected-%s" % (gotf, exp))
                elif got != exp and got in ("ok", "reject"):
                    leaked = any(l.startswith("%import") for h in history for l in h)
                    ctx.violate("component package %r (%s name, %s), after the loads %r: %r gives %s, against a fresh schema %s"
                                % (P, cname, shape, [list(h) for h in history], t, got, gotf), rep,
                                signature=_history_signature(got, exp, why, leaked))
                history.append(t)
                _check_vocabulary(ctx, real, vocab, rep, history)
                if len(history) >= 4:
                    history = []
                    real = F.load_real(sd)
                    vocab = _vocabulary(real)
        if n % 6 == 0:
            ctx.sample({"package": P, "name_class": cname, "shape": shape, "lines": texts[0],
                        "expected": expected(abss, con, impl, pkgs, bad, texts[0])})


RULE += ("; component packages under every class of legal package name (ASCII lower / mixed case / underscores, Latin-1, Latin "
         "extended, Greek, Cyrillic, CJK identifiers, non-ASCII digits), flat and as sub-packages of plain packages of another class: "
         "'%import' before / after / twice / through a definition / not at all, a component importing the package, the schema "
         "importing it, and the same-class names that are not importable component packages (missing sibling / child / parent, "
         "plain parent, module, empty components)")
