"""C13 — a schema object can be reused indefinitely: loads neither depend on nor alter it"""
from .. import cfggen, cfgrun, cfgstream, core, ovgen, pkggen, schemafam as F
from ..sexp import enc

RULE = ("per generated schema a sequence of operations {load valid text, load invalid text (syntax / matching / conversion / "
        "section-datatype fault), load with %import of a generated component, load with overrides, mutate every list and dict "
        "reachable from the returned configuration} against ONE schema object; each load is repeated against a freshly loaded "
        "copy of the schema and the outcomes compared; the structural digest of the reused schema (types, implementers, keys, "
        "defaults) is compared with its initial value after every operation. non-trivial = sequence with >= 2 loads; distinct "
        "by (schema, sequence)")

import zcvdt  # noqa: E402


def mutate(v, depth=0):
    """mutate every list / dict reachable from a configuration value"""
    n = 0
    if isinstance(v, zcvdt.Wrapped):
        return mutate(v.inner, depth + 1)
    if hasattr(v, "getSectionAttributes"):
        for a in v.getSectionAttributes():
            n += mutate(getattr(v, a), depth + 1)
        return n
    if isinstance(v, list):
        for x in list(v):
            n += mutate(x, depth + 1)
        v.append("MUTATED")
        v.reverse()
        return n + 1
    if isinstance(v, dict):
        for x in list(v.values()):
            n += mutate(x, depth + 1)
        v["MUTATED"] = "MUTATED"
        return n + 1
    return n


def sdigest(schema):
    """the structural digest as text; a schema object whose description can no longer even be read (a default that is no
    longer a ValueInfo, ...) has certainly changed"""
    try:
        return enc(F.digest(schema))
    except Exception as e:
        return "undigestible:%s:%s" % (type(e).__name__, e)


def run(ctx):
    obligations, discharged, names = core.standard_prelude(ctx, ["ZCV.Props.C13"])
    rng = ctx.rng
    pk = pkggen.PkgRoot()
    nschemas = 400 if ctx.thorough() else 90
    maxops = 8 if ctx.thorough() else 5
    try:
        for _ in range(nschemas):
            sd, real, elab, hn = cfgstream.make_schema(rng, False)
            if not cfgstream.check_digest(ctx, sd, real, elab):
                continue
            d0 = sdigest(real)
            abss = [n for n, te in elab[1] if te[0] == "abstract"]
            pkg = None
            if abss:
                pkg = pk.add_component([F.TypeD("imp%d" % rng.randint(0, 9), [F.KeyD("k", "string")], implements=rng.choice(abss))])
            seq = []
            nloads = 0
            prev = None
            for _ in range(rng.randint(2, maxops)):
                kind = rng.choice(["valid", "valid", "invalid", "import", "overrides", "mutate", "repeat", "sparse"])
                items = cfggen.gen_items(rng, elab, None, 3, pfill=0.2 if kind == "sparse" else 0.75)
                ovs = ()
                if kind == "invalid":
                    cfggen.apply_fault(rng, elab, items, rng.choice(cfggen.FAULTS))
                lines = cfggen.render_lines(rng, items)
                if kind == "repeat" and prev is not None:
                    lines = list(prev)      # the same text again (defaults are used again for the same omitted keys)
                if kind == "import":
                    if pkg is None:
                        continue
                    lines.insert(rng.randint(0, len(lines)), "%import " + pkg)
                if kind == "overrides":
                    ovs = tuple(s for s in ovgen.gen_overrides(rng, elab, items, 2, pweird=0.0) if "=" in s)
                prev = lines
                text = "\n".join(lines) + "\n"
                out, cfg, h = cfgrun.real_load(real, text, cfgstream.URL, ovs)
                outf, cfgf, hf = cfgrun.real_load(F.load_real(sd), text, cfgstream.URL, ovs)
                ctx.evaluations += 1
                nloads += 1
                ctx.count("op:" + kind)
                ctx.count("outcome:" + out[0])
                seq.append({"op": kind, "lines": lines, "overrides": list(ovs), "outcome": out[:3]})
                rep = {"schema_xml": F.render_xml(sd), "sequence": seq, "fresh_outcome": outf[:3],
                       "package": F.render_xml(F.SchemaD([], []), "component") if pkg is None else pkg}
                same = out[0] == outf[0] and (out[0] != "ok" or cfgrun.describe(cfg) == cfgrun.describe(cfgf)) and \
                    (out[0] != "cfg" or out[1:4] == outf[1:4])
                if not same:
                    after_import = any(s["op"] == "import" for s in seq[:-1])
                    ctx.violate("operation %d (%s) gives %s on the reused schema and %s on a fresh one" % (len(seq), kind, out[:3], outf[:3]),
                                rep, signature="C13:outcome-depends-on-history" + (":after-import" if after_import else ""))
                if kind == "mutate" or rng.random() < 0.6:
                    if cfg is not None:
                        ctx.count("mutated-containers", mutate(cfg))
                        seq.append({"op": "mutated the returned configuration"})
                d1 = sdigest(real)
                if d1 != d0:
                    only_subtypes = (not d1.startswith('undigestible')) and _only_subtypes_differ(F.digest(real), F.digest(F.load_real(sd)))
                    imp = any(s.get("op") == "import" for s in seq)
                    ctx.violate("the schema's own description changed after %d operations" % len(seq), rep,
                                signature="C13:digest:" + ("abstract-implementers-grow-after-import" if only_subtypes and imp else "changed"))
                    real = F.load_real(sd)
                    d0 = sdigest(real)
            if nloads >= 2:
                ctx.nontriv((id(sd), len(seq)))
            if seq:
                ctx.sample({"sequence": [s.get("op") for s in seq]}, cap=4)
        # directed replay of the listed finding (and regression witness): one %import of an implementer
        sd = F.SchemaD([F.SectD("ab0", "*", True, False, "s_ab0")], [F.AbsD("ab0")])
        pa = pk.add_component([F.TypeD("leak", [], implements="ab0")])
        real = F.load_real(sd)
        d0 = sdigest(real)
        lines = ["%import " + pa, "<leak/>"]
        out, _, _ = cfgrun.real_load(real, "\n".join(lines) + "\n", cfgstream.URL)
        ctx.evaluations += 1
        if sdigest(real) != d0:
            ctx.violate("the schema's own description changed after a load with %import",
                        {"schema_xml": F.render_xml(sd), "sequence": [{"op": "import", "lines": lines, "outcome": out[:2]}],
                         "subtypes_after": cfgrun.subtypes_table(real)},
                        signature="C13:digest:abstract-implementers-grow-after-import")
    finally:
        pk.close()
    return core.finish(ctx, obligations, discharged, names, RULE,
                       "lake build ZCV.Props.C13 && lake env lean ZCV/Audit/C13.lean",
                       ["digest = harness/zcv/schemafam.py:digest (types, children, key/attribute maps, defaults, implementers, components)"])


def _only_subtypes_differ(a, b):
    import copy
    a, b = copy.deepcopy(a), copy.deepcopy(b)
    for d in (a, b):
        for n, te in d[1]:
            if te[0] == "abstract":
                te[2] = []
    return enc(a) == enc(b)
