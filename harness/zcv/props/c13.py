"""C13 — a schema object can be reused indefinitely: loads neither depend on nor alter it"""
import os

from .. import cfggen, cfgrun, cfgstream, core, ovgen, pkggen, schemafam as F
from ..sexp import enc

RULE = ("per generated schema a sequence of operations {load valid text, load invalid text (syntax / matching / conversion / "
        "section-datatype fault), load with %import of a generated component (an implementer of one of the schema's abstract types: "
        "imported only, imported and its section type used, a component that registers the implementer and then fails), load of a "
        "text that uses the imported section type WITHOUT the %import line (after an importing load in most such histories), load "
        "with overrides, mutate every list and dict reachable from the returned configuration} against ONE schema object; each "
        "load is repeated against a freshly loaded copy of the schema and the outcomes compared; the structural digest of the reused schema (types, implementers, keys, "
        "defaults) is compared with its initial value after every operation. non-trivial = sequence with >= 2 loads; distinct "
        "by (schema, sequence)")

import zcvdt  # noqa: E402


def mutate(v, depth=0):
    """mutate every list / dict reachable from a configuration value"""
    n = 0
    if isinstance(v, zcvdt.Wrapped):
        return mutate(v.inner, depth + 1)
    if hasattr(v, "getSectionAttributes"):
        for a in v.getSectionAttributes():
            n += mutate(getattr(v, a), depth + 1)
        return n
    if isinstance(v, list):
        for x in list(v):
            n += mutate(x, depth + 1)
        v.append("MUTATED")
        v.reverse()
        return n + 1
    if isinstance(v, dict):
        for x in list(v.values()):
            n += mutate(x, depth + 1)
        v["MUTATED"] = "MUTATED"
        return n + 1
    return n


KINDS = ["valid", "valid", "invalid", "import", "overrides", "mutate", "repeat", "sparse"]


def _uses_type(items, tyname):
    return any(it[0] == "sect" and (it[1].lower() == tyname or _uses_type(it[3], tyname)) for it in items)


def _items_using(rng, elab_ext, tyname):
    """a conforming item list over the vocabulary of the schema extended by the component, if possible one in which a
    section of the imported type occurs (at any depth)"""
    for _ in range(8):
        items = cfggen.gen_items(rng, elab_ext, None, 3, pfill=0.9)
        if _uses_type(items, tyname):
            break
    return items


def sdigest(schema):
    """the structural digest as text; a schema object whose description can no longer even be read (a default that is no
    longer a ValueInfo, ...) has certainly changed"""
    try:
        # plus the lookup tables behind getinfo() / the duplicate checks, which extending types copy
        maps = []
        for t in [schema] + [schema.gettype(n) for n in schema.gettypenames()]:
            if hasattr(t, "_keymap"):
                maps.append([getattr(t, "name", None), sorted(t._keymap), sorted(t._attrmap)])
        return enc(F.digest(schema)) + repr(maps)
    except Exception as e:
        return "undigestible:%s:%s" % (type(e).__name__, e)


def run(ctx):
    obligations, discharged, names = core.standard_prelude(ctx, ["ZCV.Props.C13"])
    rng = ctx.rng
    pk = pkggen.PkgRoot()
    nschemas = 1000 if ctx.thorough() else 250      # (the streams of this check cost about 4 ms per operation)
    maxops = 8 if ctx.thorough() else 5
    try:
        for _ in range(nschemas):
            sd, real, elab, hn = cfgstream.make_schema(rng, False)
            if not cfgstream.check_digest(ctx, sd, real, elab):
                continue
            d0 = sdigest(real)
            abss = [n for n, te in elab[1] if te[0] == "abstract"]
            pkg = pkgbad = impname = elab_ext = None
            pkgxml = {}
            if abss:
                # a component with one more implementer of an abstract type of the schema - preferably one that some
                # section slot accepts, so that texts can USE the imported type - and a second component that registers
                # the same implementer and then fails (the second type implements an abstract type nobody declared)
                slotted = sorted({info[5] for ch in [elab[2][4]] + [te[1][4] for _, te in elab[1] if te[0] == "concrete"]
                                  for _, info in ch if info[0] == "sect" and info[5] in abss})
                impname = "imp%d" % rng.randint(0, 9)
                impd = F.TypeD(impname, [F.KeyD("k", "string")], implements=rng.choice(slotted or abss))
                pkg = pk.add_component([impd])
                pkgbad = pk.add_component([impd, F.TypeD("impbroken", [], implements="nosuchabstract")])
                for p in (pkg, pkgbad):
                    pkgxml[p] = open(os.path.join(pk.root, p, "component.xml")).read()
                # what the schema is for a load that has imported the component: texts over THIS vocabulary use the imported type
                elab_ext = F.elaborate(F.SchemaD(sd.children, sd.types + [impd], sd.keytype, sd.datatype, sd.handler))
            plan = [rng.choice(KINDS) for _ in range(rng.randint(2, maxops))]
            if pkg is not None and rng.random() < 0.6:
                # histories in which a load imports (or tries to import) the implementer and a LATER load uses the imported
                # section type without the %import line, anywhere among the other operations
                del plan[6:]        # (the quantifier: up to 8 operations)
                i = rng.randint(0, len(plan))
                plan.insert(i, rng.choice(["import-use", "import-use", "import-broken"]))
                plan.insert(rng.randint(i + 1, len(plan)), "use-unimported")
            seq = []
            nloads = 0
            prev = None
            for kind in plan:
                ext = kind in ("import-use", "use-unimported")
                if ext:
                    if pkg is None:
                        continue
                    items = _items_using(rng, elab_ext, impname)
                else:
                    items = cfggen.gen_items(rng, elab, None, 3, pfill=0.2 if kind == "sparse" else 0.75)
                ovs = ()
                if kind == "invalid":
                    cfggen.apply_fault(rng, elab, items, rng.choice(cfggen.FAULTS))
                lines = cfggen.render_lines(rng, items)
                uses = ext and _uses_type(items, impname)
                if kind == "repeat" and prev is not None:
                    lines, uses = list(prev[0]), prev[1]      # the same text again (defaults are used again for the same omitted keys)
                if kind in ("import", "import-broken"):
                    if pkg is None:
                        continue
                    lines.insert(rng.randint(0, len(lines)), "%import " + (pkg if kind == "import" else pkgbad))
                if kind == "import-use":
                    # the %import line anywhere before the first header that names the imported type
                    first = min([i for i, l in enumerate(lines) if l.strip().lower().startswith("<" + impname)] or [len(lines)])
                    lines.insert(rng.randint(0, first), "%import " + pkg)
                if kind == "overrides":
                    ovs = tuple(s for s in ovgen.gen_overrides(rng, elab, items, 2, pweird=0.0) if "=" in s)
                prev = (lines, uses)
                text = "\n".join(lines) + "\n"
                # a text that uses the imported type without importing it goes through the module-level entry point: the
                # statement is about the SCHEMA object; a ConfigLoader object that has imported a component keeps it
                unimported = uses and not any(l.strip().startswith("%import") for l in lines)
                out, cfg, h = cfgrun.real_load(real, text, cfgstream.URL, ovs, reuse=False if unimported else None)
                outf, cfgf, hf = cfgrun.real_load(F.load_real(sd), text, cfgstream.URL, ovs)
                ctx.evaluations += 1
                nloads += 1
                ctx.count("op:" + kind)
                ctx.count("outcome:" + out[0])
                if uses:
                    ctx.count("imported-type-used:" + ("without-import" if unimported else "with-import"))
                    if unimported and any(s["op"].startswith("import") for s in seq):
                        ctx.count("imported-type-used:without-import-after-an-importing-load")
                        ctx.nontriv((id(sd), "unimported-use", len(seq)))
                seq.append({"op": kind, "lines": lines, "overrides": list(ovs), "outcome": out[:3]})
                rep = {"schema_xml": F.render_xml(sd), "sequence": list(seq), "fresh_outcome": outf[:3], "packages": pkgxml}
                # errors located in the TEXT are compared with their line; an error located in the schema (an unconvertible
                # schema default) only by kind: the two schema objects may have been delivered as different documents - the
                # reused one as a chain of files (position = line in one of them, with its URL), the fresh one as a single
                # stream without URL (position = line in the schema document, reported under the URL of the text)
                def _in_text(o):
                    return len(o) > 3 and o[3] == cfgstream.URL
                same = out[0] == outf[0] and (out[0] != "ok" or cfgrun.describe(cfg) == cfgrun.describe(cfgf)) and \
                    (out[0] != "cfg" or (out[1] == outf[1] and (out[2] == outf[2] or not (_in_text(out) and _in_text(outf)))))
                if not same:
                    after_import = any(s["op"].startswith("import") for s in seq[:-1])
                    ctx.violate("operation %d (%s) gives %s on the reused schema and %s on a fresh one" % (len(seq), kind, out[:3], outf[:3]),
                                rep, signature="C13:outcome-depends-on-history" + (":after-import" if after_import else "") +
                                (":imported-type-used-without-import" if unimported else ""))
                if kind == "mutate" or rng.random() < 0.6:
                    if cfg is not None:
                        ctx.count("mutated-containers", mutate(cfg))
                        seq.append({"op": "mutated the returned configuration"})
                d1 = sdigest(real)
                if d1 != d0:
                    only_subtypes = (not d1.startswith('undigestible')) and _only_subtypes_differ(F.digest(real), F.digest(F.load_real(sd)))
                    imp = any(s.get("op", "").startswith("import") for s in seq)
                    ctx.violate("the schema's own description changed after %d operations" % len(seq), rep,
                                signature="C13:digest:" + ("abstract-implementers-grow-after-import" if only_subtypes and imp else "changed"))
                    if only_subtypes and imp:
                        # (the listed finding) the history goes on with THIS schema object - what the left-over implementers
                        # do to later loads is part of the property - and further changes are measured against its present state
                        d0 = d1
                    else:
                        real = F.load_real(sd)
                        d0 = sdigest(real)
            if nloads >= 2:
                ctx.nontriv((id(sd), len(seq)))
            if seq:
                ctx.sample({"sequence": [s.get("op") for s in seq]}, cap=4)
        # directed replay of the listed finding (and regression witness): one %import of an implementer
        sd = F.SchemaD([F.SectD("ab0", "*", True, False, "s_ab0")], [F.AbsD("ab0")])
        pa = pk.add_component([F.TypeD("leak", [], implements="ab0")])
        real = F.load_real(sd)
        d0 = sdigest(real)
        lines = ["%import " + pa, "<leak/>"]
        out, _, _ = cfgrun.real_load(real, "\n".join(lines) + "\n", cfgstream.URL)
        ctx.evaluations += 1
        if sdigest(real) != d0:
            ctx.violate("the schema's own description changed after a load with %import",
                        {"schema_xml": F.render_xml(sd), "sequence": [{"op": "import", "lines": lines, "outcome": out[:2]}],
                         "subtypes_after": cfgrun.subtypes_table(real)},
                        signature="C13:digest:abstract-implementers-grow-after-import")
        _mutable_defaults(ctx)
        _directed(ctx, pk)
        _faithful_histories(ctx, pk)
        _component_graphs(ctx, pk)
    finally:
        pk.close()
    return core.finish(ctx, obligations, discharged, names, RULE,
                       "lake build ZCV.Props.C13 && lake env lean ZCV/Audit/C13.lean",
                       ["digest = harness/zcv/schemafam.py:digest (types, children, key/attribute maps, defaults, implementers, components)"])


def _mutable_defaults(ctx):
    """directed: schema defaults whose converted value is a mutable object (string-list: a list) on every kind of item that can
    carry defaults - key, multikey, keyed defaults of '+' key and '+' multikey, at top level and in section types; the text
    leaves them all to their defaults, the application edits what it got, the next load must give what a fresh schema gives"""
    import io
    import ZConfig
    xml = ("<schema>"
           "<sectiontype name='st1'><key name='single' datatype='string-list' default='s t'/>"
           "<multikey name='mk' datatype='string-list'><default>a b</default><default>c</default></multikey>"
           "<key name='+' attribute='m' datatype='string-list'><default key='x'>p q</default><default key='y'>r</default></key></sectiontype>"
           "<sectiontype name='st2'><multikey name='+' attribute='mm' datatype='string-list'><default key='x'>u v</default><default key='x'>w</default></multikey></sectiontype>"
           "<key name='single' datatype='string-list' default='s t'/>"
           "<multikey name='mk' datatype='string-list'><default>a b</default><default>c</default></multikey>"
           "<key name='+' attribute='m' datatype='string-list'><default key='x'>p q</default></key>"
           "<section type='st1' name='*' attribute='s1'/><multisection type='st2' name='*' attribute='s2'/>"
           "</schema>")
    texts = ["<st1/>\n<st2/>\n<st2/>\n", "<st1>\n</st1>\n", "", "<st1/>\n<st2/>\n<st2/>\n", "mk z\n<st1>\n mk z\n</st1>\n", "<st1/>\n<st2/>\n"]
    real = ZConfig.loadSchemaFile(io.StringIO(xml))
    d0 = sdigest(real)
    seq = []
    for i, text in enumerate(texts):
        out, cfg, _ = cfgrun.real_load(real, text, cfgstream.URL)
        outf, cfgf, _ = cfgrun.real_load(ZConfig.loadSchemaFile(io.StringIO(xml)), text, cfgstream.URL)
        ctx.evaluations += 1
        ctx.nontriv(("mutable-defaults", i))
        seq.append({"op": "load", "text": text, "outcome": out[:3]})
        if out[0] != outf[0] or (out[0] == "ok" and cfgrun.describe(cfg) != cfgrun.describe(cfgf)):
            ctx.violate("load %d gives %s on the reused schema and %s on a fresh one (defaults with mutable values, results edited in between)"
                        % (i + 1, cfgrun.describe(cfg) if cfg is not None else out[:3], cfgrun.describe(cfgf) if cfgf is not None else outf[:3]),
                        {"schema_xml": xml, "sequence": seq}, signature="C13:outcome-depends-on-history:mutable-defaults")
            return
        if cfg is not None:
            ctx.count("mutated-containers", mutate(cfg))
            seq.append({"op": "mutated the returned configuration"})
        if sdigest(real) != d0:
            ctx.violate("the schema's own description changed after %d operations (defaults with mutable values)" % len(seq),
                        {"schema_xml": xml, "sequence": seq}, signature="C13:digest:changed")
            return


def _only_subtypes_differ(a, b):
    import copy
    a, b = copy.deepcopy(a), copy.deepcopy(b)
    for d in (a, b):
        for n, te in d[1]:
            if te[0] == "abstract":
                te[2] = []
    return enc(a) == enc(b)


def _directed(ctx, pk):
    """histories that need particular ingredients: a schema that itself imports a component, loads that %import a
    component the schema already has and then another one, components using dotted datatypes whose names differ only in
    letter case, a loader object that is reused after a load whose first %import failed, an implementer of one of the
    schema's abstract types that an earlier load imported (or tried to import: the component fails after registering it)
    and a later load uses without '%import'.  Every step is compared with
    the same step on a freshly loaded copy of the schema, and the schema's description with its initial value."""
    import io
    import os
    import re
    import ZConfig
    from ZConfig.loader import ConfigLoader

    pa = pk.add_component([F.TypeD("dira", [F.KeyD("k", "string")])])
    pb = pk.add_component([F.TypeD("dirb", [F.KeyD("k", "string")])])
    # a datatype module with two names that differ only in letter case
    mod = pk.fresh_name("zcvdtmod")
    open(os.path.join(pk.root, mod + ".py"), "w").write(
        "def size(v):\n    return ('function', v)\n\nclass Size:\n    def __init__(self, v):\n        self.v = v\n"
        "    def __eq__(self, o):\n        return isinstance(o, Size) and o.v == self.v\n    def __repr__(self):\n        return 'Size(%r)' % self.v\n")
    pk.names.append(mod)
    pc = pk.add_component([F.TypeD("dirc", [F.KeyD("k", mod + ".size")], implements="anyt")])
    pd = pk.add_component([F.TypeD("dird", [F.KeyD("k", mod + ".Size")], implements="anyt")])
    xml = ("<schema><import package='%s'/><multisection type='dira' name='*' attribute='a'/>"
           "<multisection type='dirb' name='*' attribute='b'/></schema>")
    # 'dirb' must be a known type for the slot: declare the slot types abstractly instead
    # a component whose type EXTENDS a type of the schema under another key type (the inherited wildcard defaults are then
    # re-normalised for the derived type - which must not touch the base type's own defaults)
    pe = pk.add_component([F.TypeD("dire", [], extends="wbase", keytype="basic-key")])
    xml = ("<schema><import package='%s'/><abstracttype name='anyt'/>"
           "<sectiontype name='wbase' keytype='identifier'><key name='+' attribute='m'><default key='Path'>p</default>"
           "<default key='HOME'>h</default></key></sectiontype>"
           "<multisection type='wbase' name='*' attribute='wbs'/>"
           "<multisection type='dira' name='*' attribute='a'/>"
           "<multisection type='anyt' name='*' attribute='anys'/><key name='plain'/></schema>") % pa

    def fresh():
        return ZConfig.loadSchemaFile(io.StringIO(xml))

    def run(schema, text, loader=None):
        try:
            if loader is not None:
                cfg, _ = loader.loadFile(io.StringIO(text), cfgstream.URL)
            else:
                cfg, _ = ZConfig.loadConfigFile(schema, io.StringIO(text), cfgstream.URL)
            return ["ok", cfgrun.describe(cfg)]
        except ZConfig.ConfigurationError as e:
            return ["cfg", type(e).__name__]
        except Exception as e:
            return ["exc", type(e).__name__]

    # a component whose key names a dotted datatype that cannot be resolved at its LAST part (package and module exist)
    dpk = pk.fresh_name("zcvdtpkg")
    os.makedirs(os.path.join(pk.root, dpk))
    open(os.path.join(pk.root, dpk, "__init__.py"), "w").write("")
    open(os.path.join(pk.root, dpk, "types.py"), "w").write("def port_list(v):\n    return v.split()\n")
    pk.names.append(dpk)
    pm = pk.add_component([])
    with open(os.path.join(pk.root, pm, "component.xml"), "w") as f:
        f.write("<component><sectiontype name='dirm'><key name='k' datatype='%s.types.port_lst'/></sectiontype></component>" % dpk)
    # a component that fails while it is being read (it implements an abstract type nobody declared)
    pbroken = pk.add_component([])
    with open(os.path.join(pk.root, pbroken, "component.xml"), "w") as f:
        f.write("<component><sectiontype name='dirx'><key name='k'/></sectiontype><sectiontype name='diry' implements='nosuchabstract'/></component>")
    # a component that registers an implementer of the schema's abstract type and then fails
    pf = pk.add_component([])
    with open(os.path.join(pk.root, pf, "component.xml"), "w") as f:
        f.write("<component><sectiontype name='dirf' implements='anyt'><key name='k'/></sectiontype>"
                "<sectiontype name='dirg' implements='nosuchabstract'/></component>")
    leaky = ("dotted-datatypes-case", "implementer-imported-then-used-without-import", "implementer-of-failed-component-used")
    histories = {
        "unloadable-dotted-datatype": ["%%import %s\nplain p\n" % pm, "%%import %s\nplain p\n" % pm, "plain q\n",
                                       "%%import %s\nplain r\n" % pm],
        "import-known-then-other": ["%%import %s\n%%import %s\nplain x\n" % (pa, pb), "plain y\n<dira/>\n", "plain z\n%%import %s\n" % pb],
        "dotted-datatypes-case": ["%%import %s\n<dirc>\nk 5\n</dirc>\n" % pc, "%%import %s\n<dird>\nk 7\n</dird>\n" % pd,
                                  "%%import %s\n%%import %s\n<dird>\nk 1\n</dird>\n<dirc>\nk 2\n</dirc>\n" % (pd, pc)],
        "import-deriving-component": ["<wbase/>\n", "%%import %s\nplain x\n" % pe, "<wbase/>\n<wbase x>\nExtra v\n</wbase>\n"],
        "implementer-imported-then-used-without-import": ["%%import %s\n<dirc>\nk 5\n</dirc>\n" % pc, "<dirc>\nk 5\n</dirc>\n", "plain x\n",
                                                          "<dirc a>\n</dirc>\n<dirc b>\n</dirc>\n"],
        "implementer-of-failed-component-used": ["%%import %s\nplain x\n" % pf, "<dirf/>\n", "plain y\n<dirf n>\nk v\n</dirf>\n"],
        "import-then-use-without-import": ["%%import %s\nplain x\n" % pb, "plain y\n", "%%import %s\n<dira/>\n" % pa],
    }
    def comps(texts):
        """the component documents of the generated packages that the texts name"""
        out = {}
        for n in pk.names:
            f = os.path.join(pk.root, n, "component.xml")
            if any(re.search(r"(?<!\w)%s(?!\w)" % re.escape(n), t) for t in texts) and os.path.exists(f):
                out[n] = open(f).read()
        return out

    for hname, texts in histories.items():
        reused = fresh()
        d0 = sdigest(reused)
        for i, t in enumerate(texts):
            a = run(reused, t)
            b = run(fresh(), t)
            ctx.evaluations += 1
            ctx.nontriv(("directed", hname, i))
            if a != b:
                ctx.violate("history %s, load %d: reused schema gives %r, a fresh copy %r" % (hname, i + 1, a, b),
                            {"schema_xml": xml, "texts": texts, "step": i + 1, "reused": a, "fresh": b, "packages": comps(texts + [xml])},
                            signature="C13:directed:" + hname + ":outcome")
                break
            # (components implementing one of the schema's abstract types change its implementer table: the listed
            #  finding C13-implementers-leak, reported by the main stream; not re-reported here)
            if hname not in leaky and sdigest(reused) != d0:
                ctx.violate("history %s: the schema's own description changed after load %d" % (hname, i + 1),
                            {"schema_xml": xml, "texts": texts[: i + 1]}, signature="C13:directed:" + hname + ":digest")
                break
        # what a later load sees must not depend on the history either: the probe text against the used schema and a fresh one
        for probe in ("<dirb/>\n", "plain q\n"):
            a, b = run(reused, probe), run(fresh(), probe)
            ctx.evaluations += 1
            if a != b:
                ctx.violate("after history %s the text %r gives %r on the used schema and %r on a fresh copy" % (hname, probe, a, b),
                            {"schema_xml": xml, "texts": texts, "probe": probe}, signature="C13:directed:" + hname + ":probe")
                break
    # one ConfigLoader object reused after a load whose FIRST %import failed
    for first_step in ("%import zcv_no_such_package_c13\n", "%%import %s\n" % pbroken, "%%import %s\nplain p\n" % pm):
        reused = fresh()
        d0 = sdigest(reused)
        ld = ConfigLoader(reused)
        steps = [first_step, "%%import %s\nplain x\n" % pb, "plain y\n", "%%import %s\n<dira/>\n" % pa]
        for i, t in enumerate(steps):
            a = run(reused, t, loader=ld)
            b = run(fresh(), t)
            ctx.evaluations += 1
            if a != b:
                ctx.violate("reused loader, load %d: %r vs %r on a fresh schema and loader" % (i + 1, a, b),
                            {"schema_xml": xml, "texts": steps, "step": i + 1}, signature="C13:directed:reused-loader:outcome")
                break
            if sdigest(reused) != d0:
                ctx.violate("reused loader: the schema's own description changed after load %d" % (i + 1),
                            {"schema_xml": xml, "texts": steps[: i + 1]}, signature="C13:directed:reused-loader:digest")
                break
        a, b = run(reused, "<dirb/>\n"), run(fresh(), "<dirb/>\n")
        if a != b:
            ctx.violate("after a failed %%import on a reused loader, '<dirb/>' gives %r on the used schema and %r on a fresh copy" % (a, b),
                        {"schema_xml": xml, "texts": steps}, signature="C13:directed:reused-loader:probe")


# ---------------------------------------------------------------------------------------------------------------------
# histories WITH %import against the faithful model (lean/ZCV/Model/History.lean: runHistoryApp)

FAITHFUL_RULE = ("histories with '%import' against the faithful history model (driver op histapp = runHistoryApp): worlds of "
                 "harness/zcv/props/c12.py (abstract slots, 0..2 flat component packages, schema-level imports) plus a component that "
                 "breaks off at a type name it may not define after / before registering implementers, a component whose type has "
                 "the name of another component's implementer without implementing, and a component with its own abstract type; "
                 "3..6 loads per history on one schema object (texts of '%import' and '<type/>' lines, some with overrides, plus "
                 "directed tails that use a leaked type without importing it / import the same-named non-implementer); after "
                 "EVERY load: outcome and value tree real vs model, digest of the real schema object vs the model's application "
                 "schema (exact), and - real against real - the same load on a fresh schema object given the implementer tables "
                 "the used object had (must agree: the history acts through nothing but those tables) and the digest with the "
                 "tables blanked against the fresh digest")


def _blank_tables(d):
    import copy
    d = copy.deepcopy(d)
    for n, te in d[1]:
        if te[0] == "abstract":
            te[2] = []
    return d


def _with_tables(sd, used):
    """a freshly loaded copy of the schema whose abstract types list, in addition, what the used object's abstract types
    list (only names matter to a load; the type objects are taken over from the used object)"""
    fresh = F.load_real(sd)
    for n in used.gettypenames():
        t = used.gettype(n)
        if t.isabstract():
            ft = fresh.gettype(n)
            for k, v in t:
                if not ft.hassubtype(k):
                    ft._subtypes[k] = v
    return fresh


def _faithful_histories(ctx, pk):
    from . import c12
    from ..sexp import Atom
    rng = ctx.rng
    nworlds = 150 if ctx.thorough() else 16
    nhist = 6 if ctx.thorough() else 4
    known_sig = "C13:digest:abstract-implementers-grow-after-import"
    ctx.notes.append(FAITHFUL_RULE)
    for _ in range(nworlds):
        sd, abss, con, impl, pkgs, bad = c12.gen_world(rng, pk)
        if any(e[2] for e in pkgs):
            ctx.count("faithful:world-skipped-nested-components")
            continue                      # the model's packages are flat
        real0 = F.load_real(sd)
        elab = c12.world_elab(sd, abss, impl, pkgs)
        if not cfgstream.check_digest(ctx, sd, real0, elab):
            continue
        pkgs = list(pkgs)
        known_names = set(con) | set(abss) | {t.name for e in pkgs for t in e[1]}
        # a component that breaks off: an implementer, then a name the schema (or a schema-level import) already has, then
        # another implementer that is never reached
        clash_name = rng.choice(con + abss)
        ct = [F.TypeD("cla%d" % rng.randint(0, 2), [], implements=rng.choice(abss)), F.TypeD(clash_name, []),
              F.TypeD("clb", [], implements=rng.choice(abss))]
        if rng.random() < 0.3:
            ct = ct[1:]                   # breaks off at once: nothing is registered
        pkgs.append((pk.add_component(ct), ct, ()))
        # a component with its own abstract type, an implementer of it and an implementer of the schema's
        own = [F.AbsD("pab"), F.TypeD("pown", [], implements="pab"), F.TypeD("papp", [], implements=rng.choice(abss))]
        pkgs.append((pk.add_component(own), own, ()))
        # a component with a type named like another component's implementer, NOT implementing (the C12 known finding)
        impls_of_pkgs = [t.name for e in pkgs for t in e[1] if not t.abstract and t.implements in abss]
        tw = [F.TypeD(rng.choice(impls_of_pkgs), [F.KeyD("twin", "string")])]
        pkgs.append((pk.add_component(tw), tw, ()))
        mp = [pkggen.model_pkg(e[0], e[1], elab) for e in pkgs] + \
             [[bad["nocomp"], Atom("nocomponent")], [bad["module"], Atom("notpackage")],
              [bad["missing"], Atom("notimportable")], ["a..b", Atom("illegalname")], [".x", Atom("illegalname")]]
        slots = [(c.name if c.name not in ("*", "+", None) else None, c.type) for c in sd.children if c.kind == "sect"]
        fixed = [f for f, _ in slots if f]
        gpkgs = [(e[0], [t for t in e[1] if not t.abstract], e[2]) for e in pkgs]      # what the text generator chooses from
        hists = []
        statics = [n for n in con if impl.get(n)]
        twins = [e for e in pkgs if any(t.name in impls_of_pkgs and not t.implements for t in e[1] if not t.abstract)]

        def one_text():
            r = rng.random()
            if r < 0.45:
                # a component, then sections of (some of) the types it brings that implement something
                e = rng.choice(pkgs)
                ts = [t.name for t in e[1] if not t.abstract and t.implements and t.name != "pown"]
                return ["%import " + e[0]] + ["<%s/>" % n for n in rng.sample(ts, min(len(ts), rng.randint(0, 2)))]
            if r < 0.6 and statics:
                return ["<%s/>" % rng.choice(statics) for _ in range(rng.randint(1, 2))]
            if r < 0.75 and twins:
                # the same-named non-implementer: accepted only when an earlier load leaked the name into the table
                e = rng.choice(twins)
                return ["%import " + e[0], "<%s/>" % e[1][0].name]
            if r < 0.85:
                # two components in one load
                a, b = rng.choice(pkgs), rng.choice(pkgs)
                return ["%import " + a[0], "%import " + b[0]] + ["<%s/>" % t.name for t in (a[1] + b[1]) if not t.abstract and t.implements][:2]
            return c12.gen_text(rng, abss, con, impl, gpkgs, bad, fixed)
        for _h in range(nhist):
            texts = [one_text() for _ in range(rng.randint(2, 5))]
            # directed tail: a package type without importing it, then through a component that defines it
            ptypes = sorted({t.name for e in pkgs for t in e[1] if not t.abstract})
            if ptypes and rng.random() < 0.5:
                texts.append(["<%s/>" % rng.choice(ptypes)])
            ovs = [(("plain=ov",) if rng.random() < 0.25 else ()) for _ in texts]
            hists.append((texts, ovs))
        # directed: the implementer's component first, then the same-named non-implementer through its own component, then the
        # implementer's component again (the listed C12 finding: the middle load is accepted on the used object only)
        for e in twins:
            nm = e[1][0].name
            src = [x for x in pkgs if any(t.name == nm and t.implements for t in x[1] if not t.abstract)]
            if src:
                texts = [["%import " + src[0][0]], ["%import " + e[0], "<%s/>" % nm], ["<%s/>" % nm], ["%import " + src[0][0], "<%s/>" % nm]]
                hists.append((texts, [() for _ in texts]))
        # directed: a command-line override that addresses a key of a type only an '%import' of this load brings (the loader sorts
        # override paths by the schema it was created with: refused - the model follows the code, listed under C14), then the same
        # load without the override
        for e in twins[:1]:
            nm = e[1][0].name
            texts = [["%import " + e[0], "<%s>" % nm, "</%s>" % nm], ["%import " + e[0], "<%s>" % nm, "</%s>" % nm]]
            hists.append((texts, [("%s/twin=ov" % nm,), ()]))
            ctx.count("faithful:directed:override-into-imported-type")
        # directed: a load that first names a component the SCHEMA itself imports (nothing to add) and then a new one - the new
        # one must still go into a private copy; afterwards its types are used without importing them
        for sname in list(sd.imports)[:2]:
            others = [e for e in pkgs if e[0] not in sd.imports]
            for e in rng.sample(others, min(2, len(others))):
                ts = [t.name for t in e[1] if not t.abstract and t.implements and t.name != "pown"][:1]
                texts = [["%import " + sname, "%import " + e[0]] + ["<%s/>" % n for n in ts], ["<%s/>" % n for n in ts] or ["plain v"],
                         ["%import " + e[0]] + ["<%s/>" % n for n in ts]]
                hists.append((texts, [() for _ in texts]))
                ctx.count("faithful:directed:schema-level-import-then-new-component")
        if ctx.driver_ok:
            reqs = [[Atom("histapp"), elab, mp, [], [], [], [[cfgstream.URL, list(t), list(o)] for t, o in zip(texts, ovs)]]
                    for texts, ovs in hists]
            answers = core.driver_batch(reqs)
        else:
            answers = [None] * len(hists)
        fresh_digest = enc(_blank_tables(F.digest(real0)))
        for (texts, ovs), ans in zip(hists, answers):
            real = F.load_real(sd)
            done = []
            for i, (t, ov) in enumerate(zip(texts, ovs)):
                text = "\n".join(t) + "\n"
                twin = _with_tables(sd, real)
                before = F.digest(real)
                out, cfg, _ = cfgrun.real_load(real, text, cfgstream.URL, ov, reuse=False)
                outt, cfgt, _ = cfgrun.real_load(twin, text, cfgstream.URL, ov, reuse=False)
                outf, cfgf, _ = cfgrun.real_load(F.load_real(sd), text, cfgstream.URL, ov, reuse=False)
                after = F.digest(real)
                ctx.evaluations += 1
                ctx.count("faithful:outcome:" + out[0])
                if any(l.startswith("%import") for h in done for l in h):
                    ctx.nontriv(("faithful", id(sd), tuple(map(tuple, done)), tuple(t)))
                done.append(list(t))
                rep = {"schema_xml": F.render_xml(sd), "schema_level_imports": list(sd.imports),
                       "packages": {e[0]: F.render_xml(F.SchemaD([], e[1]), "component") for e in pkgs},
                       "history": [list(h) for h in done], "overrides": [list(o) for o in ovs[: i + 1]], "step": i + 1,
                       "reused_schema": out[:4], "fresh_schema_with_the_tables": outt[:4], "fresh_schema": outf[:4],
                       "tables_before": [te for te in before[1] if te[1][0] == "abstract"],
                       "tables_after": [te for te in after[1] if te[1][0] == "abstract"]}

                def same(a, ca, b, cb):
                    return a[:4] == b[:4] and (a[0] != "ok" or cfgrun.describe(ca) == cfgrun.describe(cb))
                # real against real: nothing but the implementer tables changes, and nothing but them acts on a later load
                if enc(_blank_tables(after)) != fresh_digest:
                    ctx.violate("after load %d of the history the schema object differs from a fresh one in more than the implementer "
                                "tables of its abstract types" % (i + 1), rep, signature="C13:faithful:schema-object-changed-beyond-implementers")
                    break
                if not same(out, cfg, outt, cfgt) or enc(F.digest(twin)) != enc(after):
                    ctx.violate("load %d gives %s on the used schema object and %s on a fresh object that was given the same implementer "
                                "tables (or leaves other tables behind): the history acts through something else" % (i + 1, out[:3], outt[:3]),
                                rep, signature="C13:faithful:later-load-influenced-beyond-implementers")
                    break
                # the faithful model on the same step (it is what the listed finding means, load by load)
                m_why, m_schema_ok, mstop = None, True, None
                if ans is not None:
                    if (ans and ans[0] == "bad-request") or i >= len(ans):
                        ctx.disagree("faithful-history", rep, "request", ans[:2])
                        break
                    mo, ms, mstop = ans[i]
                    m = ["ok", mo[1], mo[2]] if mo[0] == "ok" else cfgrun.canon_model(mo)
                    m_why = cfgrun.compare_load(m, out, cfg, None, ())
                    m_schema_ok = enc(ms) == enc(after)
                    rep["model_outcome"] = m[:5]
                    rep["model_stop"] = mstop
                grew = enc(after) != enc(before)
                differs = not same(out, cfg, outf, cfgf)
                if grew:
                    ctx.count("faithful:tables-grew")
                    if out[0] != "ok":
                        ctx.count("faithful:tables-grew-in-a-failed-load")
                if differs and m_why is not None:
                    # the used schema object gives something else than a fresh one, and NOT what the listed finding makes of
                    # this history (the faithful model says otherwise): a failing input of its own
                    ctx.violate("load %d gives %s on the used schema object, %s on a fresh one, and the implementer-table leak does "
                                "not account for it (the faithful history model gives %s)" % (i + 1, out[:3], outf[:3], m[:3]),
                                rep, signature="C13:faithful:outcome-depends-on-history-beyond-the-known-leak")
                    break
                if grew and not m_schema_ok:
                    ctx.violate("after load %d the implementer tables of the schema object are not what the listed finding makes of "
                                "this history (the faithful history model lists %r)"
                                % (i + 1, [te for te in ms[1] if te[1][0] == "abstract"]), rep,
                                signature="C13:faithful:tables-changed-beyond-the-known-leak")
                    break
                if grew or differs:
                    if differs:
                        ctx.count("faithful:outcome-differs-from-fresh(explained-by-the-tables)")
                    # the listed finding (and what follows from it, shown above to go through the tables only)
                    ctx.violate("implementer tables of the application's schema object grow through %import; later loads see them",
                                rep, signature=known_sig)
                if m_why is not None:
                    ctx.disagree("faithful-history:outcome", rep, out[:4], [m_why, m[:5]])
                    break
                if not m_schema_ok:
                    ctx.disagree("faithful-history:schema-object", rep, [te for te in after[1] if te[1][0] == "abstract"],
                                 [te for te in ms[1] if te[1][0] == "abstract"])
                    break
                if mstop is not None and mstop[2] != "none":
                    ctx.count("faithful:model:component-broke-off")
        ctx.sample({"faithful_history": hists[0][0], "schema_level_imports": list(sd.imports)}, cap=16)
def _component_graphs(ctx, pk):
    """histories over component packages that import EACH OTHER.  A world is one schema (an abstract type with a '*' slot;
    sometimes the schema imports one of the packages itself) and 2..4 generated packages whose component.xml files carry
    <import package=...> elements - chains, diamonds, now and then a back edge (mutual imports) - because their section types
    extend, or have sections of, types of the packages they import; sometimes one more package that imports a good one,
    registers an implementer and then fails.  A history is 2..5 (thorough: ..8) loads against ONE schema object through the
    module-level entry point (the statement is about the schema object, not about a loader), each load with 0..3 '%import'
    lines - the same packages as an earlier load in another order, fewer, more, outer before inner and inner before outer,
    repeated - and sections of the packages' types, of packages the text reaches only THROUGH another package's <import>, and
    of packages it does not import at all; some loads fail (unknown key, unclosed section, %import after its use).  Every
    load is repeated on a freshly loaded copy of the schema and the outcomes (value, or error class) compared; the schema's
    description is compared with its initial value after every load (growth of the implementer tables alone is the listed
    finding, reported by the main stream)."""
    import io
    import ZConfig
    rng = ctx.rng
    nworlds = 200 if ctx.thorough() else 40
    maxloads = 8 if ctx.thorough() else 5

    def outcome(schema, text):
        try:
            cfg, _ = ZConfig.loadConfigFile(schema, io.StringIO(text), cfgstream.URL)
            return ["ok", cfgrun.describe(cfg)], cfg
        except ZConfig.ConfigurationError as e:
            return ["cfg", type(e).__name__], None
        except Exception as e:
            return ["exc", type(e).__name__], None

    for w in range(nworlds):
        n = rng.randint(2, 4)
        shape = rng.choice(["chain", "dag", "dag", "cyclic"])
        names = [pk.fresh_name("zcvg") for _ in range(n)]
        imports = {}
        types = {}          # type name -> {"pkg": i, "item": implements the abstract type, "sub": None | type name | "item"}
        pkgxml = {}
        for i in range(n):
            imports[i] = [i - 1] if (shape == "chain" and i) else [j for j in range(i) if rng.random() < 0.6]
            if shape == "cyclic" and i < n - 1 and rng.random() < 0.5:
                imports[i].append(rng.randint(i + 1, n - 1))
            rng.shuffle(imports[i])
            # the types this package may refer to: those of the lower-numbered packages it imports (read before its own types)
            avail = [t for t, d in types.items() if d["pkg"] in imports[i]]
            body = ["  <import package='%s'/>\n" % names[j] for j in imports[i]]
            for s in "ab"[: rng.randint(1, 2)]:
                t = "t%d%s" % (i, s)
                d = {"pkg": i, "item": rng.random() < 0.8, "sub": None}
                attrs, inner = "", "    <key name='k%s' default='d%s'/>\n" % (t, t)
                if avail and rng.random() < 0.35:
                    base = rng.choice(avail)
                    attrs += " extends='%s'" % base
                    d["sub"] = types[base]["sub"]
                elif avail and rng.random() < 0.5:
                    d["sub"] = rng.choice(avail)
                    inner += "    <section type='%s' name='*' attribute='sub'/>\n" % d["sub"]
                elif rng.random() < 0.2:
                    d["sub"] = "item"
                    inner += "    <multisection type='item' name='*' attribute='sub'/>\n"
                if d["item"]:
                    attrs += " implements='item'"
                body.append("  <sectiontype name='%s'%s>\n%s  </sectiontype>\n" % (t, attrs, inner))
                types[t] = d
            pkgxml[names[i]] = "<component>\n%s</component>\n" % "".join(body)
        broken = None
        if rng.random() < 0.5:
            # imports a good package, registers one more implementer, then fails (an abstract type nobody declared)
            broken = pk.fresh_name("zcvgbad")
            pkgxml[broken] = ("<component>\n  <import package='%s'/>\n  <sectiontype name='tbad' implements='item'/>\n"
                              "  <sectiontype name='tworse' implements='nosuchabstract'/>\n</component>\n" % rng.choice(names))
        for p, x in pkgxml.items():
            os.makedirs(os.path.join(pk.root, p))
            open(os.path.join(pk.root, p, "__init__.py"), "w").write("# generated\n")
            open(os.path.join(pk.root, p, "component.xml"), "w").write(x)
            pk.names.append(p)
        simp = rng.choice(range(n)) if rng.random() < 0.3 else None        # the schema imports this package itself
        xml = ("<schema>\n  <abstracttype name='item'/>\n%s  <multisection type='item' name='*' attribute='items'/>\n"
               "  <key name='plain' default='p'/>\n</schema>\n" % ("  <import package='%s'/>\n" % names[simp] if simp is not None else ""))

        def reach(start):
            seen, todo = set(), list(start)
            while todo:
                i = todo.pop()
                if i not in seen:
                    seen.add(i)
                    todo.extend(imports[i])
            return seen

        def section(t, depth=0):
            ind = " " * depth
            hdr = t + (" n%d" % rng.randint(0, 9) if rng.random() < 0.4 else "")
            out = []
            if rng.random() < 0.5:
                out.append("%s k%s v%d" % (ind, t, rng.randint(0, 9)))
            sub = types[t]["sub"] if t in types else None
            if sub and depth < 2 and rng.random() < 0.6:
                cands = [x for x, d in types.items() if d["item"]] if sub == "item" else [sub]
                if cands:
                    out.extend(section(rng.choice(cands), depth + 1))
            if not out and rng.random() < 0.5:
                return ["%s<%s/>" % (ind, hdr)]
            return ["%s<%s>" % (ind, hdr)] + out + ["%s</%s>" % (ind, t)]

        try:
            fresh0 = ZConfig.loadSchemaFile(io.StringIO(xml))
        except ZConfig.ConfigurationError:
            ctx.count("graphs:schema-refused")      # (a schema-level import that meets a back edge the wrong way round)
            continue
        for h in range(4):
            reused = ZConfig.loadSchemaFile(io.StringIO(xml))
            d0 = sdigest(reused)
            texts, seq, past = [], [], []
            nimporting = 0
            for step in range(rng.randint(2, maxloads)):
                if past and rng.random() < 0.55:
                    # the packages of an earlier load again: other order, one fewer, one more
                    imps = list(rng.choice(past))
                    r = rng.random()
                    if r < 0.35:
                        imps.reverse()
                    elif r < 0.55 and imps:
                        imps.pop(rng.randrange(len(imps)))
                    elif r < 0.9:
                        imps.insert(rng.randint(0, len(imps)), rng.randrange(n))
                else:
                    imps = [rng.randrange(n) for _ in range(rng.choice([0, 1, 1, 2, 2, 3]))]
                past.append(list(imps))
                got = reach(imps + ([simp] if simp is not None else []))
                lines = ["%%import %s" % names[i] for i in imps]
                if broken and rng.random() < 0.08:
                    lines.insert(rng.randint(0, len(lines)), "%import " + broken)
                inreach = [t for t, d in types.items() if d["pkg"] in got and d["item"]]
                body = []
                for _ in range(rng.randint(0, 3)):
                    t = rng.choice(inreach) if inreach and rng.random() < 0.85 else rng.choice(sorted(types))
                    if types[t]["pkg"] not in imps and types[t]["pkg"] in got:
                        ctx.count("graphs:section-of-a-package-reached-only-through-another-import")
                    elif types[t]["pkg"] not in got:
                        ctx.count("graphs:section-of-a-package-not-imported")
                    body.extend(section(t))
                if rng.random() < 0.3:
                    body.insert(rng.choice([0, len(body)]), "plain v%d" % rng.randint(0, 9))
                r = rng.random()
                if r < 0.06:
                    body.append("nosuchkey v")
                elif r < 0.10:
                    body.append("<%s>" % rng.choice(sorted(types)))
                elif r < 0.16 and lines:
                    body.append(lines.pop())        # a %import line after the sections
                text = "\n".join(lines + body) + "\n"
                texts.append(text)
                a, cfg = outcome(reused, text)
                b, _ = outcome(ZConfig.loadSchemaFile(io.StringIO(xml)), text)
                ctx.evaluations += 1
                ctx.count("graphs:load:" + (a[0] if a[0] == "ok" else ":".join(a)))
                ctx.count("graphs:imports-in-text:%d" % len(imps))
                if any(imports[i] for i in imps):
                    ctx.count("graphs:load-importing-a-package-that-imports")
                    if a[0] == "ok":
                        nimporting += 1
                seq.append({"text": text, "reused": a, "fresh": b})
                rep = {"schema_xml": xml, "packages": pkgxml, "texts": list(texts), "step": len(texts), "reused": a, "fresh": b,
                       "package_imports": {names[i]: [names[j] for j in imports[i]] for i in range(n)}}
                if a != b:
                    # shrink the history: drop earlier loads as long as the last text still tells the used schema from a fresh one
                    keep = list(texts)
                    i = 0
                    while i < len(keep) - 1:
                        cand = keep[:i] + keep[i + 1:]
                        sch = ZConfig.loadSchemaFile(io.StringIO(xml))
                        for t in cand[:-1]:
                            outcome(sch, t)
                        if outcome(sch, cand[-1])[0] != b:
                            keep = cand
                        else:
                            i += 1
                    rep["texts_minimised"] = keep
                    ctx.violate("component graph (%s), load %d: the reused schema gives %r, a fresh copy %r" % (shape, len(texts), a, b),
                                rep, signature="C13:component-graph:outcome")
                    break
                if cfg is not None and rng.random() < 0.5:
                    ctx.count("mutated-containers", mutate(cfg))
                d1 = sdigest(reused)
                if d1 != d0:
                    if not d1.startswith("undigestible") and _only_subtypes_differ(F.digest(reused), F.digest(fresh0)):
                        ctx.count("graphs:implementer-tables-grew (listed finding)")
                        d0 = d1
                    else:
                        ctx.violate("component graph (%s): the schema's own description changed after load %d" % (shape, len(texts)),
                                    rep, signature="C13:component-graph:digest")
                        break
            if nimporting >= 2:
                ctx.nontriv(("component-graph", w, h))
            ctx.count("graphs:histories")
            ctx.count("graphs:shape:" + shape)


RULE += ("; component graphs: per world of 2..4 generated packages whose components <import> each other (chain / dag / back "
         "edges; types extending or containing types of the imported packages; optionally a failing component, optionally "
         "imported by the schema itself) four histories of 2..5 loads with 0..3 %import lines each (orders, subsets and supersets of "
         "earlier loads' packages) on one schema object vs fresh copies, outcome and digest; non-trivial = history with >= 2 accepted "
         "loads that %import a package which itself imports")
