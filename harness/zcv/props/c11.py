"""C11 — schema composition features mean the same as their written-out expansion"""
import copy
import io
import os
import shutil
import sys
import tempfile

from .. import cfggen, cfgrun, cfgstream, core, elabrun, pkggen, prefixfam as P, schemafam as F
from ..sexp import enc

RULE = ("(a) generated schemas using sectiontype extends (chains up to 3, key type / datatype overrides, wildcard defaults with "
        "mixed-case keys) against their mechanical expansion (base children first, implements not inherited): equal structural "
        "digest and equal outcome on the C01 texts; (b) prefixes (schema / sectiontype / component level, absolute and relative, "
        "nested 3 deep) against absolute dotted names over generated datatype packages, and a generated family combining prefixes with "
        "extends (derived types written under another prefix than their base, chains) and component imports (components with their own prefix, "
        "packages named relative to the prefix; components that import components themselves, the package named relative to the importing "
        "component's prefix - not its own package, not the schema's prefix -, reached through the component alone or also directly, decoy "
        "components under every other reading of the name) against the expansion 'nearest enclosing prefix + name', types in place; (c) schema-level extends of 1..3 bases "
        "against the merged schema, directed and GENERATED: family schemas delivered as trees of documents joined by extends (1..3 bases per document, "
        "3 deep), every document stating or inheriting key type and datatype independently of each other, unsettled conflicts refused; (d) component imports once / repeated / diamond / mutually importing / self-importing against defining the types in place. "
        "non-trivial = composed schema with >= 1 derived or prefixed item; distinct by document")


def expand_extends(sd):
    """write out every `extends`: base children first, inherited keytype/datatype, implements not inherited"""
    out = copy.deepcopy(sd)
    done = {}
    for t in out.types:
        if t.abstract:
            continue
        if t.extends:
            b = done[F._basic_key(t.extends)]
            t.children = copy.deepcopy(b.children) + t.children
            t.keytype = t.keytype or b.keytype
            t.datatype = t.datatype or b.datatype
            t.extends = None
        done[F._basic_key(t.name)] = t
    return out


def same_behaviour(ctx, sd_a, real_a, sd_b, real_b, elab, rng, ntexts):
    """run the same texts against both schema objects; returns first differing case or None"""
    for _ in range(ntexts):
        items = cfggen.gen_items(rng, elab, None, 3)
        if rng.random() < 0.4:
            cfggen.apply_fault(rng, elab, items, rng.choice(cfggen.FAULTS))
        lines = cfggen.render_lines(rng, items)
        text = "\n".join(lines) + "\n"
        oa, ca, _ = cfgrun.real_load(real_a, text, cfgstream.URL)
        ob, cb, _ = cfgrun.real_load(real_b, text, cfgstream.URL)
        ctx.evaluations += 1
        same = oa[0] == ob[0] and (oa[0] != "ok" or cfgrun.describe(ca) == cfgrun.describe(cb))
        if not same:
            return lines, oa, ob, ca, cb
    return None


make_dt_packages = P.make_dt_packages     # (also used by props/c02.py)


def run(ctx):
    import ZConfig
    obligations, discharged, names = core.standard_prelude(ctx, ["ZCV.Props.C11"])
    rng = ctx.rng
    n = 250 if ctx.thorough() else 30
    # ---------------------------------------------------------------- (a) sectiontype extends
    model_docs = []
    for _ in range(n):
        sd = cfggen.gen_schema(rng)
        if not any((not t.abstract) and t.extends for t in sd.types):
            continue
        ex = expand_extends(sd)
        xa, xb = F.render_xml(sd), F.render_xml(ex)
        model_docs.extend([xa, xb])
        try:
            ra, rb = F.load_real(sd), F.load_real(ex)
        except Exception as e:
            ctx.violate("composed schema or its expansion failed to load: %s" % type(e).__name__, {"composed": xa, "expanded": xb},
                        signature="C11:extends:load:" + type(e).__name__)
            continue
        ctx.nontriv(xa)
        da, db = F.digest(ra), F.digest(rb)
        elab = F.elaborate(ex)
        if enc(da) != enc(db):
            bad = same_behaviour(ctx, sd, ra, ex, rb, elab, rng, 40)
            rep = {"composed": xa, "expanded": xb}
            if bad:
                rep.update({"lines": bad[0], "composed_outcome": bad[1], "expanded_outcome": bad[2],
                            "composed_value": cfgrun.describe(bad[3]) if bad[3] is not None else None,
                            "expanded_value": cfgrun.describe(bad[4]) if bad[4] is not None else None})
                ctx.violate("a schema using extends behaves differently from its expansion on %r" % (bad[0],), rep, signature="C11:extends:behaviour")
            else:
                ctx.violate("a schema using extends differs structurally from its expansion", rep, signature="C11:extends:structure")
            continue
        bad = same_behaviour(ctx, sd, ra, ex, rb, elab, rng, 6)
        if bad:
            ctx.violate("a schema using extends behaves differently from its expansion on %r" % (bad[0],),
                        {"composed": xa, "expanded": xb, "lines": bad[0], "composed_outcome": bad[1], "expanded_outcome": bad[2]},
                        signature="C11:extends:behaviour")
    # a derived type that adds a child colliding (or only seemingly colliding) with an inherited one: the composed schema and
    # its expansion must agree on acceptance — attribute vs inherited attribute (both refused), attribute vs inherited KEY
    # whose attribute differs (both accepted)
    for _ in range(n):
        sd = cfggen.gen_schema(rng)
        ders = [t for t in sd.types if (not t.abstract) and t.extends]
        if not ders:
            continue
        t = rng.choice(ders)
        base = [b for b in sd.types if not b.abstract and F._basic_key(b.name) == F._basic_key(t.extends)]
        if not base or not base[0].children:
            continue
        ch = rng.choice(base[0].children)
        sd2 = copy.deepcopy(sd)
        t2 = [x for x in sd2.types if x.name == t.name][0]
        inh_attr = ch.attr or (F._basic_key(ch.name).replace("-", "_") if ch.name not in (None, "*", "+") else None)
        if inh_attr is None or "." in inh_attr:
            continue
        if rng.random() < 0.5:
            t2.children.append(F.KeyD("zzc11k", "string", attr=inh_attr))           # same attribute as an inherited child
        elif ch.name not in (None, "*", "+") and ch.attr and ch.attr != F._basic_key(ch.name) and "-" not in ch.name and "." not in ch.name:
            t2.children.append(F.KeyD("zzc11j", "string", attr=F._basic_key(ch.name)))   # attribute = an inherited KEY name only
        else:
            continue
        ex2 = expand_extends(sd2)
        xa, xb = F.render_xml(sd2), F.render_xml(ex2)
        ra, rb = _accepts(xa), _accepts(xb)
        ctx.evaluations += 1
        ctx.nontriv(xa)
        ctx.count("collision-variant:%s" % ra)
        model_docs.extend([xa, xb])
        if ra != rb:
            ctx.violate("a derived type with a child colliding with an inherited one: composed schema %s, its expansion %s" % (ra, rb),
                        {"composed": xa, "expanded": xb}, signature="C11:extends:collision:%s-vs-%s" % (ra, rb))
    # the Lean model of the schema loader on the composed documents and on their expansions
    elabrun.compare(ctx, "extends", model_docs)
    # directed: a derived type overriding the key type over a base whose fixed key name is not a fixed point of the new key type
    comp = ("<schema><sectiontype name='b' keytype='identifier'><key name='Foo' attribute='foo_'/></sectiontype>"
            "<sectiontype name='d' extends='b' keytype='basic-key'><key name='own'/></sectiontype><section type='d' name='*' attribute='d'/></schema>")
    expd = ("<schema><sectiontype name='b' keytype='identifier'><key name='Foo' attribute='foo_'/></sectiontype>"
            "<sectiontype name='d' keytype='basic-key'><key name='Foo' attribute='foo_'/><key name='own'/></sectiontype>"
            "<section type='d' name='*' attribute='d'/></schema>")
    a, b = _load(comp), _load(expd)
    for t in ["<d>\nfoo v\n</d>\n", "<d>\nFoo v\n</d>\n", "<d>\nown x\n</d>\n"]:
        ra, rb = _behaves(a, t), _behaves(b, t)
        ctx.evaluations += 1
        if ra != rb:
            ctx.violate("derived type overriding keytype: inherited fixed key 'Foo' is not re-normalised; on %r composed gives %r, expansion %r" % (t, ra, rb),
                        {"composed": comp, "expanded": expd, "text": t}, signature="C11:extends:inherited-fixed-name-not-renormalised")
            break
    # directed: wildcard-key defaults are re-normalised from the keys AS WRITTEN when a derived type overrides the key type - also
    # when the base key type is lossy on them (basic-key lower-cases 'Abc'), also along a chain, for key and multikey
    for kind, dflt in (("key", "<default key='Abc'>one</default><default key='xY-z'>two</default>"),
                       ("multikey", "<default key='Abc'>one</default><default key='Abc'>uno</default><default key='xyZ'>two</default>")):
        wild = "<%s name='+' attribute='m'>%s</%s>" % (kind, dflt, kind)
        comp = ("<schema><sectiontype name='b'>%s</sectiontype><sectiontype name='d' extends='b' keytype='identifier'><key name='Own'/></sectiontype>"
                "<sectiontype name='e' extends='d' keytype='basic-key'/>"
                "<section type='d' name='*' attribute='d'/><section type='e' name='e1' attribute='e'/><section type='b' name='b1' attribute='b'/></schema>" % wild)
        expd = ("<schema><sectiontype name='b'>%s</sectiontype><sectiontype name='d' keytype='identifier'>%s<key name='Own'/></sectiontype>"
                "<sectiontype name='e' keytype='basic-key'>%s<key name='own'/></sectiontype>"
                "<section type='d' name='*' attribute='d'/><section type='e' name='e1' attribute='e'/><section type='b' name='b1' attribute='b'/></schema>" % (wild, wild.replace("xY-z", "xY_z") if False else wild, wild))
        if kind == "key":
            # 'xY-z' is not an identifier: both forms must refuse the schema alike; use a second pair that all key types take
            comp, expd = comp.replace("xY-z", "xYz"), expd.replace("xY-z", "xYz")
        try:
            a, b = _load(comp), _load(expd)
        except Exception as e:
            ra, rb = _accepts(comp), _accepts(expd)
            ctx.evaluations += 1
            if ra != rb:
                ctx.violate("derived types overriding the key type over keyed wildcard defaults: composed schema %s, expansion %s" % (ra, rb),
                            {"composed": comp, "expanded": expd}, signature="C11:extends:wildcard-defaults:load")
            continue
        for t in ["<d/>\n<e e1/>\n<b b1/>\n", "<d>\nOwn v\n</d>\n", "<d>\nAbc mine\n</d>\n<e e1>\nabc mine\n</e>\n", "<d>\nabc other\n</d>\n"]:
            ra, rb = _behaves(a, t), _behaves(b, t)
            ctx.evaluations += 1
            ctx.nontriv(("wildcard-defaults", kind, t))
            if ra != rb:
                ctx.violate("a derived type overriding the key type re-normalises inherited wildcard defaults differently from its expansion on %r: %r vs %r" % (t, ra, rb),
                            {"composed": comp, "expanded": expd, "text": t}, signature="C11:extends:wildcard-defaults")
                break
    # ---------------------------------------------------------------- (b) prefixes, (c) schema extends, (d) component imports
    root = tempfile.mkdtemp(prefix="zcv-c11-", dir="/dev/shm" if os.path.isdir("/dev/shm") else None)
    sys.path.insert(0, root)
    stem = "zcvc11p%d" % os.getpid()
    pk = pkggen.PkgRoot()
    try:
        have = P.make_dt_packages(root, stem)
        _prefixes(ctx, rng, stem)
        _prefix_family(ctx, rng, root, have)
        _schema_extends(ctx, rng, root)
        _sx_family(ctx, root)
        _components(ctx, rng, pk)
    finally:
        sys.path.remove(root)
        for m in list(sys.modules):
            if m.startswith(stem):
                del sys.modules[m]
        shutil.rmtree(root, ignore_errors=True)
        pk.close()
    return core.finish(ctx, obligations, discharged, names, RULE,
                       "lake build ZCV.Props.C11 && lake env lean ZCV/Audit/C11.lean",
                       ["expansion is computed by the harness (props/c11.py) from the statement", "package import machinery is outside the model"])


def _accepts(xml):
    import ZConfig
    try:
        ZConfig.loadSchemaFile(io.StringIO(xml))
        return "accepted"
    except ZConfig.SchemaError:
        return "schema-error"
    except Exception as e:
        return "exc:" + type(e).__name__


def _load(xml, url=None):
    import ZConfig
    return ZConfig.loadSchemaFile(io.StringIO(xml), url)


def _behaves(schema, text):
    out, cfg, _ = cfgrun.real_load(schema, text, cfgstream.URL)
    return out[:2] if out[0] != "ok" else ["ok", cfgrun.describe(cfg)]


def _prefixes(ctx, rng, stem):
    S = stem
    cases = [
        # (composed, expanded)
        ("<schema prefix='%s'><key name='a' datatype='.up'/><key name='b' datatype='.sub.up'/></schema>" % S,
         "<schema><key name='a' datatype='%s.up'/><key name='b' datatype='%s.sub.up'/></schema>" % (S, S)),
        ("<schema prefix='%s'><sectiontype name='t' prefix='.sub' datatype='.wrapsect'><key name='k' datatype='.up'/>"
         "<key name='j' datatype='.deep.up'/></sectiontype><section type='t' name='*' attribute='t'/></schema>" % S,
         "<schema><sectiontype name='t' datatype='%s.sub.wrapsect'><key name='k' datatype='%s.sub.up'/>"
         "<key name='j' datatype='%s.sub.deep.up'/></sectiontype><section type='t' name='*' attribute='t'/></schema>" % (S, S, S)),
        ("<schema prefix='%s'><sectiontype name='t' prefix='%sother' datatype='.wrapsect'><key name='k' datatype='.up'/></sectiontype>"
         "<section type='t' name='*' attribute='t'/><key name='top' datatype='.up'/></schema>" % (S, S),
         "<schema><sectiontype name='t' datatype='%sother.wrapsect'><key name='k' datatype='%sother.up'/></sectiontype>"
         "<section type='t' name='*' attribute='t'/><key name='top' datatype='%s.up'/></schema>" % (S, S, S)),
        ("<schema prefix='%s.sub'><sectiontype name='t' prefix='.deep' keytype='%s.up'><key name='+' attribute='m' datatype='.up'/></sectiontype>"
         "<section type='t' name='*' attribute='t'/></schema>" % (S, S),
         "<schema><sectiontype name='t' keytype='%s.up'><key name='+' attribute='m' datatype='%s.sub.deep.up'/></sectiontype>"
         "<section type='t' name='*' attribute='t'/></schema>" % (S, S)),
        ("<schema prefix='%s'><sectiontype name='b' prefix='.sub'><key name='k' datatype='.up'/></sectiontype>"
         "<sectiontype name='d' extends='b' prefix='.sub.deep' datatype='.wrapsect'><key name='j' datatype='.up'/></sectiontype>"
         "<section type='d' name='*' attribute='d'/></schema>" % S,
         "<schema><sectiontype name='b'><key name='k' datatype='%s.sub.up'/></sectiontype>"
         "<sectiontype name='d' extends='b' datatype='%s.sub.deep.wrapsect'><key name='j' datatype='%s.sub.deep.up'/></sectiontype>"
         "<section type='d' name='*' attribute='d'/></schema>" % (S, S, S)),
    ]
    texts = ["a x\nb y\n", "<t>\nk v\nj w\n</t>\ntop z\n", "<t>\nAb v\n</t>\n", "<d>\nk 1\nj 2\n</d>\n", "<t/>\n", ""]
    elabrun.compare(ctx, "prefix", [x for pair in cases for x in pair])
    for comp, exp in cases:
        ctx.evaluations += 1
        ctx.nontriv(comp)
        try:
            a, b = _load(comp), _load(exp)
        except Exception as e:
            ctx.violate("prefixed schema or its expansion failed to load: %s: %s" % (type(e).__name__, e), {"composed": comp, "expanded": exp},
                        signature="%s:prefix:load" % ctx.prop)
            continue
        for t in texts:
            ra, rb = _behaves(a, t), _behaves(b, t)
            ctx.evaluations += 1
            if ra != rb:
                ctx.violate("a prefixed schema behaves differently from the same schema with absolute names on %r: %r vs %r" % (t, ra, rb),
                            {"composed": comp, "expanded": exp, "text": t}, signature="%s:prefix:behaviour" % ctx.prop)
                break


def _pf_compare(ctx, root, doc):
    """composed document vs its two expansions on the real loader: None, or (kind, description, replay)"""
    P.write_components(root, doc, overwrite=True)
    comp = P.render_composed(doc)
    exp, done = P.render_expanded(doc)
    inl, _ = P.render_expanded(doc, inline_extends=True)
    forms = (("relative names replaced by nearest enclosing prefix + name, components in place", exp),
             ("the same with every extends written out", inl))
    rep = {"composed": comp, "components": {"%s:%s" % (c.pkg, c.file): P.render_component(c) for c in P.all_components(doc)}}
    decoys = {"%s:%s" % (q, c.file): P.render_decoy(c) for c in P.all_components(doc) for q in c.decoys}
    if decoys:
        rep["decoy_components"] = decoys
    ra = _accepts(comp)
    for form, x in forms:
        rb = _accepts(x)
        if ra != rb:
            rep.update({"expanded": x, "form": form, "composed_outcome": ra, "expanded_outcome": rb})
            return "load", "a schema combining prefixes with extends / imports is %s, its expansion (%s) is %s" % (ra, form, rb), rep
    if ra != "accepted":
        return None
    a = _load(comp)
    da = enc(F.digest(a)[1:3])
    texts = P.texts_for(doc, done)
    for form, x in forms:
        b = _load(x)
        for t in texts:
            oa, ob = _behaves(a, t), _behaves(b, t)
            ctx.evaluations += 1
            if oa != ob:
                rep.update({"expanded": x, "form": form, "text": t, "composed_outcome": oa, "expanded_outcome": ob})
                return "behaviour", ("a schema combining prefixes with extends / imports behaves differently from its expansion (%s) on %r: "
                                     "%r vs %r" % (form, t, oa, ob)), rep
        if da != enc(F.digest(b)[1:3]):
            rep.update({"expanded": x, "form": form})
            return "structure", ("a schema combining prefixes with extends / imports differs structurally from its expansion (%s): some name "
                                 "is resolved to another function" % form), rep
    return None


def _pf_shrink(ctx, root, doc, kind):
    """greedy removal of keys, types nobody extends, repeated imports and emptied components while the same kind of difference remains"""
    def smaller(d):
        owners = P.all_components(d) + [d]
        extended = {t.extends for o in owners for t in o.types if t.extends}
        for o in owners:
            for i, t in enumerate(o.types):
                if t.name not in extended:
                    d2 = copy.deepcopy(d)
                    o2 = (P.all_components(d2) + [d2])[owners.index(o)]
                    del o2.types[i]
                    d2.sects = [x for x in d2.sects if x[0] != t.name]
                    d2.imports = [(w, c) for w, c in d2.imports if c.types or c.imports]
                    yield d2
                for j in range(len(t.keys)):
                    d2 = copy.deepcopy(d)
                    o2 = (P.all_components(d2) + [d2])[owners.index(o)]
                    del o2.types[i].keys[j]
                    yield d2
        for i in range(len(d.keys)):
            d2 = copy.deepcopy(d)
            del d2.keys[i]
            yield d2
        for i in range(len(d.sects)):
            d2 = copy.deepcopy(d)
            del d2.sects[i]
            yield d2
        for i, (w, c) in enumerate(d.imports):
            if any(c2 is c for _, c2 in d.imports[:i]):
                d2 = copy.deepcopy(d)
                del d2.imports[i]
                yield d2
        # a component's own imports (a candidate that no longer reaches some component's types is refused by the comparison)
        for k, o in enumerate(owners[:-1]):
            for i in range(len(o.imports)):
                d2 = copy.deepcopy(d)
                del P.all_components(d2)[k].imports[i]
                yield d2
    best, progress, budget = doc, True, 400
    while progress and budget > 0:
        progress = False
        for cand in smaller(best):
            budget -= 1
            try:
                r = _pf_compare(ctx, root, cand)
            except Exception:
                r = None
            if r is not None and r[0] == kind:
                best, progress = cand, True
                break
            if budget <= 0:
                break
    return best


def _prefix_family(ctx, rng, root, have):
    """generated schemas combining prefixes (schema / sectiontype / component level, absolute and relative) with sectiontype
    extends and component imports - in particular derived types written under another prefix than their base (own prefix on
    the base, base imported from a component with its own prefix, chains) - against their mechanical expansion (prefixfam):
    real vs real on acceptance, directed texts and structure; composed and expanded documents also against the Lean model"""
    n = 1500 if ctx.thorough() else 150
    docs, model_docs = [], []
    for i in range(n):
        g = P.Gen(rng, have, i)
        doc = g.gen_doc()
        P.write_components(root, doc)
        for k, v in g.stats.items():
            ctx.count("prefix-family:%s" % k, v)
        docs.append(doc)
        model_docs.extend([P.render_composed(doc), P.render_expanded(doc)[0]])
    # components that import components themselves, the package named absolutely or relative to the IMPORTING COMPONENT's
    # prefix (mostly neither the schema's prefix nor the package the component was loaded from); the imported component is
    # reached through the component alone or also directly from the schema; decoy components of the same file name sit in
    # every other package the written name could be taken for.  Own stream: the documents above keep their draws.
    import importlib
    import random
    rng2 = random.Random("C11/prefix-family-nested-imports/%s" % ctx.seed)
    for i in range(400 if ctx.thorough() else 50):
        g = P.Gen(rng2, have, i)
        doc = g.gen_doc_nested(root)
        P.write_components(root, doc)
        for k, v in g.stats.items():
            ctx.count("prefix-family:%s" % k, v)
        docs.append(doc)
        model_docs.extend([P.render_composed(doc), P.render_expanded(doc)[0]])
    importlib.invalidate_caches()
    elabrun.compare(ctx, "prefix-family", model_docs)
    reported = set()
    for doc in docs:
        ctx.evaluations += 1
        ctx.nontriv(P.render_composed(doc))
        r = _pf_compare(ctx, root, doc)
        ctx.count("prefix-family:%s" % ("differs:" + r[0] if r else "agrees"))
        if r is None or r[0] in reported:
            continue
        reported.add(r[0])
        small = _pf_shrink(ctx, root, doc, r[0])
        r2 = _pf_compare(ctx, root, small)
        if r2 is not None and r2[0] == r[0]:
            r = r2
        ctx.violate(r[1], r[2], signature="C11:prefix-family:" + r[0])


def _schema_extends(ctx, rng, root):
    d = os.path.join(root, "sx")
    os.makedirs(d, exist_ok=True)

    def w(n, t):
        with open(os.path.join(d, n), "w") as f:
            f.write(t)
    w("b1.xml", "<schema keytype='identifier'><sectiontype name='t1'><key name='K1'/></sectiontype><key name='B1' default='one'/></schema>")
    w("b2.xml", "<schema keytype='identifier'><sectiontype name='t2' extends='t1'><key name='K2'/></sectiontype><key name='B2' default='two'/></schema>")
    w("b3.xml", "<schema datatype='zcvdt.wrap' keytype='identifier'><abstracttype name='ab'/><key name='B3'/></schema>")
    # a chain of three: the middle schema states neither keytype nor datatype and only inherits them from the bottom one
    w("c0.xml", "<schema keytype='identifier' datatype='zcvdt.wrap'><sectiontype name='t1'><key name='K1'/></sectiontype><key name='B1' default='one'/></schema>")
    w("c1.xml", "<schema extends='c0.xml'><key name='Mid' default='m'/></schema>")
    combos = [(["c1.xml"], "<sectiontype name='t1'><key name='K1'/></sectiontype><key name='B1' default='one'/><key name='Mid' default='m'/>"),
              (["b1.xml"], "<sectiontype name='t1'><key name='K1'/></sectiontype><key name='B1' default='one'/>"),
              (["b2.xml", "b1.xml"], "<sectiontype name='t1'><key name='K1'/></sectiontype><key name='B1' default='one'/>"
               "<sectiontype name='t2' extends='t1'><key name='K2'/></sectiontype><key name='B2' default='two'/>"),
              (["b1.xml", "b3.xml"], "<sectiontype name='t1'><key name='K1'/></sectiontype><key name='B1' default='one'/>"
               "<abstracttype name='ab'/><key name='B3'/>")]
    for bases, merged in combos:
        own = "<section type='t1' name='*' attribute='s1'/><key name='Own'/>"
        dt = " datatype='zcvdt.wrap'" if "b3.xml" in bases else ""
        comp = "<schema extends='%s'%s>%s</schema>" % (" ".join(bases), dt, own)
        exp = "<schema keytype='identifier'%s>%s%s</schema>" % (dt or (" datatype='zcvdt.wrap'" if "c1.xml" in bases else ""), merged, own)
        w("top.xml", comp)
        elabrun.compare(ctx, "schema-extends", [comp, exp], base_dir=d, url="file://" + os.path.join(d, "top.xml"))
        ctx.evaluations += 1
        ctx.nontriv(comp)
        try:
            import ZConfig
            a = ZConfig.loadSchema(os.path.join(d, "top.xml"))
            b = _load(exp)
        except Exception as e:
            ctx.violate("schema-level extends or its merged form failed to load: %s: %s" % (type(e).__name__, e),
                        {"composed": comp, "expanded": exp}, signature="C11:schema-extends:load")
            continue
        for t in ["", "B1 x\nOwn y\n<t1>\nK1 v\n</t1>\n", "b1 x\n", "B2 q\n", "<t2/>\n", "B3 z\n", "Mid q\nOwn r\n"]:
            ra, rb = _behaves(a, t), _behaves(b, t)
            ctx.evaluations += 1
            if ra != rb:
                ctx.violate("a schema extending %r behaves differently from the merged schema on %r: %r vs %r" % (bases, t, ra, rb),
                            {"composed": comp, "expanded": exp, "text": t}, signature="C11:schema-extends:behaviour")
                break

    # bases in ANOTHER directory whose own relative references (extends, <import src>) are relative to themselves; same-named
    # decoys sit next to the extending schema
    app, lib = os.path.join(d, "app"), os.path.join(d, "lib")
    os.makedirs(app, exist_ok=True)
    os.makedirs(lib, exist_ok=True)

    def w2(dr, n, t):
        with open(os.path.join(dr, n), "w") as f:
            f.write(t)
    w2(lib, "base.xml", "<schema><key name='origin' default='lib-base'/><key name='port' datatype='integer' default='80'/></schema>")
    w2(lib, "types.xml", "<schema><sectiontype name='libtype'><key name='k' default='from-lib'/></sectiontype></schema>")
    w2(lib, "mid.xml", "<schema extends='base.xml'><import src='types.xml'/><section type='libtype' name='*' attribute='lt'/></schema>")
    w2(app, "base.xml", "<schema><key name='origin' default='app-decoy'/><key name='port' datatype='integer' default='8080'/></schema>")
    w2(app, "types.xml", "<schema><sectiontype name='libtype'><key name='k' default='from-decoy'/></sectiontype></schema>")
    w2(app, "top.xml", "<schema extends='../lib/mid.xml'><key name='Own'/></schema>")
    merged = ("<schema><key name='origin' default='lib-base'/><key name='port' datatype='integer' default='80'/>"
              "<sectiontype name='libtype'><key name='k' default='from-lib'/></sectiontype><section type='libtype' name='*' attribute='lt'/><key name='Own'/></schema>")
    ctx.evaluations += 1
    ctx.nontriv("schema-extends-other-directory")
    try:
        import ZConfig
        a, b = ZConfig.loadSchema(os.path.join(app, "top.xml")), _load(merged)
        for t in ["", "<libtype/>\n", "origin x\nport 1\n<libtype>\nk v\n</libtype>\n"]:
            ra, rb = _behaves(a, t), _behaves(b, t)
            ctx.evaluations += 1
            if ra != rb:
                ctx.violate("a schema extending a base in another directory (whose relative references belong to that directory) behaves "
                            "differently from the merged schema on %r: %r vs %r" % (t, ra, rb),
                            {"composed": "app/top.xml extends ../lib/mid.xml, which extends base.xml and imports types.xml (decoys of both in app/)",
                             "expanded": merged, "text": t}, signature="C11:schema-extends:behaviour")
                break
    except Exception as e:
        ctx.violate("a schema extending a base in another directory failed to load: %s: %s" % (type(e).__name__, str(e)[:200]),
                    {"expanded": merged}, signature="C11:schema-extends:load")


class _SxDoc:
    """one document of a generated schema-extends tree: own types / top-level children, base documents (in LOAD order: the
    `extends` attribute lists them reversed), and what the document STATES about key type and datatype (None = says nothing)"""
    def __init__(self, name, bases):
        self.name, self.bases = name, bases
        self.types, self.children = [], []
        self.kt = self.dt = self.handler = None
        self.eff_kt = self.eff_dt = None

    def walk(self):
        for b in self.bases:
            yield from b.walk()
        yield self

    def xml(self):
        x = F.render_xml(F.SchemaD(self.children, self.types, keytype=self.kt, datatype=self.dt, handler=self.handler))
        if self.bases:
            x = x.replace("<schema", "<schema extends='%s'" % " ".join(b.name for b in reversed(self.bases)), 1)
        return x


SX_CONFLICT = "<conflict>"


def _sx_inherit(stated, bases_eff, default):
    """the property's rule for one of the two attributes: stated here, else the bases' common value, else the default"""
    if stated is not None:
        return stated
    if not bases_eff:
        return default
    if SX_CONFLICT in bases_eff or len(set(bases_eff)) > 1:
        return SX_CONFLICT
    return bases_eff[0]


def _sx_gen(rng, tag, sd):
    """delivers the schema description `sd` as a tree of documents joined by schema-level extends (1..3 bases per document,
    chains up to 3 documents deep): types and top-level children are split in order over the documents in load order;
    every document states a key type / a datatype or leaves it to its bases - independently of each other.  Documents that
    carry top-level children (their names are converted by the key type in force in THAT document) and the top document end
    up under sd's key type (stated, or inherited from bases that agree); the others are free.  Returns (top document,
    expected): expected = the single merged SchemaD, or None when some document inherits from bases that disagree without
    saying anything itself (no merged schema exists: the composed schema must be refused)."""
    count = [0]

    def shape(depth):
        nb = 0
        if depth == 1:
            nb = rng.choice([1, 1, 2, 2, 3])
        elif depth < 3 and rng.random() < 0.45:
            nb = rng.choice([1, 1, 2, 3])
        bases = [shape(depth + 1) for _ in range(nb)]
        count[0] += 1
        return _SxDoc("%s_%d.xml" % (tag, count[0]), bases)
    top = shape(1)
    docs = list(top.walk())          # load order; the top document is last
    n = len(docs)
    cuts = sorted(rng.randint(0, len(sd.types)) for _ in range(n - 1))
    known, rest = set(), list(sd.children)
    for i, doc in enumerate(docs):
        doc.types = sd.types[([0] + cuts)[i]:(cuts + [len(sd.types)])[i]]
        known |= {F._basic_key(t.name) for t in doc.types}
        if i == n - 1:
            doc.children, rest = rest, []
        elif rng.random() < 0.6:
            while rest and (rest[0].kind == "key" or F._basic_key(rest[0].type) in known):
                doc.children.append(rest.pop(0))
                if rng.random() < 0.4:
                    break
    top.handler = sd.handler
    K = sd.keytype or "basic-key"
    refused = False
    for doc in docs:
        doc.kt = rng.choice([None, None, None, None, K, "basic-key", "identifier", "ipaddr-or-hostname"])
        doc.dt = rng.choice([None, None, None, None, "null", "zcvdt.wrap", "zcvdt.wrap", "zcvdt.sectmarker"])
        if not doc.bases and doc.dt is None and rng.random() < 0.5:
            doc.dt = rng.choice(["zcvdt.wrap", "zcvdt.sectmarker"])
        doc.eff_kt = _sx_inherit(doc.kt, [b.eff_kt for b in doc.bases], "basic-key")
        doc.eff_dt = _sx_inherit(doc.dt, [b.eff_dt for b in doc.bases], "null")
        if (doc.children or doc is top) and doc.eff_kt != K:
            doc.kt = doc.eff_kt = K
        # the bases disagree and the document says nothing: mostly it settles the matter by stating the attribute after all
        if doc.eff_kt == SX_CONFLICT and rng.random() < 0.8:
            doc.kt = doc.eff_kt = rng.choice(["basic-key", "identifier", "ipaddr-or-hostname"])
        if doc.eff_dt == SX_CONFLICT and rng.random() < 0.8:
            doc.dt = doc.eff_dt = rng.choice(["null", "zcvdt.wrap", "zcvdt.sectmarker"])
        if SX_CONFLICT in (doc.eff_kt, doc.eff_dt):
            refused = True
    if refused:
        return top, None
    return top, F.SchemaD(sd.children, sd.types, keytype=None if top.eff_kt == "basic-key" and rng.random() < 0.5 else top.eff_kt,
                          datatype=None if top.eff_dt == "null" else top.eff_dt, handler=sd.handler)


def _sx_profile(top):
    """which of the four combinations (key type stated?, datatype stated?) occur on documents that have bases, and whether
    what is inherited there is something else than the default"""
    out = set()
    for doc in top.walk():
        if doc.bases:
            out.add("%s keytype %s, datatype %s" % (
                "top" if doc is top else "inner",
                "stated" if doc.kt is not None else "conflicting" if doc.eff_kt == SX_CONFLICT else
                "inherited non-default" if doc.eff_kt != "basic-key" else "inherited default",
                "stated" if doc.dt is not None else "conflicting" if doc.eff_dt == SX_CONFLICT else
                "inherited non-default" if doc.eff_dt != "null" else "inherited default"))
    return out


def _sx_write(d, top):
    docs = {doc.name: doc.xml() for doc in top.walk()}
    for nm, x in docs.items():
        with open(os.path.join(d, nm), "w", encoding="utf-8") as f:
            f.write(x)
    return docs


def _sx_compare(ctx, rng, d, top, ex):
    """the document tree under `top` (written to d) against what the property says about it: None, or (kind, description, replay)"""
    import ZConfig
    docs = _sx_write(d, top)
    path = os.path.join(d, top.name)
    rep = {"documents": docs, "top": top.name,
           "stated": {doc.name: {"keytype": doc.kt, "datatype": doc.dt} for doc in top.walk()}}
    if ex is None:
        # bases that disagree and an extending document that does not settle it: there is no merged schema
        try:
            ZConfig.loadSchema(path)
            ra = "accepted"
        except ZConfig.SchemaError:
            ra = "schema-error"
        except Exception as e:
            ra = "exc:" + type(e).__name__
        if ra != "schema-error":
            return "conflict:" + ra, ("base schemas with conflicting key types / datatypes and an extending schema that states none: no merged schema "
                                      "exists, but the composed schema is %s" % ra), rep
        return None
    rep["expanded"] = F.render_xml(ex)
    try:
        a, b = ZConfig.loadSchema(path), F.load_real(ex)
    except Exception as e:
        return "load:" + type(e).__name__, ("a tree of schemas joined by extends, or its merged schema, failed to load: %s: %s"
                                            % (type(e).__name__, str(e)[:200])), rep
    differs = enc(F.digest(a)) != enc(F.digest(b))
    bad = same_behaviour(ctx, None, a, ex, b, F.elaborate(ex), rng, 40 if differs else 5)
    if bad:
        rep.update({"lines": bad[0], "composed_outcome": bad[1], "expanded_outcome": bad[2],
                    "composed_value": cfgrun.describe(bad[3]) if bad[3] is not None else None,
                    "expanded_value": cfgrun.describe(bad[4]) if bad[4] is not None else None})
        return "behaviour", ("a schema extending base schemas (%d documents) behaves differently from the single merged schema on %r"
                             % (len(docs), bad[0])), rep
    if differs:
        rep.update({"composed_top": enc(F.digest(a)[2][:4]), "expanded_top": enc(F.digest(b)[2][:4])})
        return "structure", "a schema extending base schemas (%d documents) differs structurally from the single merged schema" % len(docs), rep
    return None


def _sx_shrink(ctx, rng, d, top, ex, kind):
    """smaller trees with the same kind of difference: all types and top-level children dropped (what every document states
    stays), then base documents removed one at a time where the merged schema stays what it was"""
    def bare(t, e):
        t2 = copy.deepcopy(t)
        for doc in t2.walk():
            doc.types, doc.children = [], []
        return t2, (F.SchemaD([], [], keytype=e.keytype, datatype=e.datatype, handler=e.handler) if e is not None else None)

    def fewer(t, e):
        for k, doc in enumerate(t.walk()):
            for m in range(len(doc.bases)):
                t2 = copy.deepcopy(t)
                d2 = list(t2.walk())[k]
                gone = d2.bases.pop(m)
                if any(x.types or x.children for x in gone.walk()):
                    continue
                # only when the rule still gives every remaining document what it had
                ok = True
                for x in t2.walk():
                    kt = _sx_inherit(x.kt, [b.eff_kt for b in x.bases], "basic-key")
                    dt = _sx_inherit(x.dt, [b.eff_dt for b in x.bases], "null")
                    ok = ok and (kt, dt) == (x.eff_kt, x.eff_dt)
                if ok:
                    yield t2, e
    best = (top, ex)
    cands = [bare(top, ex)]
    budget = 60
    while cands and budget > 0:
        budget -= 1
        t2, e2 = cands.pop(0)
        try:
            r = _sx_compare(ctx, rng, d, t2, e2)
        except Exception:
            r = None
        if r is not None and r[0] == kind:
            best = (t2, e2)
            cands = list(fewer(t2, e2))
    return best


def _sx_family(ctx, root):
    """(c) generated: schemas of the C01 family delivered as trees of documents joined by schema-level extends, every document
    stating or inheriting key type and datatype independently, against the single merged schema (real vs real: structure and
    C01 texts; composed and merged documents also against the Lean model of the schema loader, which reads the base documents)"""
    import random
    rng = random.Random("C11/schema-extends-family/%s" % ctx.seed)     # own stream: the neighbouring streams keep their draws
    d = os.path.join(root, "sxf")
    os.makedirs(d, exist_ok=True)
    n = 500 if ctx.thorough() else 80
    texts, reals, reported = [], [], set()
    for i in range(n):
        sd = cfggen.gen_schema(rng, rich=rng.random() < 0.6)
        top, ex = _sx_gen(rng, "s%03d" % i, sd)
        docs = _sx_write(d, top)
        ctx.evaluations += 1
        ctx.nontriv(enc(sorted(docs.items())))
        ctx.count("schema-extends-family:documents=%d" % len(docs))
        ctx.count("schema-extends-family:bases-of-top=%d" % len(top.bases))
        for p in _sx_profile(top):
            ctx.count("schema-extends-family:" + p)
        if ex is None:
            ctx.count("schema-extends-family:no merged schema (unsettled conflict)")
        texts.append(docs[top.name])
        reals.append(elabrun.real_outcome(docs[top.name], "file://" + os.path.join(d, top.name)))
        if ex is not None:
            texts.append(F.render_xml(ex))
            reals.append(elabrun.real_outcome(texts[-1]))
        r = _sx_compare(ctx, rng, d, top, ex)
        ctx.count("schema-extends-family:%s" % ("differs:" + r[0] if r else "agrees"))
        if r is None or r[0] in reported:
            continue
        reported.add(r[0])
        small = _sx_shrink(ctx, random.Random(i), d, top, ex, r[0])
        r2 = _sx_compare(ctx, random.Random(i), d, *small)
        if r2 is not None and r2[0] == r[0]:
            r = r2
        _sx_write(d, top)       # the model reads the documents as generated
        ctx.violate(r[1], r[2], signature="C11:schema-extends-family:" + r[0])
    elabrun.compare(ctx, "schema-extends-family", texts, base_dir=d, reals=reals)


def _components(ctx, rng, pk):
    base = pk.add_component([F.AbsD("cab"), F.TypeD("cbase", [F.KeyD("k", "integer", default="1")])])
    left = pk.fresh_name("zcvleft")
    right = pk.fresh_name("zcvright")
    import os as _os
    for name, tname in ((left, "cleft"), (right, "cright")):
        d = _os.path.join(pk.root, name)
        _os.makedirs(d)
        open(_os.path.join(d, "__init__.py"), "w").write("")
        open(_os.path.join(d, "component.xml"), "w").write(
            "<component><import package='%s'/><sectiontype name='%s' extends='cbase' implements='cab'><key name='%s'/></sectiontype></component>" % (base, tname, tname))
        pk.names.append(name)
    body = "<multisection type='cab' name='*' attribute='items'/>"
    inplace = ("<schema><abstracttype name='cab'/><sectiontype name='cbase'><key name='k' datatype='integer' default='1'/></sectiontype>"
               "<sectiontype name='cleft' extends='cbase' implements='cab'><key name='cleft'/></sectiontype>"
               "<sectiontype name='cright' extends='cbase' implements='cab'><key name='cright'/></sectiontype>%s</schema>" % body)
    variants = ["<schema><import package='%s'/><import package='%s'/>%s</schema>" % (left, right, body),
                "<schema><import package='%s'/><import package='%s'/><import package='%s'/><import package='%s'/>%s</schema>" % (base, left, left, right, body),
                "<schema><import package='%s'/><import package='%s'/><import package='%s'/>%s</schema>" % (right, left, base, body)]
    try:
        ref = _load(inplace)
    except Exception as e:
        ctx.notes.append("in-place reference schema failed: %s" % e)
        return
    # components that import each other, and one that imports itself: every path that leads back to a component
    # already being read must find it defined once ("once, repeatedly or along several paths")
    cya, cyb, cys = pk.fresh_name("zcvcya"), pk.fresh_name("zcvcyb"), pk.fresh_name("zcvcys")
    for name, other, tname in ((cya, cyb, "cya"), (cyb, cya, "cyb"), (cys, cys, "cys")):
        d = _os.path.join(pk.root, name)
        _os.makedirs(d)
        open(_os.path.join(d, "__init__.py"), "w").write("")
        open(_os.path.join(d, "component.xml"), "w").write(
            "<component><import package='%s'/><import package='%s'/><sectiontype name='%s' extends='cbase' implements='cab'>"
            "<key name='%s'/></sectiontype><import package='%s'/></component>" % (base, other, tname, tname, other))
        pk.names.append(name)
    cyc_inplace = ("<schema><abstracttype name='cab'/><sectiontype name='cbase'><key name='k' datatype='integer' default='1'/></sectiontype>"
                   "%%s%s</schema>" % body)

    def _ty(n):
        return "<sectiontype name='%s' extends='cbase' implements='cab'><key name='%s'/></sectiontype>" % (n, n)
    cyc_variants = [
        ("<schema><import package='%s'/>%s</schema>" % (cya, body), cyc_inplace % (_ty("cyb") + _ty("cya"))),
        ("<schema><import package='%s'/><import package='%s'/>%s</schema>" % (cyb, cya, body), cyc_inplace % (_ty("cya") + _ty("cyb"))),
        ("<schema><import package='%s'/><import package='%s'/>%s</schema>" % (cys, cys, body), cyc_inplace % _ty("cys")),
    ]
    elabrun.compare(ctx, "components", [x for pair in cyc_variants for x in pair] + variants + [inplace])
    for v, inpl in cyc_variants:
        ctx.evaluations += 1
        ctx.nontriv(v)
        try:
            r2 = _load(inpl)
        except Exception as e:
            ctx.notes.append("in-place reference schema (cyclic) failed: %s" % e)
            continue
        try:
            a = _load(v)
        except Exception as e:
            ctx.violate("a schema importing components that import each other failed to load: %s: %s" % (type(e).__name__, str(e)[:200]),
                        {"composed": v, "expanded": inpl}, signature="C11:import-cycle:load")
            continue
        if enc(F.digest(a)[1:3]) != enc(F.digest(r2)[1:3]):
            ctx.violate("a schema importing components that import each other differs from defining the types in place",
                        {"composed": v, "expanded": inpl}, signature="C11:import-cycle:structure")
            continue
        for t in ["", "<cya>\nk 3\ncya x\n</cya>\n<cyb/>\n", "<cys/>\n<cys>\ncys 1\n</cys>\n", "<cbase/>\n", "<cyb>\nk bad\n</cyb>\n"]:
            ra, rb = _behaves(a, t), _behaves(r2, t)
            ctx.evaluations += 1
            if ra != rb:
                ctx.violate("a schema importing mutually importing components behaves differently from defining the types in place on %r: %r vs %r" % (t, ra, rb),
                            {"composed": v, "expanded": inpl, "text": t}, signature="C11:import-cycle:behaviour")
                break
    # importing from the configuration text: "%import pkg" (once, again in a later load, or through a component that imports pkg)
    # against one schema object must keep behaving like the schema with the types defined in place
    pimp = pk.add_component([F.TypeD("pimp", [F.KeyD("k", "integer", default="1")], implements="cab")])
    pvia = pk.add_component([F.TypeD("pvia", [], implements="cab")], imports=(pimp,))
    plain = "<schema><abstracttype name='cab'/>%s</schema>" % body
    inpl2 = ("<schema><abstracttype name='cab'/><sectiontype name='pimp' implements='cab'><key name='k' datatype='integer' default='1'/></sectiontype>"
             "<sectiontype name='pvia' implements='cab'/>%s</schema>" % body)
    try:
        sa, sb = _load(plain), _load(inpl2)
        seq = [("%%import %s\n<pimp>\nk 3\n</pimp>\n" % pimp, "<pimp>\nk 3\n</pimp>\n"),
               ("%%import %s\n<pimp/>\n" % pimp, "<pimp/>\n"),
               ("%%import %s\n<pvia/>\n<pimp/>\n" % pvia, "<pvia/>\n<pimp/>\n"),
               ("%%import %s\n%%import %s\n<pimp>\nk bad\n</pimp>\n" % (pimp, pimp), "<pimp>\nk bad\n</pimp>\n")]
        for i, (ta, tb) in enumerate(seq):
            ra, rb = _behaves(sa, ta), _behaves(sb, tb)
            ctx.evaluations += 1
            ctx.nontriv(("config-import", i))
            if ra != rb:
                ctx.violate("load %d on one schema object with %%import gives %r; with the types defined in place %r" % (i + 1, ra, rb),
                            {"composed": plain, "expanded": inpl2, "texts": [x[0] for x in seq], "step": i + 1},
                            signature="C11:config-import:behaviour")
                break
    except Exception as e:
        ctx.notes.append("config-import scenario failed to set up: %s" % e)
    # a schema loaded with an APPLICATION registry (an extra datatype name, a replaced stock datatype): a component %import-ed by
    # the configuration, imported by the schema, or written in place means the same
    try:
        import io
        import ZConfig.datatypes
        from ZConfig.loader import SchemaLoader, ConfigLoader
        preg = pk.add_component([])
        with open(_os.path.join(pk.root, preg, "component.xml"), "w") as f:
            f.write("<component><sectiontype name='regt' implements='cab'><key name='a' datatype='shout' default='dflt'/>"
                    "<key name='b' datatype='string-list' default='p,q r'/></sectiontype></component>")

        def mkreg():
            reg = ZConfig.datatypes.Registry()
            reg.register("shout", lambda v: v.upper() + "!")
            reg._stock["string-list"] = lambda v: v.split(",")
            return reg
        tin = "<sectiontype name='regt' implements='cab'><key name='a' datatype='shout' default='dflt'/><key name='b' datatype='string-list' default='p,q r'/></sectiontype>"
        forms = {"config-import": ("<schema><abstracttype name='cab'/>%s</schema>" % body, "%%import %s\n" % preg),
                 "schema-import": ("<schema><abstracttype name='cab'/><import package='%s'/>%s</schema>" % (preg, body), ""),
                 "in-place": ("<schema><abstracttype name='cab'/>%s%s</schema>" % (tin, body), "")}
        res = {}
        for form, (xml, pre) in forms.items():
            sch = SchemaLoader(mkreg()).loadFile(io.StringIO(xml))
            outs = []
            for t in ["<regt/>\n", "<regt>\na x,y\nb 1,2 3\n</regt>\n"]:
                try:
                    cfg, _ = ConfigLoader(sch).loadFile(io.StringIO(pre + t))
                    outs.append(["ok", [(i.a, i.b) for i in cfg.items]])
                except ZConfig.ConfigurationError as e:
                    outs.append(["cfg", type(e).__name__, str(e)[:80]])
                except Exception as e:
                    outs.append(["exc", type(e).__name__])
            res[form] = outs
            ctx.evaluations += 2
        ctx.nontriv("application-registry")
        if not (res["config-import"] == res["schema-import"] == res["in-place"]):
            ctx.violate("with an application datatype registry a component means different things %%import-ed by the configuration, imported by "
                        "the schema and written in place: %r" % (res,), {"forms": {k: v[0] for k, v in forms.items()}, "results": res},
                        signature="C11:import:registry")
    except Exception as e:
        ctx.notes.append("application-registry scenario failed to set up: %s: %s" % (type(e).__name__, e))
    for v in variants:
        ctx.evaluations += 1
        ctx.nontriv(v)
        try:
            a = _load(v)
        except Exception as e:
            ctx.violate("a schema importing components along several paths failed to load: %s: %s" % (type(e).__name__, e),
                        {"composed": v, "expanded": inplace}, signature="C11:import:load")
            continue
        for t in ["", "<cleft>\nk 3\ncleft x\n</cleft>\n<cright/>\n", "<cbase/>\n", "<cab/>\n", "<cright>\nk bad\n</cright>\n"]:
            ra, rb = _behaves(a, t), _behaves(ref, t)
            ctx.evaluations += 1
            if ra != rb:
                ctx.violate("a schema importing components behaves differently from defining the types in place on %r: %r vs %r" % (t, ra, rb),
                            {"composed": v, "expanded": inplace, "text": t}, signature="C11:import:behaviour")
                break
