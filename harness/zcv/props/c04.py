"""C04 — $-substitution computes exactly the documented replacement function"""
import os

from .. import core, util

ALPHA = "${}()aB_1-"
VALUES = ["", "v", "$x", "$$", "${a}", "w w"]
RULE = ("strings enumerated exhaustively over {$ { } ( ) a B _ 1 -} up to the tier's length, each under two "
        "complementary (mapping, environment) assignments over all names the alphabet can form; "
        "'$a'+c and c+'$'.. probes for every selected code point c; random strings up to length 200 built from "
        "reference/escape/malformed/literal pieces over full Unicode. non-trivial = contains '$'; distinct by (string, assignment)")


def _h(s):
    return sum((i + 3) * ord(c) for i, c in enumerate(s))


def tables(flip):
    names = [n for n in util.enum_strings("aB_1", 5, 1) if n[0] in "aB_"]
    pool = ["name", "Name", "NAME", "x", "X_1", "_", "a1", "HOME_x", "long_name_9"]
    defs = {}
    env = {}
    for n in names + pool:
        ln = n.lower()
        if (_h(ln) % 3 != 0) != flip:
            defs[ln] = VALUES[_h(ln) % len(VALUES)]
        if (_h(n) % 2 == 0) != flip:
            env[n] = (VALUES[(_h(n) // 2) % len(VALUES)] + "E") if _h(n) % 7 else ""      # some variables are set but EMPTY
    return defs, env


def impl_subst(substitute, Z, s, defs):
    try:
        return ["ok", substitute(s, defs)]
    except Z.SubstitutionReplacementError as e:
        return ["err", ["missing", e.source, e.name]]
    except Z.SubstitutionSyntaxError:
        return ["err", ["syntax"]]
    except Exception as e:  # anything else is outside the documented function
        return ["exc", type(e).__name__]


def canon_model(x):
    # (ok "..") | (err (syntax n)) | (err (missing s n))
    if x[0] == "ok":
        return ["ok", x[1]]
    if x[1][0] == "syntax":
        return ["err", ["syntax"]]
    return ["err", ["missing", x[1][1], x[1][2]]]


def random_strings(rng, n):
    pool = ["name", "Name", "NAME", "x", "X_1", "_", "a1", "HOME_x", "long_name_9", "aB", "B1"]
    lits = ["", " ", "a", "-", "}", ")", "{", "(", "é", "İ", "Σ", "中", "\U0001f600", "\n", "\t",
            " ", "[", "^", "`", "\\", "ſ", "K", "ı", "٠", "z9_"]

    def piece():
        k = rng.random()
        nm = rng.choice(pool)
        if k < 0.25:
            return rng.choice(lits) * rng.randint(1, 3)
        if k < 0.35:
            return "$$"
        if k < 0.5:
            return "$" + nm
        if k < 0.62:
            return "${" + nm + "}"
        if k < 0.74:
            return "$(" + nm + ")"
        if k < 0.8:
            return "${" + nm
        if k < 0.84:
            return "$(" + nm
        if k < 0.88:
            return "$" + rng.choice(lits)
        if k < 0.92:
            return "${" + rng.choice(lits) + "}"
        if k < 0.95:
            return "$" + nm + rng.choice(lits) + nm
        return "".join(chr(rng.choice([rng.randint(32, 126), rng.randint(0xa0, 0x2fff), rng.randint(0x10000, 0x10fff)]))
                       for _ in range(rng.randint(1, 6)))
    out = []
    for _ in range(n):
        s = "".join(piece() for _ in range(rng.randint(1, 14)))
        if rng.random() < 0.08:
            s += "$"
        out.append(s[:200])
    return out


def run(ctx):
    import ZConfig as Z
    from ZConfig.substitution import isname, substitute
    obligations, discharged, names = core.standard_prelude(ctx, ["ZCV.Props.C04"])
    maxlen = 7 if ctx.thorough() else 5
    if not ctx.driver_ok:
        ctx.notes.append("driver unavailable: correspondence and oracle could not run")
    saved_env = dict(os.environ)
    try:
        streams = []
        enum = list(util.enum_strings(ALPHA, maxlen))
        cps = util.interesting_codepoints(ctx.rng, not ctx.thorough())
        probes = []
        for c in cps:
            ch = chr(c)
            probes += ["$a" + ch + "b", "$" + ch, "${a" + ch + "}", "$(B" + ch + ")"]
        rnd = random_strings(ctx.rng, 1000000 if ctx.thorough() else 20000)
        for flip in (False, True):
            defs, env = tables(flip)
            # environment for the real code: exactly `env` for every name the tables know, others untouched
            for n in set(list(tables(False)[1]) + list(tables(True)[1])):
                os.environ.pop(n, None)
            os.environ.update(env)
            pre = [[core.sexp.Atom("setdefs"), [[k, v] for k, v in defs.items()]],
                   [core.sexp.Atom("setenv"), [[k, v] for k, v in env.items()]]]
            inputs = enum + probes + (rnd if not flip else rnd[: len(rnd) // 4])
            reqs = [[core.sexp.Atom("subst"), s] for s in inputs]
            impl = [impl_subst(substitute, Z, s, defs) for s in inputs]
            ans = core.driver_batch(reqs, prelude=pre) if ctx.driver_ok else [None] * len(inputs)
            streams.append((flip, defs, env, inputs, impl, ans))
        for flip, defs, env, inputs, impl, ans in streams:
            for s, r, a in zip(inputs, impl, ans):
                ctx.evaluations += 1
                if "$" in s:
                    ctx.nontriv((s, flip))
                ctx.count("impl:" + (r[0] if r[0] != "err" else r[1][0]))
                if a is None:
                    continue
                model, spec = canon_model(a[0]), canon_model(a[1])
                if r != spec:
                    ctx.violate("substitute(%r) = %r but the documented function gives %r" % (s, r, spec),
                                {"op": "substitute", "s": s, "defs": defs, "env": env, "impl": r, "spec": spec},
                                signature="C04:subst:%s->%s" % (spec[0], r[0]))
                if r != model:
                    ctx.disagree("subst", {"s": s, "flip": flip}, r, model)
            ctx.sample({"s": inputs[len(inputs) // 3], "impl": impl[len(inputs) // 3]})
        # isname
        inames = list(util.enum_strings("aB_1-$ ", 4)) + [chr(c) for c in cps] + ["a" + chr(c) for c in cps] + ["a\n", "\na", "a_1\n"]
        impl = [bool(isname(s)) for s in inames]
        if ctx.driver_ok:
            ans = core.driver_batch([[core.sexp.Atom("isname"), s] for s in inames])
            for s, r, a in zip(inames, impl, ans):
                ctx.evaluations += 1
                if s:
                    ctx.nontriv(("isname", s))
                m, sp = a[0] == "t", a[1] == "t"
                if r != sp:
                    ctx.violate("isname(%r) = %r, documented shape says %r" % (s, r, sp),
                                {"op": "isname", "s": s, "impl": r, "spec": sp}, signature="C04:isname:%s" % r)
                if r != m:
                    ctx.disagree("isname", s, r, m)
        _code_stream(ctx, Z, streams, inames, [bool(isname(s)) for s in inames])
        _in_configurations(ctx, Z, rnd)
        ctx.cov["exhaustive"] = True
        ctx.cov["enumeration"] = {"alphabet": ALPHA, "maxlen": maxlen, "strings": len(enum), "codepoints_probed": len(cps)}
        _shrink(ctx, substitute, Z)
    finally:
        os.environ.clear()
        os.environ.update(saved_env)
    return core.finish(ctx, obligations, discharged, names, RULE,
                       "lake build ZCV.Props.C04 && lake env lean ZCV/Audit/C04.lean",
                       ["os.getenv returns what os.environ holds", "mapping is a dict of str",
                        "model covers substitute/_split/isname; %define handling is C05"])


def _code_stream(ctx, Z, streams, inames, isname_impl):
    """real functions vs the GENERATED code (translation of substitution.py's source by harness/zcv/pytrans.py, run by the
    second driver zcdrv2): substitute on every input of the streams above under the same tables, _split on the same strings,
    isname.  'generated code = model' is a theorem (Lemmas/CodeEqSubst.lean); this validates the translator and ZCV/Py.lean."""
    from ZConfig.substitution import _split
    if not core.ensure_driver2(ctx.tie):
        ctx.notes.append("zcdrv2 (generated code) could not be built: the code-translation tie is broken; other streams unaffected")
        ctx.cov["generated_code_stream"] = "driver unavailable"
        return
    A = core.sexp.Atom
    n = 0
    import time
    t0 = time.time()

    def opt(x):
        return "none" if x is None else ["s", x]
    for flip, defs, env, inputs, impl, _ans in streams:
        if flip and not ctx.thorough():
            # quick tier: the complementary tables only on every 4th input (the tables decide which names resolve, not the parse)
            inputs, impl = inputs[::4], impl[::4]
        pre = [[A("setdefs"), [[k, v] for k, v in defs.items()]], [A("setenv"), [[k, v] for k, v in env.items()]]]
        ans = core.driver_batch([[A("code"), "substitute", s] for s in inputs], prelude=pre, exe=core.DRIVER2)
        for s, r, a in zip(inputs, impl, ans):
            n += 1
            if r[0] == "exc":
                continue
            got = ["ok", a[1]] if a[0] == "ok" else ["err", [str(a[1][0])] + [x for x in a[1][1:]]]
            if got != r:
                ctx.disagree("generated-code:substitute", {"s": s, "flip": flip}, r, a)
        if flip:
            continue
        ans = core.driver_batch([[A("code"), "_split", s] for s in inputs], exe=core.DRIVER2)
        for s, a in zip(inputs, ans):
            n += 1
            try:
                t = _split(s)
                r = ["ok", ["tup"] + [opt(x) for x in t]]
            except Z.SubstitutionSyntaxError:
                r = ["err", ["syntax"]]
            except Exception as e:
                r = ["exc", type(e).__name__]
            if r[0] != "exc" and [a[0], a[1]] != r:
                ctx.disagree("generated-code:_split", s, r, a)
    ans = core.driver_batch([[A("code"), "isname", s] for s in inames], exe=core.DRIVER2)
    for s, r, a in zip(inames, isname_impl, ans):
        n += 1
        if a != ["ok", ["b", "t" if r else "f"]]:
            ctx.disagree("generated-code:isname", s, r, a)
    ctx.evaluations += n
    ctx.cov["generated_code_stream"] = {"functions": ["substitute", "_split", "isname"], "evaluations": n, "seconds": round(time.time() - t0, 1)}


def _in_configurations(ctx, Z, strings):
    """the same function where the configuration parser applies it: a key's value, and a %define value that is read twice
    (a re-definition compares expanded values: the expansion of the second reading must not be expanded again).  Expected:
    the documented function on the value text, with the definitions made by the %define lines before it."""
    import io
    defs = {"name": "v1", "x": "$literal", "a1": "", "long_name_9": "w $$ w"}
    env = tables(False)[1]
    pre_lines = ["%%define %s %s" % (k, v.replace("$", "$$")) for k, v in defs.items()]
    schema = Z.loadSchemaFile(io.StringIO("<schema><multikey name='k'/></schema>"))
    cand = [s for s in dict.fromkeys(strings) if s and s == s.strip() and not any(c in s for c in "\n\r\x0b\x0c\x1c\x1d\x1e\x85\u2028\u2029")]
    cand = [s for s in cand if "$" in s][: (6000 if ctx.thorough() else 1200)]
    cand += ["$$5", "$$target", "$$$$", "a$$b$$", "$${x}", "$$(HOME_x)", "$x", "${x}$$", "$name$$name"]
    envnames = sorted(env)[:6]
    good = ["$$", "$$", "$name", "${Name}", "$X", "${a1}", "$long_name_9", "lit", " ", "-", "/p", "$$x", "$${a}", "{", "}", "(", ")"] + ["$(%s)" % n for n in envnames]
    for _ in range(3000 if ctx.thorough() else 700):
        t = "".join(ctx.rng.choice(good) for _ in range(ctx.rng.randint(1, 6))).strip()
        if t:
            cand.append(t)
    cand = list(dict.fromkeys(cand))
    if not ctx.driver_ok:
        return
    for n in set(list(tables(False)[1]) + list(tables(True)[1])):
        os.environ.pop(n, None)
    os.environ.update(env)
    pre = [[core.sexp.Atom("setdefs"), [[k, v] for k, v in defs.items()]], [core.sexp.Atom("setenv"), [[k, v] for k, v in env.items()]]]
    ans = core.driver_batch([[core.sexp.Atom("subst"), s_] for s_ in cand], prelude=pre)

    def load(lines):
        try:
            cfg, _ = Z.loadConfigFile(schema, io.StringIO("".join(l + "\n" for l in lines)))
            return ["ok", list(cfg.k)]
        except Z.ConfigurationError as e:
            return ["rejected", type(e).__name__]
        except Exception as e:
            return ["exc", type(e).__name__]
    for s_, a in zip(cand, ans):
        spec = canon_model(a[1])
        want = ["ok", [spec[1]]] if spec[0] == "ok" else ["rejected"]
        if spec[0] == "ok" and spec[1] != spec[1].strip():
            continue        # a value with blank edges: the two shapes below differ in where stripping happens
        for shape, lines in (("value", pre_lines + ["k " + s_]),
                             ("define-twice", pre_lines + ["%define zq " + s_, "%define zq " + s_, "k $zq"]),
                             ("define-once", pre_lines + ["%define zq " + s_, "k ${zq}"])):
            got = load(lines)
            ctx.evaluations += 1
            ctx.count("in-configuration:%s:%s" % (shape, got[0]))
            if got[: len(want)] != want:
                ctx.violate("configuration %r: the loader gives %r, the documented substitution of %r gives %r" % (lines[len(pre_lines):], got, s_, spec),
                            {"op": "substitute-in-configuration", "lines": lines, "s": s_, "defs": defs, "env": env, "impl": got, "spec": spec},
                            signature="C04:in-configuration:%s:%s->%s" % (shape, want[0], got[0]))


def _shrink(ctx, substitute, Z):
    """minimise the first few violating strings (keeps the same kind of disagreement)"""
    done = 0
    for v in ctx.violations:
        if done >= 3 or v.replay.get("op") != "substitute":
            continue
        done += 1
        defs, env = v.replay["defs"], v.replay["env"]

        def fails(cands):
            pre = [[core.sexp.Atom("setdefs"), [[k, x] for k, x in defs.items()]],
                   [core.sexp.Atom("setenv"), [[k, x] for k, x in env.items()]]]
            ans = core.driver_batch([[core.sexp.Atom("subst"), c] for c in cands], prelude=pre)
            return [impl_subst(substitute, Z, c, defs) != canon_model(a[1]) for c, a in zip(cands, ans)]
        small = util.shrink_seq(v.replay["s"], fails)
        if small != v.replay["s"]:
            v.replay["minimised"] = small
            v.replay["minimised_impl"] = impl_subst(substitute, Z, small, defs)
