"""C06 — %include behaves as textual inclusion of a self-contained fragment"""
import re

from .. import cfgrun, cfgstream, core, cutter

RULE = ("valid and invalid texts of the C01/C05 corpus (with %define/uses mixed in), 1..3 balanced line ranges cut out "
        "into fragments (nested cuts allowed) placed in the same / a sub / the parent directory of the includer on a real "
        "scratch tree, or reached through a %define-d absolute directory or URL, or the same fragment reached twice "
        "(twice in one file, through two wrappers = a diamond); in a share of the texts some lines carry, in the MIDDLE (inside a value, "
        "as the blank between key and value, inside a comment), a character that other line-splitting conventions take for a line "
        "end (lone CR, VT, FF, FS/GS/RS, NEL, LS, PS) - a complete line ends at '\\n' only, so the files are written untranslated "
        "and the inlined text is the same list of lines; the cut text loaded by absolute path / relative path / file: URL / open file object (opened by absolute or relative "
        "path) vs loadConfigFile(inline text); plus unbalanced cuts which must be "
        "rejected; non-trivial = at least one cut applied; distinct by (schema, text, cut)")


def same_outcome(a, b):
    """equal value tree, or both rejected"""
    if a.out[0] != b.out[0]:
        return False
    if a.out[0] == "ok":
        return cfgrun.describe(a.cfg) == cfgrun.describe(b.cfg)
    return True


def add_defines(rng, lines):
    """sprinkle %define / uses so that definitions flow in and out of fragments"""
    if rng.random() < 0.5 or not lines:
        return lines
    out = list(lines)
    names = ["zv1", "ZV2", "zv3"]
    for _ in range(rng.randint(1, 3)):
        p = rng.randint(0, len(out))
        n = rng.choice(names)
        out.insert(p, "%define " + n + " " + rng.choice(["lit", "$zv1", "a b", "$$x", ""]))
    for i, l in enumerate(out):
        s = l.strip()
        if s and not s.startswith(("<", "%", "#")) and " " in s and rng.random() < 0.2:
            out[i] = l.rstrip() + rng.choice(["$zv1", "${ZV2}", "$zv3"])
    return out


# characters that str.splitlines() / universal-newline readers take for a line end.  The configuration grammar does not: a line
# ends at '\n' and nowhere else, so in the middle of a line they are ordinary text (white space to strip()/split(), else data)
MIDLINE = ["\r"] * 5 + ["\x0b", "\x0c", "\x1c", "\x1d", "\x1e", "\x85", "\u2028", "\u2029"]
# (the information separators U+001C..U+001E occur inside VALUES too: str.strip() removes them, int() / float() do not - the
# number model says so since `intSpace` / the generated table `intSpaceExcluded`: '1\x1ch' as a time-interval is refused by both)
_KV = re.compile(r"^(\s*)([^\s<%#]\S*)([ \t]+)(\S(?:.*\S)?)(\s*)$")


def add_midline_line_ends(rng, lines, p=0.35, kinds=("value", "value", "separator", "comment", "comment-line")):
    """in a share p of the texts: one or two lines get a character of MIDLINE in the middle - inside the value of a key, in place
    of (or next to) the blank between key and value, inside a comment that is already there, or in a new comment line whose tail
    would be a key / a section bracket / a directive if the line were split there.  "Complete lines" are what '\n' ends: the text
    with these lines moved into a fragment (a file holding exactly these characters) must load like the text holding them inline.
    Returns (lines, [what was put where])"""
    if not lines or rng.random() >= p:
        return lines, []
    out = list(lines)
    marks = []
    for _ in range(rng.choice([1, 1, 2])):
        ch = rng.choice(MIDLINE)
        kind = rng.choice(kinds)
        kvs = [i for i, l in enumerate(out) if _KV.match(l)]
        if kind in ("value", "separator") and not kvs:
            kind = "comment"
        if kind == "value":
            i = rng.choice(kvs)
            ind, key, sep, val, tail = _KV.match(out[i]).groups()
            at = rng.randint(1, len(val) - 1) if len(val) > 1 else rng.choice([0, 1])
            out[i] = ind + key + sep + val[:at] + rng.choice([ch, ch, " " + ch, ch + " "]) + val[at:] + tail
        elif kind == "separator":
            i = rng.choice(kvs)
            ind, key, sep, val, tail = _KV.match(out[i]).groups()
            out[i] = ind + key + rng.choice([ch, ch, sep + ch, ch + sep]) + val + tail
        else:
            cms = [i for i, l in enumerate(out) if l.strip().startswith("#")]
            tailtext = rng.choice(["k v", "more", "</x>", "<x>", "%define zv1 q", "# still the comment"])
            if kind == "comment" and cms:
                i = rng.choice(cms)
                out[i] = out[i].rstrip() + " " + ch + tailtext
            else:
                kind = "comment-line"
                i = rng.randint(0, len(out))
                near = out[min(i, len(out) - 1)]
                out.insert(i, near[: len(near) - len(near.lstrip(" \t"))] + "# note" + rng.choice(["", " "]) + ch + tailtext)
        marks.append([kind, "U+%04X" % ord(ch), i])
    return out, marks


def run(ctx):
    obligations, discharged, names = core.standard_prelude(ctx, ["ZCV.Props.C06"])
    n_s, n_t = (600, 30) if ctx.thorough() else (60, 14)
    base = cfgstream.gen_cases(ctx, n_s, n_t, nfaults=(0, 0, 0, 1, 1, 2))
    rng = ctx.rng
    inl, cuts, unb = [], [], []
    for c in base:
        c.lines = add_defines(rng, c.lines)
        c.lines, midline = add_midline_line_ends(rng, c.lines)
        k = rng.random()
        special = None
        if k < 0.15:
            special = cutter.cut_via_define(rng, c.lines)
        elif k < 0.35:
            special = cutter.cut_shared(rng, c.lines)
        if special:
            c.lines, main, files, placements = special
        else:
            main, files, placements = cutter.cut(rng, c.lines, rng.choice([1, 1, 2, 3]))
        if not placements:
            ctx.count("no-cut-possible")
            continue
        d = cfgstream.Case()
        d.sd, d.real, d.elab, d.hnames = c.sd, c.real, c.elab, c.hnames
        d.lines, d.files, d.faults = main, files, c.faults
        d.meta = {"main": "m/main.conf", "placements": placements, "inline": c.lines,
                  "entry": rng.choice(["abs", "abs", "rel", "url", "fileobj-abs", "fileobj-rel", "fileobj-pathurl", "fileobj-copy-url"])}
        if d.meta["entry"] == "fileobj-pathurl" and any("%include" in l and "%" in l.split("%include", 1)[1]
                                                       for ls in [main] + list(files.values()) for l in ls):
            # with a plain path as the "URL", an %include argument is joined as a path: percent-escapes in it are not URL
            # escapes any more (out of contract, not compared)
            d.meta["entry"] = "fileobj-abs"
        ctx.count("entry:" + d.meta["entry"])
        if midline:
            d.meta["midline"] = midline
            for kind, _, _ in midline:
                ctx.count("mid-line-line-end:" + kind)
        inl.append(c)
        cuts.append(d)
        for _, _, where, _, _ in placements:
            ctx.count("placement:" + where)
        ctx.count("cuts:%d" % len(placements))
        # a fragment that leaves a section open although the includer is balanced on its own (and the dual: a fragment
        # that closes a section the includer opened): constructed, not cut
        import re as _re
        opens = [l for l in c.lines if _re.match(r"^\s*<[^\s<>/()]+(\s+[^\s<>()]+)?\s*>\s*$", l) and not l.strip().endswith("/>")]
        if opens and rng.random() < 0.5:
            hdr = rng.choice(opens).strip()
            u = cfgstream.Case()
            u.sd, u.real, u.elab, u.hnames = c.sd, c.real, c.elab, c.hnames
            pos = rng.randint(0, len(c.lines))
            if rng.random() < 0.6:
                u.lines = c.lines[:pos] + ["%include ufrag2.conf"] + c.lines[pos:]
                u.files = {"m/ufrag2.conf": ["# opens and never closes", hdr]}
            else:
                ty = hdr[1:-1].split()[0]
                u.lines = c.lines[:pos] + [hdr, "%include ufrag2.conf"] + c.lines[pos:]
                u.files = {"m/ufrag2.conf": ["</%s>" % ty]}
            u.meta = {"main": "m/main.conf", "range": None, "inline": c.lines}
            u.faults = c.faults
            unb.append(u)
        # an unbalanced cut of the same text
        ur = cutter.unbalanced_ranges(c.lines)
        if ur and rng.random() < 0.4:
            i, j = rng.choice(ur)
            u = cfgstream.Case()
            u.sd, u.real, u.elab, u.hnames = c.sd, c.real, c.elab, c.hnames
            u.lines = c.lines[:i] + ["%include ufrag.conf"] + c.lines[j:]
            u.files = {"m/ufrag.conf": c.lines[i:j]}
            u.meta = {"main": "m/main.conf", "range": (i, j), "inline": c.lines}
            u.faults = c.faults
            unb.append(u)
    cfgstream.evaluate(ctx, inl)
    cfgstream.evaluate(ctx, cuts)
    cfgstream.evaluate(ctx, unb)
    for a, b in zip(inl, cuts):
        ctx.nontriv((id(b.sd), tuple(b.lines), tuple(sorted(b.files))))
        ctx.count("inline:" + a.out[0])
        if b.model is not None:
            why = None
            if b.model[0] != b.out[0] and not (b.out[0] == "internal"):
                why = "outcome class"
            elif b.model[0] == "ok" and not cfgrun.match_val(b.model[1], b.cfg):
                why = "value"
            if why:
                ctx.disagree("include-load:" + why, b.replay(), b.out, b.model[:6])
        if a.out[0] == "internal" or b.out[0] == "internal":
            continue   # C07's observable
        if not same_outcome(a, b):
            ctx.violate("moving balanced lines into an %%include changed the outcome: inline %s, with include %s" % (a.out[:2], b.out[:5]),
                        dict(b.replay(), inline=a.lines, inline_outcome=a.out, include_outcome=b.out,
                             placements=b.meta["placements"], entry=b.meta["entry"],
                             mid_line_line_end_characters=b.meta.get("midline", [])),
                        signature="C06:%s->%s" % (a.out[0], b.out[0]))
    for u in unb:
        ctx.count("unbalanced:" + u.out[0])
        ctx.nontriv((id(u.sd), tuple(u.lines), "u"))
        if u.out[0] == "ok":
            ctx.violate("a fragment that closes a section it did not open or leaves one open was accepted",
                        u.replay(), signature="C06:unbalanced-accepted")
    if cuts:
        ctx.sample({"main": cuts[0].lines, "files": cuts[0].files, "outcome": cuts[0].out[:2]})
    _through_symlinks(ctx)
    return core.finish(ctx, obligations, discharged, names, RULE,
                       "lake build ZCV.Props.C06 && lake env lean ZCV/Audit/C06.lean",
                       ["resolve table computed with urllib.parse only", "file system and urlopen are outside the model"])


def _through_symlinks(ctx):
    """"Relative references are resolved against the URL of the including resource": the URL of a resource named through a
    symbolic link (the file itself or a directory on the way) is the NAME it was given by, not the link's target; the text with
    the %include and the inlined text must agree for every way of naming the top resource"""
    import io
    import os
    import shutil
    import tempfile
    import urllib.request
    import ZConfig
    schema = ZConfig.loadSchemaFile(io.StringIO("<schema><multikey name='k'/></schema>"))
    root = tempfile.mkdtemp(prefix="zcv-c06l-", dir="/dev/shm" if os.path.isdir("/dev/shm") else None)
    try:
        def w(rel, t):
            p = os.path.join(root, rel)
            os.makedirs(os.path.dirname(p), exist_ok=True)
            with open(p, "w") as f:
                f.write(t)
        # a linked FILE: enabled/site.conf -> ../available/site.conf ; the fragment sits next to the link
        w("available/site.conf", "k from-site\n%include local.conf\nk after\n")
        w("available/local.conf", "k DECOY-next-to-the-target\n")
        w("enabled/local.conf", "k local-next-to-the-link\n")
        os.symlink(os.path.join("..", "available", "site.conf"), os.path.join(root, "enabled", "site.conf"))
        # a linked DIRECTORY on the way: cur -> rel/v2 ; '../shared.conf' is relative to the name used
        w("rel/v2/app.conf", "k from-app\n<!-- -->\n".replace("<!-- -->\n", "") + "%include ../shared.conf\n")
        w("shared.conf", "k shared-next-to-the-link\n")
        w("rel/shared.conf", "k DECOY-next-to-the-target-directory\n")
        os.symlink(os.path.join("rel", "v2"), os.path.join(root, "cur"))
        plans = [("enabled/site.conf", ["from-site", "local-next-to-the-link", "after"]), ("cur/app.conf", ["from-app", "shared-next-to-the-link"])]
        cwd0 = os.getcwd()
        for rel, inline in plans:
            path = os.path.join(root, rel)
            for way in ("abs", "rel", "url", "fileobj"):
                try:
                    os.chdir(root)
                    if way == "abs":
                        cfg, _ = ZConfig.loadConfig(schema, path)
                    elif way == "rel":
                        cfg, _ = ZConfig.loadConfig(schema, rel)
                    elif way == "url":
                        cfg, _ = ZConfig.loadConfig(schema, "file://" + urllib.request.pathname2url(path))
                    else:
                        with open(path) as f:
                            cfg, _ = ZConfig.loadConfigFile(schema, f)
                    got = ["ok", list(cfg.k)]
                except ZConfig.ConfigurationError as e:
                    got = ["rejected", str(e)[:120]]
                except Exception as e:
                    got = ["exc", type(e).__name__]
                finally:
                    os.chdir(cwd0)
                ctx.evaluations += 1
                ctx.nontriv(("symlink", rel, way))
                if got != ["ok", inline]:
                    ctx.violate("a resource named through a symbolic link (%s, by %s): the text with the %%include gives %r, the inlined text %r"
                                % (rel, way, got, inline), {"layout": "enabled/site.conf -> ../available/site.conf ; cur -> rel/v2", "resource": rel,
                                                            "way": way, "with_include": got, "inline": inline}, signature="C06:symlink:%s" % got[0])
    finally:
        shutil.rmtree(root, ignore_errors=True)
