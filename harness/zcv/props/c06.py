"""C06 — %include behaves as textual inclusion of a self-contained fragment"""
import re

from .. import cfgrun, cfgstream, core, cutter

RULE = ("valid and invalid texts of the C01/C05 corpus (with %define/uses mixed in), 1..3 balanced line ranges cut out "
        "into fragments (nested cuts allowed) placed in the same / a sub / the parent directory of the includer on a real "
        "scratch tree, or reached through a %define-d absolute directory or URL, or the same fragment reached twice "
        "(twice in one file, through two wrappers = a diamond); in a share of the texts some lines carry, in the MIDDLE (inside a value, "
        "as the blank between key and value, inside a comment), a character that other line-splitting conventions take for a line "
        "end (lone CR, VT, FF, FS/GS/RS, NEL, LS, PS) - a complete line ends at '\\n' only, so the files are written untranslated "
        "and the inlined text is the same list of lines; the cut text loaded by absolute path / relative path / file: URL / open file object (opened by absolute or relative "
        "path) vs loadConfigFile(inline text); plus unbalanced cuts which must be "
        "rejected; non-trivial = at least one cut applied; distinct by (schema, text, cut)")

RULE_FIRST_CHARACTER = ("; in a share of the texts one line BEGINS (column 0) with a character that is data to the grammar (not white "
                        "space for strip()) but that decoders, editors and terminals treat as a mark or drop at the start of a stream "
                        "(U+FEFF byte order mark, U+FFFE, zero-width space, word joiner, soft hyphen, LRM, SUB) and a cut STARTS at that "
                        "line, so that the character is the first character of the fragment resource (or, uncut at line 1, of the top "
                        "resource); plus, real vs real, valid texts under keytype string with free-form keys, where such a character is "
                        "part of a key name and must arrive in the value tree")


def same_outcome(a, b):
    """equal value tree, or both rejected"""
    if a.out[0] != b.out[0]:
        return False
    if a.out[0] == "ok":
        return cfgrun.describe(a.cfg) == cfgrun.describe(b.cfg)
    return True


def add_defines(rng, lines):
    """sprinkle %define / uses so that definitions flow in and out of fragments"""
    if rng.random() < 0.5 or not lines:
        return lines
    out = list(lines)
    names = ["zv1", "ZV2", "zv3"]
    for _ in range(rng.randint(1, 3)):
        p = rng.randint(0, len(out))
        n = rng.choice(names)
        out.insert(p, "%define " + n + " " + rng.choice(["lit", "$zv1", "a b", "$$x", ""]))
    for i, l in enumerate(out):
        s = l.strip()
        if s and not s.startswith(("<", "%", "#")) and " " in s and rng.random() < 0.2:
            out[i] = l.rstrip() + rng.choice(["$zv1", "${ZV2}", "$zv3"])
    return out


# characters that str.splitlines() / universal-newline readers take for a line end.  The configuration grammar does not: a line
# ends at '\n' and nowhere else, so in the middle of a line they are ordinary text (white space to strip()/split(), else data)
MIDLINE = ["\r"] * 5 + ["\x0b", "\x0c", "\x1c", "\x1d", "\x1e", "\x85", "\u2028", "\u2029"]
# (the information separators U+001C..U+001E occur inside VALUES too: str.strip() removes them, int() / float() do not - the
# number model says so since `intSpace` / the generated table `intSpaceExcluded`: '1\x1ch' as a time-interval is refused by both)
_KV = re.compile(r"^(\s*)([^\s<%#]\S*)([ \t]+)(\S(?:.*\S)?)(\s*)$")


def add_midline_line_ends(rng, lines, p=0.35, kinds=("value", "value", "separator", "comment", "comment-line")):
    """in a share p of the texts: one or two lines get a character of MIDLINE in the middle - inside the value of a key, in place
    of (or next to) the blank between key and value, inside a comment that is already there, or in a new comment line whose tail
    would be a key / a section bracket / a directive if the line were split there.  "Complete lines" are what '\n' ends: the text
    with these lines moved into a fragment (a file holding exactly these characters) must load like the text holding them inline.
    Returns (lines, [what was put where])"""
    if not lines or rng.random() >= p:
        return lines, []
    out = list(lines)
    marks = []
    for _ in range(rng.choice([1, 1, 2])):
        ch = rng.choice(MIDLINE)
        kind = rng.choice(kinds)
        kvs = [i for i, l in enumerate(out) if _KV.match(l)]
        if kind in ("value", "separator") and not kvs:
            kind = "comment"
        if kind == "value":
            i = rng.choice(kvs)
            ind, key, sep, val, tail = _KV.match(out[i]).groups()
            at = rng.randint(1, len(val) - 1) if len(val) > 1 else rng.choice([0, 1])
            out[i] = ind + key + sep + val[:at] + rng.choice([ch, ch, " " + ch, ch + " "]) + val[at:] + tail
        elif kind == "separator":
            i = rng.choice(kvs)
            ind, key, sep, val, tail = _KV.match(out[i]).groups()
            out[i] = ind + key + rng.choice([ch, ch, sep + ch, ch + sep]) + val + tail
        else:
            cms = [i for i, l in enumerate(out) if l.strip().startswith("#")]
            tailtext = rng.choice(["k v", "more", "</x>", "<x>", "%define zv1 q", "# still the comment"])
            if kind == "comment" and cms:
                i = rng.choice(cms)
                out[i] = out[i].rstrip() + " " + ch + tailtext
            else:
                kind = "comment-line"
                i = rng.randint(0, len(out))
                near = out[min(i, len(out) - 1)]
                out.insert(i, near[: len(near) - len(near.lstrip(" \t"))] + "# note" + rng.choice(["", " "]) + ch + tailtext)
        marks.append([kind, "U+%04X" % ord(ch), i])
    return out, marks


def run(ctx):
    obligations, discharged, names = core.standard_prelude(ctx, ["ZCV.Props.C06"])
    n_s, n_t = (600, 30) if ctx.thorough() else (60, 14)
    base = cfgstream.gen_cases(ctx, n_s, n_t, nfaults=(0, 0, 0, 1, 1, 2))
    rng = ctx.rng
    inl, cuts, unb = [], [], []
    for c in base:
        c.lines = add_defines(rng, c.lines)
        c.lines, midline = add_midline_line_ends(rng, c.lines)
        c.lines, firsts = add_first_characters(rng, c.lines)
        k = rng.random()
        special = None
        if firsts and k < 0.85:
            # the cut starts at a line that begins with such a character: it is the first character of the fragment
            special = cut_starting_at(rng, c.lines, [i for _, _, i in firsts])
        elif k < 0.15:
            special = cutter.cut_via_define(rng, c.lines)
        elif k < 0.35:
            special = cutter.cut_shared(rng, c.lines)
        if special:
            c.lines, main, files, placements = special
        else:
            main, files, placements = cutter.cut(rng, c.lines, rng.choice([1, 1, 2, 3]))
        if not placements:
            ctx.count("no-cut-possible")
            continue
        d = cfgstream.Case()
        d.sd, d.real, d.elab, d.hnames = c.sd, c.real, c.elab, c.hnames
        d.lines, d.files, d.faults = main, files, c.faults
        d.meta = {"main": "m/main.conf", "placements": placements, "inline": c.lines,
                  "entry": rng.choice(["abs", "abs", "rel", "url", "fileobj-abs", "fileobj-rel", "fileobj-pathurl", "fileobj-copy-url"])}
        if d.meta["entry"] == "fileobj-pathurl" and any("%include" in l and "%" in l.split("%include", 1)[1]
                                                       for ls in [main] + list(files.values()) for l in ls):
            # with a plain path as the "URL", an %include argument is joined as a path: percent-escapes in it are not URL
            # escapes any more (out of contract, not compared)
            d.meta["entry"] = "fileobj-abs"
        ctx.count("entry:" + d.meta["entry"])
        if midline:
            d.meta["midline"] = midline
            for kind, _, _ in midline:
                ctx.count("mid-line-line-end:" + kind)
        if firsts:
            d.meta["firsts"] = firsts
            docs = [main] + list(files.values())
            for kind, code, _ in firsts:
                ctx.count("first-character-of-line:" + kind)
                if any(ls and ls[0][:1] == chr(int(code[2:], 16)) for ls in docs):
                    ctx.count("first-character-of-resource:" + code)
        inl.append(c)
        cuts.append(d)
        for _, _, where, _, _ in placements:
            ctx.count("placement:" + where)
        ctx.count("cuts:%d" % len(placements))
        # a fragment that leaves a section open although the includer is balanced on its own (and the dual: a fragment
        # that closes a section the includer opened): constructed, not cut
        import re as _re
        opens = [l for l in c.lines if _re.match(r"^\s*<[^\s<>/()]+(\s+[^\s<>()]+)?\s*>\s*$", l) and not l.strip().endswith("/>")]
        if opens and rng.random() < 0.5:
            hdr = rng.choice(opens).strip()
            u = cfgstream.Case()
            u.sd, u.real, u.elab, u.hnames = c.sd, c.real, c.elab, c.hnames
            pos = rng.randint(0, len(c.lines))
            if rng.random() < 0.6:
                u.lines = c.lines[:pos] + ["%include ufrag2.conf"] + c.lines[pos:]
                u.files = {"m/ufrag2.conf": ["# opens and never closes", hdr]}
            else:
                ty = hdr[1:-1].split()[0]
                u.lines = c.lines[:pos] + [hdr, "%include ufrag2.conf"] + c.lines[pos:]
                u.files = {"m/ufrag2.conf": ["</%s>" % ty]}
            u.meta = {"main": "m/main.conf", "range": None, "inline": c.lines}
            u.faults = c.faults
            unb.append(u)
        # an unbalanced cut of the same text
        ur = cutter.unbalanced_ranges(c.lines)
        if ur and rng.random() < 0.4:
            i, j = rng.choice(ur)
            u = cfgstream.Case()
            u.sd, u.real, u.elab, u.hnames = c.sd, c.real, c.elab, c.hnames
            u.lines = c.lines[:i] + ["%include ufrag.conf"] + c.lines[j:]
            u.files = {"m/ufrag.conf": c.lines[i:j]}
            u.meta = {"main": "m/main.conf", "range": (i, j), "inline": c.lines}
            u.faults = c.faults
            unb.append(u)
    cfgstream.evaluate(ctx, inl)
    cfgstream.evaluate(ctx, cuts)
    cfgstream.evaluate(ctx, unb)
    for a, b in zip(inl, cuts):
        ctx.nontriv((id(b.sd), tuple(b.lines), tuple(sorted(b.files))))
        ctx.count("inline:" + a.out[0])
        if b.model is not None:
            why = None
            if b.model[0] != b.out[0] and not (b.out[0] == "internal"):
                why = "outcome class"
            elif b.model[0] == "ok" and not cfgrun.match_val(b.model[1], b.cfg):
                why = "value"
            if why:
                ctx.disagree("include-load:" + why, b.replay(), b.out, b.model[:6])
        if a.out[0] == "internal" or b.out[0] == "internal":
            continue   # C07's observable
        if not same_outcome(a, b):
            ctx.violate("moving balanced lines into an %%include changed the outcome: inline %s, with include %s" % (a.out[:2], b.out[:5]),
                        dict(b.replay(), inline=a.lines, inline_outcome=a.out, include_outcome=b.out,
                             placements=b.meta["placements"], entry=b.meta["entry"],
                             mid_line_line_end_characters=b.meta.get("midline", []),
                             first_characters_of_lines=b.meta.get("firsts", [])),
                        signature="C06:%s->%s" % (a.out[0], b.out[0]))
    for u in unb:
        ctx.count("unbalanced:" + u.out[0])
        ctx.nontriv((id(u.sd), tuple(u.lines), "u"))
        if u.out[0] == "ok":
            ctx.violate("a fragment that closes a section it did not open or leaves one open was accepted",
                        u.replay(), signature="C06:unbalanced-accepted")
    if cuts:
        ctx.sample({"main": cuts[0].lines, "files": cuts[0].files, "outcome": cuts[0].out[:2]})
    _through_symlinks(ctx)
    _first_character_in_key_names(ctx)
    return core.finish(ctx, obligations, discharged, names, RULE + RULE_FIRST_CHARACTER,
                       "lake build ZCV.Props.C06 && lake env lean ZCV/Audit/C06.lean",
                       ["resolve table computed with urllib.parse only", "file system and urlopen are outside the model"])


def _through_symlinks(ctx):
    """"Relative references are resolved against the URL of the including resource": the URL of a resource named through a
    symbolic link (the file itself or a directory on the way) is the NAME it was given by, not the link's target; the text with
    the %include and the inlined text must agree for every way of naming the top resource"""
    import io
    import os
    import shutil
    import tempfile
    import urllib.request
    import ZConfig
    schema = ZConfig.loadSchemaFile(io.StringIO("<schema><multikey name='k'/></schema>"))
    root = tempfile.mkdtemp(prefix="zcv-c06l-", dir="/dev/shm" if os.path.isdir("/dev/shm") else None)
    try:
        def w(rel, t):
            p = os.path.join(root, rel)
            os.makedirs(os.path.dirname(p), exist_ok=True)
            with open(p, "w") as f:
                f.write(t)
        # a linked FILE: enabled/site.conf -> ../available/site.conf ; the fragment sits next to the link
        w("available/site.conf", "k from-site\n%include local.conf\nk after\n")
        w("available/local.conf", "k DECOY-next-to-the-target\n")
        w("enabled/local.conf", "k local-next-to-the-link\n")
        os.symlink(os.path.join("..", "available", "site.conf"), os.path.join(root, "enabled", "site.conf"))
        # a linked DIRECTORY on the way: cur -> rel/v2 ; '../shared.conf' is relative to the name used
        w("rel/v2/app.conf", "k from-app\n<!-- -->\n".replace("<!-- -->\n", "") + "%include ../shared.conf\n")
        w("shared.conf", "k shared-next-to-the-link\n")
        w("rel/shared.conf", "k DECOY-next-to-the-target-directory\n")
        os.symlink(os.path.join("rel", "v2"), os.path.join(root, "cur"))
        plans = [("enabled/site.conf", ["from-site", "local-next-to-the-link", "after"]), ("cur/app.conf", ["from-app", "shared-next-to-the-link"])]
        cwd0 = os.getcwd()
        for rel, inline in plans:
            path = os.path.join(root, rel)
            for way in ("abs", "rel", "url", "fileobj"):
                try:
                    os.chdir(root)
                    if way == "abs":
                        cfg, _ = ZConfig.loadConfig(schema, path)
                    elif way == "rel":
                        cfg, _ = ZConfig.loadConfig(schema, rel)
                    elif way == "url":
                        cfg, _ = ZConfig.loadConfig(schema, "file://" + urllib.request.pathname2url(path))
                    else:
                        with open(path) as f:
                            cfg, _ = ZConfig.loadConfigFile(schema, f)
                    got = ["ok", list(cfg.k)]
                except ZConfig.ConfigurationError as e:
                    got = ["rejected", str(e)[:120]]
                except Exception as e:
                    got = ["exc", type(e).__name__]
                finally:
                    os.chdir(cwd0)
                ctx.evaluations += 1
                ctx.nontriv(("symlink", rel, way))
                if got != ["ok", inline]:
                    ctx.violate("a resource named through a symbolic link (%s, by %s): the text with the %%include gives %r, the inlined text %r"
                                % (rel, way, got, inline), {"layout": "enabled/site.conf -> ../available/site.conf ; cur -> rel/v2", "resource": rel,
                                                            "way": way, "with_include": got, "inline": inline}, signature="C06:symlink:%s" % got[0])
    finally:
        shutil.rmtree(root, ignore_errors=True)


# characters that the configuration grammar takes for DATA - str.strip() / split() leave them alone, so at the start of a line they
# are the start of the key (or of whatever token the line holds) - while other layers treat them as a mark, as ignorable or as an
# end marker when they come FIRST in a stream: the byte order mark (codecs 'utf-8-sig' / 'utf-16', editors), its byte-swapped
# non-character, the zero-width / invisible format characters, SUB (end of text file to DOS).  A resource is its characters: the
# first one belongs to its first line like any other
FIRST = ["\ufeff"] * 5 + ["\ufffe", "\u200b", "\u2060", "\u00ad", "\u200e", "\x1a"]


def add_first_characters(rng, lines, p=0.15):
    """in a share p of the texts: one line (seldom two) gets a character of FIRST in column 0 - in front of a key line (with or
    without its indentation: the character is then the whole key, or the start of the key), of a comment, of a new comment line,
    or of any line at all (the first one included: the start of the top resource).
    Returns (lines, [[kind, "U+XXXX", index of the line]])"""
    if not lines or rng.random() >= p:
        return lines, []
    out = list(lines)
    marks = []
    for _ in range(rng.choice([1, 1, 1, 2])):
        ch = rng.choice(FIRST)
        kind = rng.choice(["key", "key", "key", "comment", "comment-line", "any", "line-1"])
        kvs = [i for i, l in enumerate(out) if _KV.match(l)]
        cms = [i for i, l in enumerate(out) if l.strip().startswith("#")]
        if kind == "key" and not kvs:
            kind = "any"
        if kind == "comment" and not cms:
            kind = "comment-line"
        taken = {j for _, _, j in marks}
        if kind == "comment-line":
            i = rng.randint(0, len(out))
            out.insert(i, ch + rng.choice(["# note", "#", "# k v"]))
            marks = [[k0, c0, j + 1 if j >= i else j] for k0, c0, j in marks]
        else:
            i = rng.choice(kvs) if kind == "key" else rng.choice(cms) if kind == "comment" else 0 if kind == "line-1" else rng.randrange(len(out))
            if i in taken:
                continue
            # with the line's indentation kept, the character is a token of its own (the whole key); without, it starts the token
            keep = rng.random() < (0.0 if kind == "comment" else 0.3 if kind == "key" else 0.5)
            out[i] = ch + (out[i] if keep else out[i].lstrip())
        marks.append([kind, "U+%04X" % ord(ch), i])
    return out, marks


def cut_starting_at(rng, lines, starts, main_rel="m/main.conf"):
    """a balanced range that STARTS at one of the lines `starts` is moved into a fragment (same / sub / parent directory), then up
    to two further cuts of the ordinary kind are made in what remains (they may move the new %include line along: nested
    includes).  Returns (inline, main, files, placements) like cutter.cut_via_define, or None"""
    import posixpath
    import urllib.request
    i0 = rng.choice(starts)
    ranges = [r for r in cutter.balanced_ranges(lines) if r[0] == i0]
    if not ranges:
        return None
    # (short ranges more often than the uniform choice would: the single line is the commonest fragment of this kind)
    i, j = ranges[0] if rng.random() < 0.4 else rng.choice(ranges)
    where = rng.choice(["same", "sub", "parent"])
    base = posixpath.dirname(main_rel)
    name = "first%s.conf" % rng.choice(["", " x", "-\u00e9"])
    if where == "same":
        frel, arg = posixpath.join(base, name), name
    elif where == "sub":
        frel, arg = posixpath.join(base, "subf", name), "subf/" + name
    else:
        frel, arg = posixpath.join(posixpath.dirname(base), name), "../" + name
    frel = posixpath.normpath(frel)
    # the %include line takes the indentation of the line AFTER the character (the line itself starts in column 0)
    rest = lines[i][1:]
    ind = rest[: len(rest) - len(rest.lstrip(" \t"))]
    main = lines[:i] + [ind + "%include " + urllib.request.pathname2url(arg)] + lines[j:]
    placements = [(main_rel, frel, "first:" + where, i, j)]
    files = {frel: lines[i:j]}
    more = rng.choice([0, 0, 1, 2])
    if more:
        main, files2, pl2 = cutter.cut(rng, main, more, main_rel)
        files.update(files2)
        placements += pl2
    return list(lines), main, files, placements


def _first_character_in_key_names(ctx):
    """VALID texts for the same class of cuts: under keytype "string" with free-form keys every line-initial character of FIRST is
    part of a key name (top level: a wildcard key collected into a mapping; in a section: the same), so the text loads and the
    character must arrive in the value tree - the text with the run of lines starting at that line moved into a fragment gives the
    same mapping as the inlined text.  Real vs real: ZConfig.loadConfig(schema, path / URL of the includer) and
    loadConfigFile(schema, open file) against loadConfigFile(schema, StringIO(inlined text))."""
    import io
    import os
    import shutil
    import tempfile
    import urllib.request
    import ZConfig
    rng = ctx.rng
    schema = ZConfig.loadSchemaFile(io.StringIO(
        "<schema keytype='string'>"
        "<sectiontype name='env' keytype='string'><key name='+' attribute='vars'/><multikey name='path' attribute='path'/></sectiontype>"
        "<multisection type='env' name='*' attribute='envs'/>"
        "<key name='+' attribute='top'/>"
        "</schema>"))

    def load(fn):
        try:
            cfg, _ = fn()
        except ZConfig.ConfigurationError as e:
            return ["rejected", type(e).__name__, str(e)[:100]]
        except Exception as e:
            return ["internal", type(e).__name__]
        return ["ok", sorted(cfg.top.items()), [[s.getSectionName(), sorted(s.vars.items()), list(s.path)] for s in cfg.envs]]

    n = 400 if ctx.thorough() else 60
    root = tempfile.mkdtemp(prefix="zcv-c06f-", dir="/dev/shm" if os.path.isdir("/dev/shm") else None)
    cwd0 = os.getcwd()
    try:
        for t in range(n):
            # a small valid text: distinct free-form keys at top level and in one or two sections
            lines, serial = [], 0
            for s in range(rng.randint(1, 3)):
                insect = s > 0 or rng.random() < 0.4
                if insect:
                    lines.append("<env%s>" % rng.choice(["", " e%d" % s]))
                for _ in range(rng.randint(1, 3)):
                    serial += 1
                    if insect and rng.random() < 0.3:
                        lines.append(rng.choice(["", "  "]) + "path /p%d" % serial)
                    else:
                        lines.append(rng.choice(["", "  "]) + "%s%d v%d" % (rng.choice(["k", "Key", "a-b", "x.y"]), serial, serial))
                if rng.random() < 0.3:
                    lines.append("# comment %d" % s)
                if insect:
                    lines.append("</env>")
            lines, firsts = add_first_characters(rng, lines, p=1.0)
            cut = cut_starting_at(rng, lines, [i for _, _, i in firsts])
            if not cut:
                continue
            inline, main, files, placements = cut
            d = os.path.join(root, "t%d" % t)
            for rel, ls in list(files.items()) + [("m/main.conf", main)]:
                p = os.path.join(d, rel)
                os.makedirs(os.path.dirname(p), exist_ok=True)
                with open(p, "w", encoding="utf-8", newline="") as f:
                    f.write("".join(l + "\n" for l in ls))
            path = os.path.join(d, "m", "main.conf")
            way = rng.choice(["abs", "rel", "url", "fileobj"])
            want = load(lambda: ZConfig.loadConfigFile(schema, io.StringIO("".join(l + "\n" for l in inline))))
            try:
                os.chdir(os.path.join(d, "m"))
                if way == "abs":
                    got = load(lambda: ZConfig.loadConfig(schema, path))
                elif way == "rel":
                    got = load(lambda: ZConfig.loadConfig(schema, "main.conf"))
                elif way == "url":
                    got = load(lambda: ZConfig.loadConfig(schema, "file://" + urllib.request.pathname2url(path)))
                else:
                    with open(path, encoding="utf-8", newline="\n") as f:
                        got = load(lambda: ZConfig.loadConfigFile(schema, f))
            finally:
                os.chdir(cwd0)
            ctx.evaluations += 1
            ctx.nontriv(("first-character", tuple(main), tuple(sorted(files))))
            ctx.count("first-character-in-key-name:inline-" + want[0])
            for kind, code, _ in firsts:
                ctx.count("first-character-in-key-name:" + code)
            if want[0] == "internal" or got[0] == "internal":
                continue   # C07's observable
            if want[0] != got[0] or (want[0] == "ok" and want != got):
                ctx.violate("moving balanced lines that start with a line-initial non-blank character into an %%include changed the "
                            "outcome: inline %s, with include %s" % (ascii(want), ascii(got)),
                            {"schema": "keytype string, free-form keys at top level and in <env> sections", "inline": inline,
                             "lines": main, "files": files, "placements": placements, "way": way,
                             "first_characters_of_lines": firsts, "inline_outcome": want, "include_outcome": got},
                            signature="C06:first-character:%s->%s" % (want[0], got[0]))
    finally:
        os.chdir(cwd0)
        shutil.rmtree(root, ignore_errors=True)
