"""C17 — schema-less configurations survive serialisation and re-reading unchanged"""
import io
import itertools

from .. import core
from ..sexp import Atom
from . import c03

RULE = ("every text of the C03 corpus (short texts over representative line shapes, random texts) plus named hard cases "
        "('$$' in values, leading grammar characters after the key, empty values, repeated keys, mixed-case names, deep and "
        "empty sections, imports at any depth): schemaless.loadConfigFile, str(), reload, str() again on the real code and "
        "on the model; non-trivial = accepted with at least one key or section; distinct by text")

HARD = [["k $$v"], ["k $$"], ["k a$$b$$"], ["%import a$$b"], ["k <v>"], ["k %v"], ["k #v"], ["k (v)"], ["k"], ["k", "k", "k x"],
        ["K v", "k w"], ["<A B>", "</a>"], ["<a/ >"], ["<a b/ >"], ["<a/ b>", "</a/>"], ["<a/ >", "</a/>"], ["<a b/ >", "</a>"], ["<x>", "<a/ >", "k v", "</a/>", "</x>"], ["<a>", "<b>", "<c>", "<d/>", "</c>", "</b>", "</a>"],
        ["<a>", "%import x.y", "</a>", "%import z"], ["<a>", "k v", "<b/>", "j w", "</a>"], ["é ü", "<é ü>", "</é>"],
        ["<a $$b>", "</a>"], ["<a b$$c/>"], ["<a $$$$x>", "k v", "</a>"], ["<x>", "<a $$>", "</a>", "</x>"], ["<a ${b}>".replace("$", "$$"), "</a>"],
        ["k " + "v" * 9000], ["<a>", "k " + " ".join("h%d" % i for i in range(4000)), "</a>"], ["<a>", "<b>", "k " + " ".join("h%d" % i for i in range(900)), "</b>", "</a>"], ["<a>", "        k  " + " ".join("host%d" % i for i in range(1500)), "</a>"], ["<a>", "<b>", "\t\t\tk " + "x" * 4090 + " y z", "</b>", "</a>"],
        ["k v\x0cw"], ["k  v   w"], ["<a n>", "</a>", "<a n>", "</a>"], ["k </a>"], ["k $$(x)"], ["k ${a}".replace("$", "$$")]]


def sec_struct(s):
    return {"type": s.type, "name": s.name or None, "data": {k: list(v) for k, v in s.items()},
            "sections": [sec_struct(x) for x in s.sections], "imports": list(getattr(s, "imports", ()))}


def model_struct(m, imports=None):
    # (sec "type" name ((k (v…))…) (subs…))
    return {"type": m[1], "name": None if m[2] == "none" else m[2], "data": {k: list(vs) for k, vs in m[3]},
            "sections": [model_struct(x) for x in m[4]], "imports": list(imports) if imports is not None else []}


def real_load(text):
    import ZConfig
    from ZConfig import schemaless
    try:
        return ["ok", schemaless.loadConfigFile(io.StringIO(text))]
    except ZConfig.ConfigurationError as e:
        return ["cfg", type(e).__name__]
    except NotImplementedError:
        return ["refused"]
    except Exception as e:
        return ["internal", type(e).__name__]


def run(ctx):
    obligations, discharged, names = core.standard_prelude(ctx, ["ZCV.Props.C17"])
    shapes = [s for s in c03.SHAPES if "$x" not in s and "${x" not in s]
    texts = [list(t) for n in range(1, 4) for t in itertools.product(shapes[:28], repeat=n)] if ctx.thorough() else \
            [list(t) for n in range(1, 3) for t in itertools.product(shapes, repeat=n)]
    texts += [c03.random_text(ctx.rng) for _ in range(30000 if ctx.thorough() else 3000)]
    texts = HARD + texts
    ans = core.driver_batch([[Atom("schemaless"), None, t] for t in texts]) if ctx.driver_ok else [None] * len(texts)
    for t, a in zip(texts, ans):
        text = "".join(l + "\n" for l in t)
        r = real_load(text)
        ctx.evaluations += 1
        ctx.count("load:" + r[0])
        has_dir = any(l.strip().startswith(("%define", "%include")) and len(l.split()) > 1 for l in t)
        if a is not None:
            mk = "ok" if a[0] == "ok" else "refused" if (a[0] == "internal" and a[1] == "NotImplementedError") else str(a[0])
            if mk != r[0]:
                ctx.disagree("schemaless-load", t, r[:2], a[:2] if a[0] != "ok" else "ok")
            elif mk == "ok":
                ms = model_struct(a[1], a[2])
                if ms != sec_struct(r[1]):
                    ctx.disagree("schemaless-tree", t, sec_struct(r[1]), ms)
                elif a[3] != str(r[1]):
                    ctx.disagree("schemaless-str", t, str(r[1]), a[3])
        if r[0] != "ok":
            continue
        cfg = r[1]
        if cfg or cfg.sections:
            ctx.nontriv(tuple(t))
        s1 = str(cfg)
        r2 = real_load(s1)
        cls = "dollar" if "$" in s1 else "slash" if any(l.rstrip().endswith("/>") or "/ " in l or l.strip().endswith("/") for l in s1.split("\n") if l.strip().startswith("<")) else "other"
        if r2[0] != "ok":
            ctx.violate("str() of an accepted configuration does not load again (%s): %r -> %r" % (r2[1] if len(r2) > 1 else r2[0], t, s1),
                        {"lines": t, "str": s1, "reload": r2[:2]}, signature="C17:reload-fails:" + cls)
            continue
        if sec_struct(r2[1]) != sec_struct(cfg):
            ctx.violate("reloading str() gives a different structure: %r -> %r" % (t, s1),
                        {"lines": t, "str": s1, "first": sec_struct(cfg), "second": sec_struct(r2[1])}, signature="C17:structure:" + cls)
            continue
        s2 = str(r2[1])
        if s2 != s1:
            ctx.violate("serialising the reload gives a different text", {"lines": t, "str": s1, "str2": s2}, signature="C17:unstable:" + cls)
    # values that only an environment variable can produce (empty, blank-edged, multi-line): the text format cannot
    # write them back (no quoting) - the listed finding C17-env-values
    import os
    env_cases = [("ZCV_C17_EMPTY", "", ["%import $(ZCV_C17_EMPTY)"], "empty-import"),
                 ("ZCV_C17_EMPTY", "", ["k $(ZCV_C17_EMPTY) x"], "leading-blank"),
                 ("ZCV_C17_NL", "a\nb c", ["k $(ZCV_C17_NL)"], "newline")]
    for var, val, t, kind in env_cases:
        os.environ[var] = val
        try:
            r = real_load("".join(l + "\n" for l in t))
            ctx.evaluations += 1
            if r[0] != "ok":
                continue
            s1 = str(r[1])
            r2 = real_load(s1)
            if r2[0] != "ok" or sec_struct(r2[1]) != sec_struct(r[1]):
                ctx.violate("a value obtained from an environment variable does not survive str() and re-reading: %r with %s=%r -> %r" % (t, var, val, s1),
                            {"lines": t, "env": {var: val}, "str": s1, "first": sec_struct(r[1]),
                             "reload": sec_struct(r2[1]) if r2[0] == "ok" else r2[:2]}, signature="C17:env-substituted-value")
        finally:
            os.environ.pop(var, None)
    # %define and %include are refused, not dropped - also right after the schema-based loader has handled the same
    # directives in this process, and the schema-based loader still handles them afterwards
    import tempfile
    import ZConfig
    sch = ZConfig.loadSchemaFile(io.StringIO("<schema><multikey name='k'/></schema>"))
    with tempfile.TemporaryDirectory(prefix="zcv-c17-") as td:
        open(os.path.join(td, "inc.conf"), "w").write("k from-inc\n")
        open(os.path.join(td, "main.conf"), "w").write("%define a b\nk $a\n%include inc.conf\n")

        def schema_load():
            try:
                c, _ = ZConfig.loadConfig(sch, os.path.join(td, "main.conf"))
                return list(c.k)
            except Exception as e:
                return "EXC:" + type(e).__name__
        first = schema_load()
        if first != ["b", "from-inc"]:
            ctx.violate("schema-based load of %%define/%%include gives %r" % (first,), {"got": first}, signature="C17:schema-loader-directives")
        for t in (["%define a b"], ["k v", "%define a"], ["%include x"], ["<a>", "%include x", "</a>"], ["<a>", "%define q r", "</a>"],
                  ["%define a b", "k $a"], ["%include " + os.path.join(td, "inc.conf")]):
            r = real_load("".join(l + "\n" for l in t))
            ctx.evaluations += 1
            if r[0] == "ok":
                ctx.violate("schema-less loader silently accepted %r (after a schema-based load handled the same directives)" % t,
                            {"lines": t, "result": sec_struct(r[1]), "str": str(r[1])}, signature="C17:directive-dropped")
        again = schema_load()
        if again != first:
            ctx.violate("after schema-less loads refused %%define/%%include the schema-based loader gives %r (before: %r)" % (again, first),
                        {"before": first, "after": again}, signature="C17:schema-loader-directives")
    ctx.sample({"text": HARD[5], "str": str(real_load("".join(l + "\n" for l in HARD[5]))[1])})
    return core.finish(ctx, obligations, discharged, names, RULE,
                       "lake build ZCV.Props.C17 && lake env lean ZCV/Audit/C17.lean",
                       ["structures compared: type, name, key->value lists, sections in order, imports"])
