"""C17 — schema-less configurations survive serialisation and re-reading unchanged"""
import io
import itertools

from .. import core
from ..sexp import Atom
from . import c03

RULE = ("every text of the C03 corpus (short texts over representative line shapes, random texts) plus named hard cases "
        "('$$' in values, leading grammar characters after the key, empty values, repeated keys, mixed-case names, deep and "
        "empty sections, imports at any depth), section trees over a tiny pool of types, names and key/value contents (nested and "
        "sibling sections that are EQUAL as dicts to an enclosing one: empty in empty, the same keys and values repeated at "
        "several depths), and texts whose lines begin with a non-blank invisible character (U+FEFF, U+200B, U+2060, U+00AD ...) "
        "or an exotic blank, on the first physical line and on later ones (below comments, blank lines, sections, imports), "
        "so that str() - which drops comments and re-orders imports, keys and sections - writes a line at another physical "
        "position than it was read from: schemaless.loadConfigFile, str(), reload, str() again on the real code and "
        "on the model; an exception from str() or from the reload is a round-trip failure; non-trivial = accepted with at "
        "least one key or section; distinct by text.  Directives: texts holding one %include / %define line (at the top, "
        "between keys, inside sections, after closed sections and imports; also at a random line of random section trees) "
        "handed to loadConfigFile(file, url) WITHOUT a url and WITH one (file: / http: URL, absolute path, bare and relative "
        "name, with a query), the %include argument ranging over references that urljoin resolves to the url of the text "
        "itself (last segment, './name', '../dir/name', the whole url, path-absolute and scheme-relative forms, '' + query) and "
        "over other resources: every one must be refused (real and model), the same texts without the directive line are "
        "accepted under that url and round-trip")

HARD = [["k $$v"], ["k $$"], ["k a$$b$$"], ["%import a$$b"], ["k <v>"], ["k %v"], ["k #v"], ["k (v)"], ["k"], ["k", "k", "k x"],
        ["K v", "k w"], ["<A B>", "</a>"], ["<a/ >"], ["<a b/ >"], ["<a/ b>", "</a/>"], ["<a/ >", "</a/>"], ["<a b/ >", "</a>"], ["<x>", "<a/ >", "k v", "</a/>", "</x>"], ["<a>", "<b>", "<c>", "<d/>", "</c>", "</b>", "</a>"],
        ["<a>", "%import x.y", "</a>", "%import z"], ["<a>", "k v", "<b/>", "j w", "</a>"], ["é ü", "<é ü>", "</é>"],
        ["<a $$b>", "</a>"], ["<a b$$c/>"], ["<a $$$$x>", "k v", "</a>"], ["<x>", "<a $$>", "</a>", "</x>"], ["<a ${b}>".replace("$", "$$"), "</a>"],
        ["k " + "v" * 9000], ["<a>", "k " + " ".join("h%d" % i for i in range(4000)), "</a>"], ["<a>", "<b>", "k " + " ".join("h%d" % i for i in range(900)), "</b>", "</a>"], ["<a>", "        k  " + " ".join("host%d" % i for i in range(1500)), "</a>"], ["<a>", "<b>", "\t\t\tk " + "x" * 4090 + " y z", "</b>", "</a>"],
        ["k v\x0cw"], ["k  v   w"], ["<a n>", "</a>", "<a n>", "</a>"], ["k </a>"], ["k $$(x)"], ["k ${a}".replace("$", "$$")]]

# ---- section trees over a tiny pool: nested / sibling sections that compare EQUAL as dicts (schemaless.Section is a dict
# subclass: equality looks at keys and value lists only), identical types and names at several depths, empty in empty
POOL = [[], ["k v"], ["k v", "k w"], ["k v", "j w"], ["k"], ["port 80"]]


def _render_tree(node, depth, out, empty_form, keys_last=False):
    typ, name, keys, subs = node
    ind = "  " * depth
    head = ind + "<" + typ + (" " + name if name else "")
    if not keys and not subs and empty_form:
        out.append(head + "/>")
        return
    out.append(head + ">")
    for k in ([] if keys_last else keys):
        out.append(ind + "  " + k)
    for x in subs:
        _render_tree(x, depth + 1, out, empty_form, keys_last)
    for k in (keys if keys_last else []):
        out.append(ind + "  " + k)
    out.append(ind + "</" + typ + ">")


def chain_texts():
    """every chain of 2..3 nested sections x every assignment of pool contents to the levels x {one type, different types}
    x {leaf written <x/> when empty, always <x>..</x>} x {nothing, a key} at top level"""
    out = []
    for d in (2, 3):
        for contents in itertools.product(POOL[:4], repeat=d):
            for same in (True, False):
                for empty_form in (True, False):
                    if empty_form and contents[-1]:
                        continue
                    node = None
                    for lvl in range(d - 1, -1, -1):
                        node = ("s" if same else "abc"[lvl], "" if not same else "n%d" % lvl, list(contents[lvl]), [node] if node else [])
                    for top in ([], list(contents[0])) if contents[0] else ([],):
                        ls = list(top)
                        _render_tree(node, 0, ls, empty_form)
                        out.append(ls)
    return out


def random_tree_text(rng):
    types = rng.choice([["s"], ["a", "b"], ["server", "S", "é"]])
    names = rng.choice([[""], ["", "n"], ["main", "backup", ""]])
    pool = rng.sample(POOL, rng.randint(1, 3))

    def node(depth):
        subs = [node(depth + 1) for _ in range(rng.choice([0, 0, 1, 1, 2, 3]) if depth < 5 else 0)]
        return (rng.choice(types), rng.choice(names), list(rng.choice(pool)), subs)
    ls = list(rng.choice(pool)) if rng.random() < 0.5 else []
    if rng.random() < 0.2:
        ls.insert(0, "%import p.q")
    for _ in range(rng.randint(1, 3)):
        _render_tree(node(0), 0, ls, rng.random() < 0.5, rng.random() < 0.25)
    return ls


# ---- lines that begin with a character which is not blank for str.strip() yet invisible (format characters), or with an
# exotic blank that IS stripped; read on the first physical line and on later ones.  str() drops comments and blank lines and
# writes imports, sorted keys, then sections: the line is re-read at another physical position than it was first read from
INVISIBLE = ["\ufeff", "\u200b", "\u2060", "\xad", "\u200e", "\u180e", "\ufffe", "\xa0", "\u3000", "\x1f"]


def position_texts():
    out = []
    leaders = [[], ["# c"], [""], ["", "# c", "\t"], ["<s>", "  k v", "</s>"], ["%import p.q"], ["zz 1"], ["<s/>", "# c"]]
    trailers = [[], ["<t/>"], ["a 1"], None]
    for ch in INVISIBLE:
        for body in (ch + "k v", ch + ch + "k v", ch + "<n>", ch + " v", ch, ch + "#c x", ch + "%import p", ch + "</a>", "k" + ch + " v", ch + " k v"):
            for lead in leaders:
                for trail in trailers:
                    tr = [body.split(" ")[0] + " other"] if trail is None else trail
                    out.append(lead + [body] + tr)
            out.append(["<w>", "  " + body, "</w>"])
            out.append(["# c", "<w n>", "<x>", body, "</x>", "\t" + body + " 2", "</w>", body])
    return out


def decorate(rng, lines):
    """a C03 random text in which some key lines begin (after the indentation) with an invisible character"""
    out = []
    for l in lines:
        st = l.strip()
        if st and st[0] not in "<%#" and rng.random() < 0.35:
            l = l[:len(l) - len(l.lstrip())] + rng.choice(INVISIBLE) * rng.choice([1, 1, 2]) + l.lstrip()
        out.append(l)
    return out


def sec_struct(s):
    return {"type": s.type, "name": s.name or None, "data": {k: list(v) for k, v in s.items()},
            "sections": [sec_struct(x) for x in s.sections], "imports": list(getattr(s, "imports", ()))}


def model_struct(m, imports=None):
    # (sec "type" name ((k (v…))…) (subs…))
    return {"type": m[1], "name": None if m[2] == "none" else m[2], "data": {k: list(vs) for k, vs in m[3]},
            "sections": [model_struct(x) for x in m[4]], "imports": list(imports) if imports is not None else []}


def real_load(text, url=None):
    import ZConfig
    from ZConfig import schemaless
    try:
        if url is not None:
            return ["ok", schemaless.loadConfigFile(io.StringIO(text), url)]
        return ["ok", schemaless.loadConfigFile(io.StringIO(text))]
    except ZConfig.ConfigurationError as e:
        return ["cfg", type(e).__name__]
    except NotImplementedError:
        return ["refused"]
    except Exception as e:
        return ["internal", type(e).__name__]


def _has_equal_nesting(sec, path):
    """(evidence only) some section equals, as a dict, one of the typed sections enclosing it"""
    for x in sec.sections:
        if any(dict(x) == dict(p) for p in path) or _has_equal_nesting(x, path + (x,)):
            return True
    return False


def _moved_invisible(lines, printed):
    """(evidence only) some line beginning with an invisible character is printed on another physical line than it was read from"""
    src = {i for i, l in enumerate(lines) if l.strip()[:1] in INVISIBLE}
    dst = {i for i, l in enumerate(printed.split("\n")) if l.strip()[:1] in INVISIBLE}
    return bool(src or dst) and src != dst


def real_str(cfg):
    """str() of a loaded configuration; an exception is an outcome, not a crash of the check"""
    try:
        return ["ok", str(cfg)]
    except Exception as e:
        return ["exc", type(e).__name__, str(e)[:200]]


def text_class(s):
    return "dollar" if "$" in s else "slash" if any(l.rstrip().endswith("/>") or "/ " in l or l.strip().endswith("/") for l in s.split("\n") if l.strip().startswith("<")) else "other"


def round_trip(ctx, t, cfg, s1, stream=None):
    """the property's oracle on one accepted text: s1 = real_str(cfg)"""
    if s1[0] != "ok":
        ctx.violate("str() of an accepted configuration raises %s (%s): %r" % (s1[1], s1[2], t),
                    {"stream": stream, "lines": t, "loaded": sec_struct(cfg), "str": s1}, signature="C17:str-raises:" + text_class("\n".join(t)))
        return
    s1 = s1[1]
    r2 = real_load(s1)
    cls = text_class(s1)
    if r2[0] != "ok":
        ctx.violate("str() of an accepted configuration does not load again (%s): %r -> %r" % (r2[1] if len(r2) > 1 else r2[0], t, s1),
                    {"stream": stream, "lines": t, "str": s1, "first": sec_struct(cfg), "reload": r2[:2]}, signature="C17:reload-fails:" + cls)
        return
    if sec_struct(r2[1]) != sec_struct(cfg):
        ctx.violate("reloading str() gives a different structure: %r -> %r" % (t, s1),
                    {"stream": stream, "lines": t, "str": s1, "first": sec_struct(cfg), "second": sec_struct(r2[1])}, signature="C17:structure:" + cls)
        return
    s2 = real_str(r2[1])
    if s2[0] != "ok":
        ctx.violate("str() of the reloaded configuration raises %s: %r -> %r" % (s2[1], t, s1), {"stream": stream, "lines": t, "str": s1, "str2": s2},
                    signature="C17:str-raises:" + cls)
    elif s2[1] != s1:
        ctx.violate("serialising the reload gives a different text", {"stream": stream, "lines": t, "str": s1, "str2": s2[1]}, signature="C17:unstable:" + cls)


# ---- %define / %include are refused, whatever url the text is loaded under and whatever the %include argument resolves to.
# loadConfigFile(file, url) takes the url of the resource; the parser resolves every %include argument against it BEFORE the
# schema-less context gets to refuse the directive - the references of interest are those that resolve to a place the loader
# "knows" already: the url of the text itself, written in every way urljoin maps back to it
DIRECTIVE_URLS = [None, "file:///etc/app/site.conf", "site.conf", "/etc/app/site.conf", "conf.d/site.conf",
                  "http://example.org/etc/site.conf", "file:///etc/app/site.conf?rev=2", "file:///etc/my%20app/Site.conf"]


def include_refs(url):
    """references written in a text loaded under `url`: every spelling that may resolve to the url itself, and others"""
    import urllib.parse
    refs = ["other.conf", "site.conf", "./site.conf", "sub/site.conf", "../site.conf", "site.conf.bak", "SITE.CONF", "site.conf#part",
            "/etc/app/site.conf", "file:///etc/app/site.conf", "file:/etc/app/site.conf"]
    if url is not None:
        sp = urllib.parse.urlsplit(url)
        segs = sp.path.split("/")
        last = segs[-1]
        q = "?" + sp.query if sp.query else ""
        refs += [url, last + q, "./" + last + q, q or last]
        if len(segs) >= 2 and segs[-2] not in ("", ".", ".."):
            refs += ["../" + segs[-2] + "/" + last + q, "./../" + segs[-2] + "/./" + last + q]
        if sp.path.startswith("/"):
            refs += [sp.path + q]
        if sp.netloc:
            refs += ["//" + sp.netloc + sp.path + q]
    out = []
    for r in refs:
        if r and r not in out:
            out.append(r)
    return out


def resolves_to_self(url, ref):
    """(evidence only) urljoin maps the reference back to the url of the text"""
    import urllib.parse
    if url is None:
        return False
    try:
        return urllib.parse.urljoin(url, ref) == url
    except ValueError:
        return False


# (lines before the directive, indentation of the directive, lines after it); each frame is an accepted text without the directive
DIRECTIVE_FRAMES = [([], "", []), ([], "", ["key value"]), (["key value"], "", []), (["k v", "k w"], "", ["j x"]),
                    (["<server main>"], "  ", ["  port 80", "</server>"]), (["<a>", "  <b>"], "    ", ["  </b>", "</a>"]),
                    (["<s/>"], "", []), (["%import p.q"], "", ["k v"]), (["# c", ""], "\t", []),
                    (["<s>", "  k v", "</s>"], "", ["<t/>"]), (["<s>", "  k v"], "  ", ["</s>", "z 1"])]


def directive_cases():
    """(url, lines, directive line or None, kind): directed cases, smallest first; kind None = the control without directive"""
    out = []
    for url in DIRECTIVE_URLS:
        for pre, ind, post in DIRECTIVE_FRAMES:
            out.append((url, pre + post, None, None))
        ds = [("include", "%include " + r) for r in include_refs(url)]
        ds += [("include", "%include\t" + r + "  ") for r in include_refs(url)[:2] + include_refs(url)[-3:]]
        ds += [("define", "%define a b"), ("define", "%define a"), ("define", "%define Site.conf site.conf")]
        for kind, d in ds:
            for pre, ind, post in DIRECTIVE_FRAMES:
                out.append((url, pre + [ind + d] + post, d, kind))
    return out


def random_directive_case(rng):
    """a random section tree (an accepted text) with one directive line at a random position, under a random url"""
    url = rng.choice(DIRECTIVE_URLS)
    ls = random_tree_text(rng)
    if rng.random() < 0.8:
        kind, d = "include", "%include" + rng.choice([" ", "  ", "\t"]) + rng.choice(include_refs(url))
    else:
        kind, d = "define", "%define " + rng.choice(["a", "a b", "A $$b", "site.conf x"])
    i = rng.randint(0, len(ls))
    near = ls[i] if i < len(ls) else ls[-1]
    return (url, ls[:i] + [near[:len(near) - len(near.lstrip())] + d] + ls[i:], d, kind)


def run_directives(ctx):
    cases = directive_cases() + [random_directive_case(ctx.rng) for _ in range(6000 if ctx.thorough() else 600)]
    ans = core.driver_batch([[Atom("schemaless"), url, t] for url, t, _, _ in cases]) if ctx.driver_ok else [None] * len(cases)
    for (url, t, d, kind), a in zip(cases, ans):
        text = "".join(l + "\n" for l in t)
        r = real_load(text, url)
        ctx.evaluations += 1
        ctx.count("stream:directives")
        ctx.count("directives:url:" + ("none" if url is None else "absolute" if ":" in url or url.startswith("/") else "relative"))
        mk = None
        if a is not None:
            mk = "ok" if a[0] == "ok" else "refused" if (a[0] == "internal" and a[1] == "NotImplementedError") else str(a[0])
            if mk != r[0]:
                ctx.disagree("schemaless-load-with-url", [url, t], r[:2] if r[0] != "ok" else "ok", a[:2] if a[0] != "ok" else "ok")
        if d is None:
            # control: the frame without the directive is accepted under that url, equals the model, and round-trips
            ctx.count("directives:control:" + r[0])
            if r[0] == "ok":
                s1 = real_str(r[1])
                if mk == "ok":
                    ms = model_struct(a[1], a[2])
                    if ms != sec_struct(r[1]):
                        ctx.disagree("schemaless-tree-with-url", [url, t], sec_struct(r[1]), ms)
                    elif s1[0] != "ok" or a[3] != s1[1]:
                        ctx.disagree("schemaless-str-with-url", [url, t], s1, a[3])
                round_trip(ctx, t, r[1], s1, "directives-control")
            continue
        self_ref = kind == "include" and resolves_to_self(url, d.split(None, 1)[1].strip())
        ctx.count("directives:%s:%s" % (kind, r[0]))
        if self_ref:
            ctx.count("directives:include-argument-resolving-to-the-url-of-the-text")
        ctx.nontriv((url,) + tuple(t))
        if r[0] == "ok":
            ctx.violate("schema-less loader given the url %r accepted a text holding %r: the directive was silently dropped, str() gives %r"
                        % (url, d, real_str(r[1])[1]),
                        {"stream": "directives", "url": url, "lines": t, "directive": d,
                         "argument_resolves_to_the_url_of_the_text": self_ref, "result": sec_struct(r[1]), "str": real_str(r[1])},
                        signature="C17:directive-dropped:%s:%s" % (kind, "no-url" if url is None else "self" if self_ref else "url"))


def run(ctx):
    obligations, discharged, names = core.standard_prelude(ctx, ["ZCV.Props.C17"])
    shapes = [s for s in c03.SHAPES if "$x" not in s and "${x" not in s]
    texts = [list(t) for n in range(1, 4) for t in itertools.product(shapes[:28], repeat=n)] if ctx.thorough() else \
            [list(t) for n in range(1, 3) for t in itertools.product(shapes, repeat=n)]
    texts += [c03.random_text(ctx.rng) for _ in range(30000 if ctx.thorough() else 3000)]
    trees = [random_tree_text(ctx.rng) for _ in range(8000 if ctx.thorough() else 800)]
    posrand = [decorate(ctx.rng, c03.random_text(ctx.rng)) for _ in range(10000 if ctx.thorough() else 1000)]
    # (directed streams first, random ones after: the replay of a class then names its smallest directed member)
    streams = [("hard", HARD), ("chains", chain_texts()), ("position", position_texts()), ("trees", trees), ("corpus", texts),
               ("position-random", posrand)]
    tags = [tag for tag, ts in streams for _ in ts]
    texts = [t for _, ts in streams for t in ts]
    ans = core.driver_batch([[Atom("schemaless"), None, t] for t in texts]) if ctx.driver_ok else [None] * len(texts)
    for tag, t, a in zip(tags, texts, ans):
        text = "".join(l + "\n" for l in t)
        r = real_load(text)
        ctx.evaluations += 1
        ctx.count("load:" + r[0])
        ctx.count("stream:" + tag)
        s1 = real_str(r[1]) if r[0] == "ok" else None
        if a is not None:
            mk = "ok" if a[0] == "ok" else "refused" if (a[0] == "internal" and a[1] == "NotImplementedError") else str(a[0])
            if mk != r[0]:
                ctx.disagree("schemaless-load", t, r[:2], a[:2] if a[0] != "ok" else "ok")
            elif mk == "ok":
                ms = model_struct(a[1], a[2])
                if ms != sec_struct(r[1]):
                    ctx.disagree("schemaless-tree", t, sec_struct(r[1]), ms)
                elif s1[0] != "ok" or a[3] != s1[1]:
                    ctx.disagree("schemaless-str", t, s1, a[3])
        if r[0] != "ok":
            continue
        cfg = r[1]
        if cfg or cfg.sections:
            ctx.nontriv(tuple(t))
            ctx.count("accepted-nontrivial:" + tag)
        if tag in ("chains", "trees") and _has_equal_nesting(cfg, ()):
            ctx.count("accepted-with-a-section-equal-to-an-enclosing-one")
        if tag.startswith("position") and s1[0] == "ok" and _moved_invisible(t, s1[1]):
            ctx.count("accepted-with-an-invisible-line-start-moved-by-str")
        round_trip(ctx, t, cfg, s1, tag)
    run_directives(ctx)
    # values that only an environment variable can produce (empty, blank-edged, multi-line): the text format cannot
    # write them back (no quoting) - the listed finding C17-env-values
    import os
    env_cases = [("ZCV_C17_EMPTY", "", ["%import $(ZCV_C17_EMPTY)"], "empty-import"),
                 ("ZCV_C17_EMPTY", "", ["k $(ZCV_C17_EMPTY) x"], "leading-blank"),
                 ("ZCV_C17_NL", "a\nb c", ["k $(ZCV_C17_NL)"], "newline")]
    for var, val, t, kind in env_cases:
        os.environ[var] = val
        try:
            r = real_load("".join(l + "\n" for l in t))
            ctx.evaluations += 1
            if r[0] != "ok":
                continue
            s1 = real_str(r[1])
            if s1[0] != "ok":
                ctx.violate("str() of an accepted configuration raises %s: %r with %s=%r" % (s1[1], t, var, val),
                            {"lines": t, "env": {var: val}, "str": s1, "loaded": sec_struct(r[1])}, signature="C17:str-raises:env")
                continue
            s1 = s1[1]
            r2 = real_load(s1)
            if r2[0] != "ok" or sec_struct(r2[1]) != sec_struct(r[1]):
                ctx.violate("a value obtained from an environment variable does not survive str() and re-reading: %r with %s=%r -> %r" % (t, var, val, s1),
                            {"lines": t, "env": {var: val}, "str": s1, "first": sec_struct(r[1]),
                             "reload": sec_struct(r2[1]) if r2[0] == "ok" else r2[:2]}, signature="C17:env-substituted-value")
        finally:
            os.environ.pop(var, None)
    # %define and %include are refused, not dropped - also right after the schema-based loader has handled the same
    # directives in this process, and the schema-based loader still handles them afterwards
    import tempfile
    import ZConfig
    sch = ZConfig.loadSchemaFile(io.StringIO("<schema><multikey name='k'/></schema>"))
    with tempfile.TemporaryDirectory(prefix="zcv-c17-") as td:
        open(os.path.join(td, "inc.conf"), "w").write("k from-inc\n")
        open(os.path.join(td, "main.conf"), "w").write("%define a b\nk $a\n%include inc.conf\n")

        def schema_load():
            try:
                c, _ = ZConfig.loadConfig(sch, os.path.join(td, "main.conf"))
                return list(c.k)
            except Exception as e:
                return "EXC:" + type(e).__name__
        first = schema_load()
        if first != ["b", "from-inc"]:
            ctx.violate("schema-based load of %%define/%%include gives %r" % (first,), {"got": first}, signature="C17:schema-loader-directives")
        for t in (["%define a b"], ["k v", "%define a"], ["%include x"], ["<a>", "%include x", "</a>"], ["<a>", "%define q r", "</a>"],
                  ["%define a b", "k $a"], ["%include " + os.path.join(td, "inc.conf")]):
            r = real_load("".join(l + "\n" for l in t))
            ctx.evaluations += 1
            if r[0] == "ok":
                ctx.violate("schema-less loader silently accepted %r (after a schema-based load handled the same directives)" % t,
                            {"lines": t, "result": sec_struct(r[1]), "str": real_str(r[1])}, signature="C17:directive-dropped")
        again = schema_load()
        if again != first:
            ctx.violate("after schema-less loads refused %%define/%%include the schema-based loader gives %r (before: %r)" % (again, first),
                        {"before": first, "after": again}, signature="C17:schema-loader-directives")
    ctx.sample({"text": HARD[5], "str": real_str(real_load("".join(l + "\n" for l in HARD[5]))[1])})
    return core.finish(ctx, obligations, discharged, names, RULE,
                       "lake build ZCV.Props.C17 && lake env lean ZCV/Audit/C17.lean",
                       ["structures compared: type, name, key->value lists, sections in order, imports"])
