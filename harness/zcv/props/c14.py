"""C14 — command-line overrides act like editing the addressed keys in the text"""
import copy

from .. import cfggen, cfgrun, cfgstream, core, ovgen, schemafam as F

RULE = ("accepted texts of the schema family with at least one section; override lists of up to 4 specifiers addressing "
        "existing and non-existing keys and sections by name, by type and in mixed case at depths 1..3 with convertible "
        "and unconvertible values; real load with overrides vs real load of the text edited by the harness following the "
        "property statement; the outcome compared is the whole result of the load: the configuration AND the composite handler "
        "(schemas with handler attributes on keys, multikeys, sections and multisections of the schema and of the section types, "
        "on about half / on all of the items: number of entries and the (name, value) sequence delivered to recording "
        "callables); '%import' lines and overrides together (ovimport.py: paths into sections of static and of imported types, real on a fresh loader vs model vs hand-edited text); plus specifier syntax at add time. non-trivial = at least one override reaching depth>=1; "
        "distinct by (schema, text, overrides)")


def handler_log(h, hnames):
    """what the second half of a load result delivers: (number of entries, [(handler name, value)] in call order) with a
    complete map of recording callables; a refused map is part of the outcome"""
    import ZConfig
    rec = cfgrun.Recorder()
    try:
        h({n: rec.fn(n) for n in hnames})
    except ZConfig.ConfigurationError:
        return (len(h), "refused")
    except Exception as e:
        return (len(h), "raised " + type(e).__name__)
    return (len(h), [[n, cfgrun.describe(v)] for n, v in rec.calls])


def first_match(items, comp):
    c = comp.lower()
    for it in items:
        if it[0] == "sect" and ((it[2] and it[2].lower() == c) or it[1].lower() == c):
            return it
    return None


import re as _re
_BASIC_KEY = _re.compile(r"[a-zA-Z][-._a-zA-Z0-9]*")


def edit(elab, items, specs):
    """the hand edit of the property statement on the item tree; returns new tree or None (= must be rejected)"""
    items = copy.deepcopy(items)
    touched = {}   # id(section items list) -> set of keys already cleared
    for spec in specs:
        opt, val = spec.split("=", 1)
        path = opt.split("/")
        cur, tyname = items, None
        for comp in path[:-1]:
            if not _BASIC_KEY.fullmatch(comp):
                # the option syntax addresses sections by basic-key words only (cmdline.basic_key on every path component):
                # a section whose name is not of that shape cannot be addressed; such a specifier is refused (model:
                # C14_nonident_component_rejected), it is not an edit
                return None
            s = first_match(cur, comp)
            if s is None:
                return None
            if s[4] and not s[3]:
                s[4] = False        # an empty-form section gets a body
            cur, tyname = s[3], s[1].lower()
        children, kt = cfggen._children_of(elab, tyname)
        key = path[-1]
        nk = cfggen._norm(kt, key)
        done = touched.setdefault(id(cur), set())
        if nk not in done:
            cur[:] = [it for it in cur if not (it[0] == "kv" and cfggen._norm(kt, it[1]) == nk)]
            done.add(nk)
        cur.append(["kv", key, val.replace("$", "$$")])
    return items


def _code_stream(ctx, used_specs):
    """real ExtendedConfigLoader.addOption / OptionBag.basic_key / _normalize_case vs the GENERATED code (translation of
    cmdline.py's source by harness/zcv/pytrans.py, run by the second driver zcdrv2): every specifier the run used, all strings
    up to length 5 over {a B / = space 1}, random specifiers.  'generated code = model' is a theorem (Lemmas/CodeEqCmdline.lean);
    this validates the translator and the primitives of ZCV/Py.lean."""
    import io
    import ZConfig
    from ZConfig.cmdline import ExtendedConfigLoader, OptionBag
    from .. import util
    from ..sexp import Atom
    if not core.ensure_driver2(ctx.tie):
        ctx.notes.append("zcdrv2 (generated code) could not be built: the code-translation tie is broken; other streams unaffected")
        ctx.cov["generated_code_stream"] = "driver unavailable"
        return
    schema = ZConfig.loadSchemaFile(io.StringIO("<schema/>"))
    specs = list(dict.fromkeys(list(used_specs) + ["a=b", "a/b/c=d", "a=", "a=b=c", "novalue", "a//b=1", "/a=1", "a/=1", "=1", "", "//=",
                                                   "A.b-c/d_e=x y", "é/ß=İ", "a=\n", "a\t/b = c"]
                               + list(util.enum_strings("aB/= 1", 5))
                               + ["".join(ctx.rng.choice("abC/=.-_ 1é") for _ in range(ctx.rng.randint(1, 16))) for _ in range(3000)]))
    n = 0

    def real_add(spec, pos):
        ld = ExtendedConfigLoader(schema)
        try:
            if pos is None:
                ld.addOption(spec)
            else:
                ld.addOption(spec, pos)
            path, val, p = ld.clopts[-1]
            return ["ok", ["tup", ["list"] + [["s", x] for x in path], ["s", val], ["tup", ["s", p[0]], ["i", str(p[1])], ["i", str(p[2])]]]]
        except ZConfig.ConfigurationSyntaxError as e:
            return ["err", ["cfgsyntax", e.url, str(e.lineno), str(e.colno), getattr(e, "specifier", "none")]]
        except Exception as e:
            return ["exc", type(e).__name__]
    for op, pos in (("addOption", None), ("addOption-pos", ("u", 3, 4))):
        ans = core.driver_batch([[Atom("code"), op, sp] for sp in specs], exe=core.DRIVER2)
        for sp, a in zip(specs, ans):
            r = real_add(sp, pos)
            n += 1
            if [a[0], a[1]] != r:
                ctx.disagree("generated-code:" + op, sp, r, a)
    bag = OptionBag(schema, schema, [])
    keys = list(dict.fromkeys([c for sp in specs[:4000] for c in sp.split("=", 1)[0].split("/")]))
    ans = core.driver_batch([[Atom("code"), "bag-basic-key", k] for k in keys], exe=core.DRIVER2)
    for k, a in zip(keys, ans):
        if "İ" in k or "Σ" in k:
            continue
        try:
            r = ["ok", ["s", bag.basic_key(k, ("u", 3, 4))]]
        except ZConfig.ConfigurationSyntaxError as e:
            r = ["err", ["cfgsyntax", e.url, str(e.lineno), str(e.colno), getattr(e, "specifier", "none")]]
        except Exception as e:
            r = ["exc", type(e).__name__]
        n += 1
        if [a[0], a[1]] != r:
            ctx.disagree("generated-code:bag-basic-key", k, r, a)
    ans = core.driver_batch([[Atom("code"), "bag-normalize-case", k] for k in keys], exe=core.DRIVER2)
    for k, a in zip(keys, ans):
        if "İ" in k or "Σ" in k:
            continue
        n += 1
        if a != ["ok", ["s", bag._normalize_case(k)]]:
            ctx.disagree("generated-code:bag-normalize-case", k, bag._normalize_case(k), a)
    ctx.evaluations += n
    ctx.cov["generated_code_stream"] = {"functions": ["addOption", "OptionBag.basic_key", "OptionBag._normalize_case"], "evaluations": n}


def run(ctx):
    obligations, discharged, names = core.standard_prelude(ctx, ["ZCV.Props.C14"])
    n_s, n_t = (700, 40) if ctx.thorough() else (52, 20)
    n_h, n_ha = (300, 150) if ctx.thorough() else (16, 8)
    rng = ctx.rng
    base = cfgstream.gen_cases(ctx, n_s, n_t, nfaults=(0,), plain=True, systematic=False)
    # the same over schemas that declare handlers (handler='...' on keys, multikeys, sections, multisections at top level and
    # inside the section types): the load result is the pair (configuration, composite handler), and "the same outcome as
    # the edited text" speaks about both halves - every matcher of a load, the ones of sections addressed by an override
    # included, contributes its entries.  Handlers on about half of the items, and on every item.
    base += cfgstream.gen_cases(ctx, n_h, n_t, handlers=True, nfaults=(0,), plain=True, systematic=False)
    base += cfgstream.gen_cases(ctx, n_ha, n_t, handlers=True, phandler=1.0, nfaults=(0,), plain=True, systematic=False)
    cfgstream.evaluate(ctx, base)
    ov, ed = [], []
    for c in base:
        if c.out[0] != "ok" or not any(it[0] == "sect" for it in c.meta["items"]):
            ctx.count("base-unsuitable")
            continue
        specs = ovgen.gen_overrides(rng, c.elab, c.meta["items"], rng.randint(1, 4), pbadval=0.15, pmissing=0.15, pweird=0.0)
        specs = [s for s in specs if "=" in s and "" not in s.split("=", 1)[0].split("/")
                 and s.split("=", 1)[1] == s.split("=", 1)[1].strip() and "\n" not in s]
        if not specs:
            continue
        a = cfgstream.Case()
        a.sd, a.real, a.elab, a.hnames = c.sd, c.real, c.elab, c.hnames
        a.lines, a.overrides, a.meta = c.lines, tuple(specs), c.meta
        e = edit(c.elab, c.meta["items"], specs)
        b = cfgstream.Case()
        b.sd, b.real, b.elab, b.hnames = c.sd, c.real, c.elab, c.hnames
        b.meta = {"edited": e is not None}
        b.lines = cfggen.render_lines(rng, e, plain=True) if e is not None else None
        ov.append(a)
        ed.append(b)
    cfgstream.evaluate(ctx, ov)
    cfgstream.evaluate(ctx, [b for b in ed if b.lines is not None])
    for a, b in zip(ov, ed):
        depth = max(len(s.split("=", 1)[0].split("/")) for s in a.overrides)
        ctx.count("depth:%d" % depth)
        ctx.count("with-overrides:" + a.out[0] + (":" + a.out[1] if a.out[0] == "cfg" else ""))
        if depth >= 2:
            ctx.nontriv((id(a.sd), tuple(a.lines), a.overrides))
        if a.model is not None and a.model[0] != "bad":
            why = None
            if a.model[0] != a.out[0]:
                why = "outcome class"
            elif a.model[0] == "ok" and not cfgrun.match_val(a.model[1], a.cfg):
                why = "value"
            elif a.model[0] == "cfg" and a.model[1] != a.out[1]:
                why = "error kind"
            if why is None and a.model[0] == "ok" and a.hnames:
                hw = cfgrun.compare_load(a.model, a.out, a.cfg, a.handler, a.hnames)
                if hw:
                    why = "handlers: " + hw
            if why:
                ctx.disagree("override-load:" + why.split(":")[0], a.replay(), [a.out, why], a.model[:6])
        if a.out[0] == "internal":
            continue      # C07
        if b.lines is None:
            if a.out[0] == "ok":
                ctx.violate("override addressing a section that is not in the text (or not addressable: a path component that is no basic-key word) was accepted: %r" % (a.overrides,),
                            a.replay(), signature="C14:missing-section-accepted")
            continue
        if b.out[0] == "internal":
            continue
        same = a.out[0] == b.out[0] and (a.out[0] != "ok" or cfgrun.describe(a.cfg) == cfgrun.describe(b.cfg))
        if not same:
            ctx.violate("loading with overrides %r gives %s, the hand-edited text gives %s" % (a.overrides, a.out[:2], b.out[:2]),
                        dict(a.replay(), edited_lines=b.lines, with_overrides=a.out, edited=b.out,
                             value_with_overrides=cfgrun.describe(a.cfg) if a.cfg is not None else None,
                             value_edited=cfgrun.describe(b.cfg) if b.cfg is not None else None),
                        signature="C14:%s-vs-edited-%s" % (a.out[0], b.out[0]))
        elif a.out[0] == "ok":
            # second half of the outcome: the composite handler (entries registered by every matcher of the load)
            la, lb = handler_log(a.handler, a.hnames), handler_log(b.handler, b.hnames)
            ctx.count("handler-entries:%s" % (min(lb[0], 10) if a.hnames else "schema-without-handlers"))
            if a.hnames:
                ctx.count("handler-loads-compared")
                if depth >= 2 and lb[0]:
                    ctx.count("handler-loads-compared:override-below-top-level")
            if la != lb:
                names = [[x[0] for x in l[1]] if isinstance(l[1], list) else l[1] for l in (la, lb)]
                ctx.violate("loading with overrides %r gives a handler with %d entries delivering %r; the hand-edited text gives %d entries delivering %r"
                            % (a.overrides, la[0], names[0], lb[0], names[1]),
                            dict(a.replay(), edited_lines=b.lines, handler_names=list(a.hnames),
                                 handlers_with_overrides=list(la), handlers_edited=list(lb)),
                            signature="C14:handlers-differ-from-edited:%s" % ("count" if la[0] != lb[0] else "calls"))
        elif (b.out[0] == "cfg" and b.out[1] == "conversion" and a.out[1] != "conversion"
              and len(b.out) > 4 and b.out[4] not in [o.split("=", 1)[1] for o in a.overrides if "=" in o]):
            # the hand-edited text fails on something that is not an override VALUE (e.g. the KEY of a specifier does not
            # convert under the key type of the addressed section: the option syntax reports that as a syntax error, the
            # text as a conversion error; both reject, and the property speaks of unconvertible VALUES only) - false alarm
            # of the thorough tier, seed 0
            ctx.count("rejected-both:override-key-does-not-convert")
        elif b.out[0] == "cfg" and b.out[1] == "conversion" and a.out[1] != "conversion":
            ctx.violate("an unconvertible override value is reported as %s, not as a conversion error" % a.out[1],
                        dict(a.replay(), edited_lines=b.lines), signature="C14:bad-value-kind:" + a.out[1])
    # '%import' lines and overrides TOGETHER (C14_text_override_eq_edit_imports): real vs model, real vs the hand-edited text; a path
    # into a section of a type the text itself imports is refused (known finding C14-override-into-imported-type)
    from .. import ovimport
    ovimport.run_stream(ctx, "C14")
    # specifier syntax at add time
    import ZConfig
    from ZConfig.cmdline import ExtendedConfigLoader
    if base:
        for spec, ok in [("a=b", True), ("a/b/c=d", True), ("a=", True), ("a=b=c", True), ("novalue", False), ("a/b", False),
                         ("a//b=1", False), ("/a=1", False), ("a/=1", False), ("=1", False), ("", False), ("//=", False),
                         ("A.b-c/d_e=x y", True)]:
            ld = ExtendedConfigLoader(base[0].real)
            try:
                ld.addOption(spec)
                got = True
            except ZConfig.ConfigurationSyntaxError:
                got = False
            except Exception as e:
                got = type(e).__name__
            ctx.evaluations += 1
            if got != ok:
                ctx.violate("addOption(%r): %s" % (spec, "accepted" if got is True else "refused" if got is False else got),
                            {"spec": spec, "expected_accepted": ok}, signature="C14:spec-syntax:%s" % spec)
    _code_stream(ctx, [sp for a in ov for sp in a.overrides])
    if ov:
        ctx.sample({"lines": ov[0].lines, "overrides": ov[0].overrides, "edited": ed[0].lines, "outcome": ov[0].out[:2]})
    return core.finish(ctx, obligations, discharged, names, RULE,
                       "lake build ZCV.Props.C14 && lake env lean ZCV/Audit/C14.lean",
                       ["the hand edit is harness/zcv/props/c14.py:edit, written from the property statement",
                        "override values are restricted to stripped single-line text ('$' written as '$$' in the edited text)"])
