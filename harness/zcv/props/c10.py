"""C10 — schema documents are accepted exactly when they obey the schema language rules"""
import copy
import io

from .. import cfggen, cfgrun, cfgstream, core, elabrun, schemafam as F
from ..sexp import enc

RULE = ("rule-satisfying documents rendered from the generated schema family (must be accepted, and the loaded schema object "
        "must equal the expected elaboration); documents obtained by one rule-violating edit per listed rule at a random "
        "applicable position, and pairs of edits (must be rejected with SchemaError when the schema is loaded). "
        "non-trivial = a document with >= 1 section type; distinct by document text")


def _types(sd):
    return [t for t in sd.types if not t.abstract]


def _containers(sd):
    return [("schema", sd)] + [("type", t) for t in _types(sd)]


def edits(rng, sd):
    """yield (rule, edited SchemaD or raw XML string) for every applicable rule"""
    out = []

    def clone():
        return copy.deepcopy(sd)

    cons = _types(sd)
    abss = [t for t in sd.types if t.abstract]
    # 1 unique type names
    if sd.types:
        d = clone()
        t = rng.choice(d.types)
        dup = copy.deepcopy(t)
        dup.name = t.name.upper() if rng.random() < 0.5 else t.name
        if not dup.abstract:
            dup.extends = None
        d.types.append(dup)
        out.append(("unique-type-names", d))
    # 2 / 3 unique keys and attributes per container (own and inherited)
    for kind, c in _containers(sd):
        keys = [ch for ch in c.children if ch.kind == "key" and ch.name != "+"]
        if keys:
            d = clone()
            cc = d if kind == "schema" else [t for t in _types(d) if t.name == c.name][0]
            k = rng.choice([ch for ch in cc.children if ch.kind == "key" and ch.name != "+"])
            k2 = copy.deepcopy(k)
            k2.attr = "fresh_attr9"
            cc.children.append(k2)
            out.append(("unique-key-names", d))
            d = clone()
            cc = d if kind == "schema" else [t for t in _types(d) if t.name == c.name][0]
            k = rng.choice([ch for ch in cc.children if ch.kind == "key" and ch.name != "+"])
            other = F.KeyD("zzfresh9", "string", attr=(k.attr or F._basic_key(k.name).replace("-", "_").replace(".", "_")))
            if "." not in (k.attr or k.name):
                cc.children.append(other)
                out.append(("unique-attribute-names", d))
            break
    for t in cons:
        if t.extends:
            base = [b for b in cons if b.name == t.extends][0]
            inh = [ch for ch in base.children]
            if inh:
                d = clone()
                tt = [x for x in _types(d) if x.name == t.name][0]
                ch = rng.choice(inh)
                if ch.kind == "key" and ch.name != "+":
                    tt.children.append(F.KeyD(ch.name, "string", attr="fresh_attr8"))
                    out.append(("unique-key-names-inherited", d))
                else:
                    # the attribute an item gets when none is given is basic-key(name) with '-' -> '_' (lower-cased
                    # even under a case-preserving key type)
                    a = ch.attr or F._basic_key(ch.name or "x").replace("-", "_")
                    if "." not in a:
                        tt.children.append(F.KeyD("zzfresh8", "string", attr=a))
                        out.append(("unique-attribute-names-inherited", d))
            break
    # 4 types defined before use
    d = clone()
    d.children.append(F.SectD("nosuchtype9", "*", False, False, "nst"))
    out.append(("type-defined-before-use", d))
    if len(cons) >= 1:
        d = clone()
        tt = _types(d)[0]
        later = F.TypeD("latertype9", [])
        tt.children.append(F.SectD("latertype9", "*", False, False, "later9"))
        d.types.append(later)
        out.append(("type-defined-before-use", d))
    # 5 extends / implements
    if abss:
        d = clone()
        d.types.append(F.TypeD("badext9", [], extends=rng.choice(abss).name))
        out.append(("extends-concrete", d))
    if cons:
        d = clone()
        d.types.append(F.TypeD("badimpl9", [], implements=rng.choice(cons).name))
        out.append(("implements-abstract", d))
    d = clone()
    d.types.append(F.TypeD("badext8", [], extends="nosuchbase9"))
    out.append(("extends-known", d))
    # 6 wildcard names carry an attribute; never '*' for keys
    d = clone()
    d.children.append(F.KeyD("+", "string", attr=None))
    out.append(("wildcard-needs-attribute", d))
    d = clone()
    d.children.append(F.KeyD("*", "string", attr="star9"))
    out.append(("star-key", d))
    d = clone()
    d.children = [c for c in d.children if not (c.kind == "key" and c.name == "+")]
    for frag in ("<key name='+' attribute=''/>", "<multikey name='+' attribute=''/>", "<key name='+' attribute=' '/>"):
        out.append(("wildcard-needs-attribute-empty", _inject_last(F.render_xml(d), "  %s\n" % frag)))
    if sd.types:
        out.append(("wildcard-needs-attribute-empty", _inject_last(F.render_xml(sd), "  <multisection type='%s' name='*' attribute=''/>\n" % sd.types[0].name)))
        d = clone()
        d.children.append(F.SectD(rng.choice(sd.types).name, rng.choice(["*", "+"]), False, False, None))
        out.append(("wildcard-needs-attribute", d))
        # 7 multisections named '*' or '+'
        d = clone()
        d.children.append(F.SectD(rng.choice(sd.types).name, "fixedname9", True, False, "ms9"))
        out.append(("multisection-name", d))
    # 8 no default on a required key
    d = clone()
    d.children.append(F.KeyD("reqdef9", "string", required=True, default="x"))
    out.append(("required-no-default", d))
    d = clone()
    d.children.append(F.KeyD("reqdef8", "string", multi=True, required=True, default=["x"]))
    out.append(("required-no-default-elements", d))
    d = clone()
    d.children = [c for c in d.children if not (c.kind == "key" and c.name == "+")]
    d.children.append(F.KeyD("+", "string", required=True, default=[("ab1", "x")], attr="reqmap9"))
    out.append(("required-no-default-elements", d))
    # 9 defaults keyed exactly for wildcards, no collision after normalisation
    xml = F.render_xml(sd).replace("</schema>", "  <key name='+' attribute='wm9'><default>v</default></key>\n</schema>", 1)
    if "name=\"+\"" not in F.render_xml(F.SchemaD(sd.children)) or True:
        d = clone()
        d.children = [c for c in d.children if not (c.kind == "key" and c.name == "+")]
        out.append(("default-keying", F.render_xml(d).replace("</schema>", "  <key name='+' attribute='wm9'><default>v</default></key>\n</schema>", 1)))
        out.append(("default-keying", F.render_xml(d).replace("</schema>", "  <multikey name='fx9'><default key='a'>v</default></multikey>\n</schema>", 1)))
        kt = sd.keytype or "basic-key"
        if kt != "identifier":
            out.append(("default-key-collision", F.render_xml(d).replace(
                "</schema>", "  <key name='+' attribute='wm9'><default key='Abc'>v</default><default key='aBC'>w</default></key>\n</schema>", 1)))
    # 10 well-formed names, attributes, required values, datatype names
    for bad, rule in (("1bad", "name"), ("a b", "name"), ("", "name"), ("ok&#10;", "name-newline")):
        out.append(("wellformed-type-" + rule, F.render_xml(sd).replace("</schema>", "  <sectiontype name='%s'/>\n</schema>" % bad, 1)
                    if False else _inject_first(F.render_xml(sd), "  <sectiontype name='%s'/>\n" % bad)))
    for bad, rule in (("1bad", "name"), ("a b", "name"), ("", "name"), ("a/b", "name"), ("ok&#10;", "name-newline")):
        out.append(("wellformed-abstracttype-" + rule, _inject_first(F.render_xml(sd), "  <abstracttype name='%s'/>\n" % bad)))
    out.append(("unique-type-names-empty-types", _inject_first(F.render_xml(sd), "  <sectiontype name='emptydup9'/>\n  <sectiontype name='EmptyDup9'/>\n")))
    out.append(("unique-type-names-empty-types", _inject_first(F.render_xml(sd), "  <sectiontype name='emptydup9'/>\n  <abstracttype name='emptydup9'/>\n")))
    out.append(("unique-type-names-empty-types", _inject_first(F.render_xml(sd), "  <abstracttype name='emptydup9'/>\n  <sectiontype name='emptydup9'/>\n")))
    out.append(("star-key", _inject_last(F.render_xml(sd), "  <multikey name='*' attribute='starmk9'/>\n")))
    out.append(("star-key", _inject_last(F.render_xml(sd), "  <multikey name='*' attribute='starmk9' required='yes'/>\n")))
    kt = sd.keytype or "basic-key"
    badkey = {"basic-key": "1bad", "identifier": "a-b", "ipaddr-or-hostname": "-x"}[kt]
    for nm, rule in ((badkey, "key-name"), ("ok9&#10;", "key-name-newline")):
        out.append(("wellformed-" + rule, _inject_last(F.render_xml(sd), "  <key name='%s' attribute='wk9'/>\n" % nm)))
    for at, rule in (("1x", "attribute"), ("a-b", "attribute"), ("getSectionFoo", "attribute-reserved"), ("ok9&#10;", "attribute-newline")):
        out.append(("wellformed-" + rule, _inject_last(F.render_xml(sd), "  <key name='wfa9' attribute='%s'/>\n" % at)))
    tn = (sd.types[0].name if sd.types else None)
    for rq in ("maybe", "YES", "1", "", "true", "no "):
        out.append(("wellformed-required", _inject_last(F.render_xml(sd), "  <key name='wfr9' required='%s'/>\n" % rq)))
        out.append(("wellformed-required-multikey", _inject_last(F.render_xml(sd), "  <multikey name='wfr9' required='%s'/>\n" % rq)))
        out.append(("wellformed-required-multikey", _inject_last(F.render_xml(sd), "  <multikey name='+' attribute='wfr9' required='%s'/>\n" % rq)))
        if tn:
            out.append(("wellformed-required-section", _inject_last(F.render_xml(sd), "  <section type='%s' name='wfr9' required='%s'/>\n" % (tn, rq))))
            out.append(("wellformed-required-multisection", _inject_last(
                F.render_xml(sd), "  <multisection type='%s' name='*' attribute='wfr9' required='%s'/>\n" % (tn, rq))))
    for dt in ("nosuchdatatype", "Integer ", "basic key"):
        out.append(("wellformed-datatype", _inject_last(F.render_xml(sd), "  <key name='wfd9' datatype='%s'/>\n" % dt)))
    out.append(("wellformed-handler-newline", _inject_last(F.render_xml(sd), "  <key name='wfh9' handler='h9&#10;'/>\n")))
    # 11 nesting and stray text
    out.append(("nesting", _inject_last(F.render_xml(sd), "  <key name='nk9'><key name='inner9'/></key>\n")))
    out.append(("nesting", _inject_last(F.render_xml(sd), "  <abstracttype name='na9'><key name='x9'/></abstracttype>\n")))
    out.append(("nesting", _inject_last(F.render_xml(sd), "  <section type='x'><section type='y'/></section>\n")))
    out.append(("unknown-tag", _inject_last(F.render_xml(sd), "  <bogus9/>\n")))
    out.append(("stray-text", _inject_last(F.render_xml(sd), "  stray text\n")))
    out.append(("stray-text", _inject_last(F.render_xml(sd), "  <key name='st9'>oops</key>\n")))
    out.append(("two-descriptions", _inject_last(F.render_xml(sd), "  <key name='td9'><description>a</description><description>b</description></key>\n")))
    out.append(("missing-name", _inject_last(F.render_xml(sd), "  <key datatype='string'/>\n")))
    out.append(("missing-type", _inject_last(F.render_xml(sd), "  <section name='*' attribute='mt9'/>\n")))
    return out


def _inject_last(xml, frag):
    i = xml.rindex("</schema>")
    return xml[:i] + frag + xml[i:]


def _inject_first(xml, frag):
    i = xml.index(">") + 2
    return xml[:i] + frag + xml[i:]


def load_xml(xml):
    import ZConfig
    try:
        s = ZConfig.loadSchemaFile(io.StringIO(xml))
        return ["ok", s]
    except ZConfig.SchemaError as e:
        return ["schema-error", type(e).__name__, str(e)[:100]]
    except ZConfig.ConfigurationError as e:
        return ["other-cfg-error", type(e).__name__, str(e)[:100]]
    except Exception as e:
        return ["exc", type(e).__name__, str(e)[:100]]


def _import_src_rules(ctx):
    """'unique type names' across <import src>: a type an imported document defines may not already exist in the importing
    schema (defined locally before the import, or by an earlier import), whatever kind either is; a clean import is accepted"""
    import os
    import shutil
    import tempfile
    import ZConfig
    root = tempfile.mkdtemp(prefix="zcv-c10i-", dir="/dev/shm" if os.path.isdir("/dev/shm") else None)
    try:
        def w(n, t):
            with open(os.path.join(root, n), "w") as f:
                f.write(t)
        w("lib1.xml", "<schema><sectiontype name='server'><key name='port'/></sectiontype><sectiontype name='other1'/></schema>")
        w("lib2.xml", "<schema><abstracttype name='Server'/><sectiontype name='other2'/></schema>")
        w("lib3.xml", "<schema><sectiontype name='third'/></schema>")
        docs = [
            ("ok", "<schema><import src='lib1.xml'/><import src='lib3.xml'/><section type='server' name='s'/></schema>"),
            ("ok", "<schema><sectiontype name='mine'/><import src='lib2.xml'/></schema>"),
            ("reject", "<schema><sectiontype name='server'/><import src='lib1.xml'/></schema>"),
            ("reject", "<schema><abstracttype name='SERVER'/><import src='lib1.xml'/></schema>"),
            ("reject", "<schema><sectiontype name='other2'/><import src='lib2.xml'/></schema>"),
            ("reject", "<schema><import src='lib1.xml'/><import src='lib2.xml'/></schema>"),
            ("reject", "<schema><import src='lib2.xml'/><import src='lib1.xml'/></schema>"),
            ("reject", "<schema><import src='lib3.xml'/><sectiontype name='third'/></schema>"),
        ]
        for want, xml in docs:
            w("top.xml", xml)
            try:
                ZConfig.loadSchema(os.path.join(root, "top.xml"))
                got = "ok"
            except ZConfig.SchemaError:
                got = "reject"
            except Exception as e:
                got = "exc:" + type(e).__name__
            ctx.evaluations += 1
            ctx.nontriv(("import-src", xml))
            ctx.count("import-src:%s:%s" % (want, got))
            if got != want:
                ctx.violate("unique type names across <import src>: %s is %s (expected %s)" % (xml, got, want),
                            {"schema_xml": xml, "lib1.xml": open(os.path.join(root, "lib1.xml")).read(),
                             "lib2.xml": open(os.path.join(root, "lib2.xml")).read(), "lib3.xml": open(os.path.join(root, "lib3.xml")).read()},
                            signature="C10:import-src-type-names:%s->%s" % (want, got))
    finally:
        shutil.rmtree(root, ignore_errors=True)


def run(ctx):
    obligations, discharged, names = core.standard_prelude(ctx, ["ZCV.Props.C10"])
    rng = ctx.rng
    n = 400 if ctx.thorough() else 60
    all_docs = []
    for _ in range(n):
        sd = cfggen.gen_schema(rng, handlers=rng.random() < 0.3)
        xml = F.render_xml(sd)
        all_docs.append(xml)
        r = load_xml(xml)
        ctx.evaluations += 1
        ctx.nontriv(xml)
        if r[0] != "ok":
            ctx.violate("a rule-satisfying schema document is rejected: %s" % (r[1:],), {"schema_xml": xml}, signature="C10:valid-rejected:" + r[1])
            continue
        if enc(F.elaborate(sd)) != enc(F.digest(r[1])):
            ctx.disagree("schema-digest", {"schema_xml": xml}, "digest", "expected elaboration")
        es = edits(rng, sd)
        pairs = []
        if len(es) >= 2 and rng.random() < 0.3:
            a, b = rng.sample([e for e in es if isinstance(e[1], str)], 2)
            # compose two textual injections
            fa = a[1][a[1].rindex("</schema>") - 200: a[1].rindex("</schema>")]
        for rule, doc in es:
            x = doc if isinstance(doc, str) else F.render_xml(doc)
            all_docs.append(x)
            r2 = load_xml(x)
            ctx.evaluations += 1
            ctx.nontriv(x)
            ctx.count("rule:%s:%s" % (rule, r2[0]))
            if r2[0] == "schema-error":
                continue
            if r2[0] == "other-cfg-error" and rule == "default-key-collision":
                continue
            if r2[0] == "ok":
                # is the violation at least reported later, while a configuration is read?  (that is exactly what C10 forbids)
                ctx.violate("rule '%s' violated but the schema document is accepted" % rule, {"schema_xml": x, "rule": rule},
                            signature="C10:accepted:" + rule)
            else:
                ctx.violate("rule '%s' violated: the loader raised %s instead of SchemaError" % (rule, r2[1]), {"schema_xml": x, "rule": rule},
                            signature="C10:%s:%s" % (r2[0], rule))
    _import_src_rules(ctx)
    # the Lean model of the schema loader (ZCV/Model/Elab.lean) on every one of these documents: same accept/reject,
    # same exception class, the model's reason contained in the real message, equal schema object when accepted
    elabrun.compare(ctx, "c10", all_docs)
    ctx.sample({"rules": sorted({e[0] for e in edits(rng, cfggen.gen_schema(rng))})})
    return core.finish(ctx, obligations, discharged, names, RULE,
                       "lake build ZCV.Props.C10 && lake env lean ZCV/Audit/C10.lean",
                       ["XML text -> element tree is expat's job and is not modelled", "datatype names are kept resolvable except in the datatype-name rule"])
