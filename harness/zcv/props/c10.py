"""C10 — schema documents are accepted exactly when they obey the schema language rules"""
import copy
import io
from xml.sax.saxutils import quoteattr

from .. import cfggen, cfgrun, cfgstream, core, elabrun, pkggen, schemafam as F
from ..sexp import enc

RULE = ("rule-satisfying documents rendered from the generated schema family (must be accepted, and the loaded schema object "
        "must equal the expected elaboration); documents obtained by one rule-violating edit per listed rule at a random "
        "applicable position, and pairs of edits (must be rejected with SchemaError when the schema is loaded); a derived "
        "type taking the name of an earlier plain / abstract / derived type or of its base; the character-data elements "
        "in every element, with every element among their text or after them (schema documents and imported components); "
        "violating documents and accepted controls for the document element, prefix, second <example>, <import> attributes, "
        "<multikey default>, top-level items of components, <schema extends> of conflicting bases; every spelling of a default "
        "('default' attribute, unkeyed / keyed <default> elements and their combinations) on <key> / <multikey>, named / wildcard, "
        "required or not, at the top level, in plain and derived section types and in components; two children of one "
        "container (schema, section type, the first one inherited from a base or a base's base, section types of components) that "
        "come to hold one attribute name in every ordered pair of the ways to take one (explicit attribute on a key / multikey / "
        "section under another or a wildcard name, the attribute derived from the child's own name), with controls; extends= / "
        "implements= / type= naming their type by well-formed names in any letter case (accepted) and by ill-formed names made "
        "from the name meant (blanks, several names, illegal or non-ASCII characters, non-ASCII relatives of its letters under "
        "Unicode case mapping / compatibility: KELVIN SIGN, LONG S, dotless / dotted I, fullwidth forms). "
        "non-trivial = a document with >= 1 section type; distinct by document text")


def _types(sd):
    return [t for t in sd.types if not t.abstract]


def _containers(sd):
    return [("schema", sd)] + [("type", t) for t in _types(sd)]


def edits(rng, sd):
    """yield (rule, edited SchemaD or raw XML string) for every applicable rule"""
    out = []

    def clone():
        return copy.deepcopy(sd)

    cons = _types(sd)
    abss = [t for t in sd.types if t.abstract]
    # 1 unique type names
    if sd.types:
        d = clone()
        t = rng.choice(d.types)
        dup = copy.deepcopy(t)
        dup.name = t.name.upper() if rng.random() < 0.5 else t.name
        if not dup.abstract:
            dup.extends = None
        d.types.append(dup)
        out.append(("unique-type-names", d))
    # 2 / 3 unique keys and attributes per container (own and inherited)
    for kind, c in _containers(sd):
        keys = [ch for ch in c.children if ch.kind == "key" and ch.name != "+"]
        if keys:
            d = clone()
            cc = d if kind == "schema" else [t for t in _types(d) if t.name == c.name][0]
            k = rng.choice([ch for ch in cc.children if ch.kind == "key" and ch.name != "+"])
            k2 = copy.deepcopy(k)
            k2.attr = "fresh_attr9"
            cc.children.append(k2)
            out.append(("unique-key-names", d))
            d = clone()
            cc = d if kind == "schema" else [t for t in _types(d) if t.name == c.name][0]
            k = rng.choice([ch for ch in cc.children if ch.kind == "key" and ch.name != "+"])
            other = F.KeyD("zzfresh9", "string", attr=(k.attr or F._basic_key(k.name).replace("-", "_").replace(".", "_")))
            if "." not in (k.attr or k.name):
                cc.children.append(other)
                out.append(("unique-attribute-names", d))
            break
    for t in cons:
        if t.extends:
            base = [b for b in cons if b.name == t.extends][0]
            inh = [ch for ch in base.children]
            if inh:
                d = clone()
                tt = [x for x in _types(d) if x.name == t.name][0]
                ch = rng.choice(inh)
                if ch.kind == "key" and ch.name != "+":
                    tt.children.append(F.KeyD(ch.name, "string", attr="fresh_attr8"))
                    out.append(("unique-key-names-inherited", d))
                else:
                    # the attribute an item gets when none is given is basic-key(name) with '-' -> '_' (lower-cased
                    # even under a case-preserving key type)
                    a = ch.attr or F._basic_key(ch.name or "x").replace("-", "_")
                    if "." not in a:
                        tt.children.append(F.KeyD("zzfresh8", "string", attr=a))
                        out.append(("unique-attribute-names-inherited", d))
            break
    # 4 types defined before use
    d = clone()
    d.children.append(F.SectD("nosuchtype9", "*", False, False, "nst"))
    out.append(("type-defined-before-use", d))
    if len(cons) >= 1:
        d = clone()
        tt = _types(d)[0]
        later = F.TypeD("latertype9", [])
        tt.children.append(F.SectD("latertype9", "*", False, False, "later9"))
        d.types.append(later)
        out.append(("type-defined-before-use", d))
    # 5 extends / implements
    if abss:
        d = clone()
        d.types.append(F.TypeD("badext9", [], extends=rng.choice(abss).name))
        out.append(("extends-concrete", d))
    if cons:
        d = clone()
        d.types.append(F.TypeD("badimpl9", [], implements=rng.choice(cons).name))
        out.append(("implements-abstract", d))
    d = clone()
    d.types.append(F.TypeD("badext8", [], extends="nosuchbase9"))
    out.append(("extends-known", d))
    # 6 wildcard names carry an attribute; never '*' for keys
    d = clone()
    d.children.append(F.KeyD("+", "string", attr=None))
    out.append(("wildcard-needs-attribute", d))
    d = clone()
    d.children.append(F.KeyD("*", "string", attr="star9"))
    out.append(("star-key", d))
    d = clone()
    d.children = [c for c in d.children if not (c.kind == "key" and c.name == "+")]
    for frag in ("<key name='+' attribute=''/>", "<multikey name='+' attribute=''/>", "<key name='+' attribute=' '/>"):
        out.append(("wildcard-needs-attribute-empty", _inject_last(F.render_xml(d), "  %s\n" % frag)))
    if sd.types:
        out.append(("wildcard-needs-attribute-empty", _inject_last(F.render_xml(sd), "  <multisection type='%s' name='*' attribute=''/>\n" % sd.types[0].name)))
        d = clone()
        d.children.append(F.SectD(rng.choice(sd.types).name, rng.choice(["*", "+"]), False, False, None))
        out.append(("wildcard-needs-attribute", d))
        # 7 multisections named '*' or '+'
        d = clone()
        d.children.append(F.SectD(rng.choice(sd.types).name, "fixedname9", True, False, "ms9"))
        out.append(("multisection-name", d))
    # 8 no default on a required key
    d = clone()
    d.children.append(F.KeyD("reqdef9", "string", required=True, default="x"))
    out.append(("required-no-default", d))
    d = clone()
    d.children.append(F.KeyD("reqdef8", "string", multi=True, required=True, default=["x"]))
    out.append(("required-no-default-elements", d))
    d = clone()
    d.children = [c for c in d.children if not (c.kind == "key" and c.name == "+")]
    d.children.append(F.KeyD("+", "string", required=True, default=[("ab1", "x")], attr="reqmap9"))
    out.append(("required-no-default-elements", d))
    # 9 defaults keyed exactly for wildcards, no collision after normalisation
    xml = F.render_xml(sd).replace("</schema>", "  <key name='+' attribute='wm9'><default>v</default></key>\n</schema>", 1)
    if "name=\"+\"" not in F.render_xml(F.SchemaD(sd.children)) or True:
        d = clone()
        d.children = [c for c in d.children if not (c.kind == "key" and c.name == "+")]
        out.append(("default-keying", F.render_xml(d).replace("</schema>", "  <key name='+' attribute='wm9'><default>v</default></key>\n</schema>", 1)))
        out.append(("default-keying", F.render_xml(d).replace("</schema>", "  <multikey name='fx9'><default key='a'>v</default></multikey>\n</schema>", 1)))
        kt = sd.keytype or "basic-key"
        if kt != "identifier":
            out.append(("default-key-collision", F.render_xml(d).replace(
                "</schema>", "  <key name='+' attribute='wm9'><default key='Abc'>v</default><default key='aBC'>w</default></key>\n</schema>", 1)))
    # 10 well-formed names, attributes, required values, datatype names
    for bad, rule in (("1bad", "name"), ("a b", "name"), ("", "name"), ("ok&#10;", "name-newline")):
        out.append(("wellformed-type-" + rule, F.render_xml(sd).replace("</schema>", "  <sectiontype name='%s'/>\n</schema>" % bad, 1)
                    if False else _inject_first(F.render_xml(sd), "  <sectiontype name='%s'/>\n" % bad)))
    for bad, rule in (("1bad", "name"), ("a b", "name"), ("", "name"), ("a/b", "name"), ("ok&#10;", "name-newline")):
        out.append(("wellformed-abstracttype-" + rule, _inject_first(F.render_xml(sd), "  <abstracttype name='%s'/>\n" % bad)))
    out.append(("unique-type-names-empty-types", _inject_first(F.render_xml(sd), "  <sectiontype name='emptydup9'/>\n  <sectiontype name='EmptyDup9'/>\n")))
    out.append(("unique-type-names-empty-types", _inject_first(F.render_xml(sd), "  <sectiontype name='emptydup9'/>\n  <abstracttype name='emptydup9'/>\n")))
    out.append(("unique-type-names-empty-types", _inject_first(F.render_xml(sd), "  <abstracttype name='emptydup9'/>\n  <sectiontype name='emptydup9'/>\n")))
    out.append(("star-key", _inject_last(F.render_xml(sd), "  <multikey name='*' attribute='starmk9'/>\n")))
    out.append(("star-key", _inject_last(F.render_xml(sd), "  <multikey name='*' attribute='starmk9' required='yes'/>\n")))
    kt = sd.keytype or "basic-key"
    badkey = {"basic-key": "1bad", "identifier": "a-b", "ipaddr-or-hostname": "-x"}[kt]
    for nm, rule in ((badkey, "key-name"), ("ok9&#10;", "key-name-newline")):
        out.append(("wellformed-" + rule, _inject_last(F.render_xml(sd), "  <key name='%s' attribute='wk9'/>\n" % nm)))
    for at, rule in (("1x", "attribute"), ("a-b", "attribute"), ("getSectionFoo", "attribute-reserved"), ("ok9&#10;", "attribute-newline")):
        out.append(("wellformed-" + rule, _inject_last(F.render_xml(sd), "  <key name='wfa9' attribute='%s'/>\n" % at)))
    tn = (sd.types[0].name if sd.types else None)
    for rq in ("maybe", "YES", "1", "", "true", "no "):
        out.append(("wellformed-required", _inject_last(F.render_xml(sd), "  <key name='wfr9' required='%s'/>\n" % rq)))
        out.append(("wellformed-required-multikey", _inject_last(F.render_xml(sd), "  <multikey name='wfr9' required='%s'/>\n" % rq)))
        out.append(("wellformed-required-multikey", _inject_last(F.render_xml(sd), "  <multikey name='+' attribute='wfr9' required='%s'/>\n" % rq)))
        if tn:
            out.append(("wellformed-required-section", _inject_last(F.render_xml(sd), "  <section type='%s' name='wfr9' required='%s'/>\n" % (tn, rq))))
            out.append(("wellformed-required-multisection", _inject_last(
                F.render_xml(sd), "  <multisection type='%s' name='*' attribute='wfr9' required='%s'/>\n" % (tn, rq))))
    for dt in ("nosuchdatatype", "Integer ", "basic key"):
        out.append(("wellformed-datatype", _inject_last(F.render_xml(sd), "  <key name='wfd9' datatype='%s'/>\n" % dt)))
    out.append(("wellformed-handler-newline", _inject_last(F.render_xml(sd), "  <key name='wfh9' handler='h9&#10;'/>\n")))
    # 11 nesting and stray text
    out.append(("nesting", _inject_last(F.render_xml(sd), "  <key name='nk9'><key name='inner9'/></key>\n")))
    out.append(("nesting", _inject_last(F.render_xml(sd), "  <abstracttype name='na9'><key name='x9'/></abstracttype>\n")))
    out.append(("nesting", _inject_last(F.render_xml(sd), "  <section type='x'><section type='y'/></section>\n")))
    out.append(("unknown-tag", _inject_last(F.render_xml(sd), "  <bogus9/>\n")))
    out.append(("stray-text", _inject_last(F.render_xml(sd), "  stray text\n")))
    out.append(("stray-text", _inject_last(F.render_xml(sd), "  <key name='st9'>oops</key>\n")))
    out.append(("two-descriptions", _inject_last(F.render_xml(sd), "  <key name='td9'><description>a</description><description>b</description></key>\n")))
    out.append(("missing-name", _inject_last(F.render_xml(sd), "  <key datatype='string'/>\n")))
    out.append(("missing-type", _inject_last(F.render_xml(sd), "  <section name='*' attribute='mt9'/>\n")))
    return out


# ------------------------------------------------------------------ nesting with the character-data elements
CDATA = ("description", "example", "metadefault", "default")
STRUCT = ("import", "abstracttype", "sectiontype", "key", "multikey", "section", "multisection")
# docs/schema.dtd, parent -> the elements that may appear directly inside it.  The four character-data elements are
# (#PCDATA)*, <import> is EMPTY: no element may appear inside them
DTD_CHILDREN = {
    "schema": {"description", "metadefault", "example", "import", "sectiontype", "abstracttype",
               "section", "key", "multisection", "multikey"},
    "component": {"description", "sectiontype", "abstracttype"},
    "sectiontype": {"description", "example", "section", "key", "multisection", "multikey"},
    "abstracttype": {"description"},
    "key": {"description", "metadefault", "example", "default"},
    "multikey": {"description", "metadefault", "example", "default"},
    "section": {"description", "example"},
    "multisection": {"description", "example"},
}
# parent/child pairs on which the DTD and the loader's own table (BaseParser._allowed_parents, which the Lean model and
# DocRules follow: it is regenerated into ZCV/Gen on every run) are known to differ on the pinned tree.  No expectation
# is stated for them here; the documents are still explored and left to the comparison with the model
UNSETTLED = {("schema", "metadefault"), ("section", "metadefault"), ("multisection", "metadefault"), ("component", "import")}

_NEST_OPEN = {
    "sectiontype": "<sectiontype name='npt9'>", "abstracttype": "<abstracttype name='npa9'>",
    "key": "<key name='npk9'>", "multikey": "<multikey name='npm9'>",
    "section": "<section type='nty9' name='nps9'>", "multisection": "<multisection type='nty9' name='*' attribute='npms9'>",
}
# elements that are fine by themselves (fresh names, a defined type): the only thing wrong with them is where they are
_NEST_INNER = {
    "key": "<key name='in9'/>", "multikey": "<multikey name='inm9'/>",
    "section": "<section type='nty9' name='ins9'/>", "multisection": "<multisection type='nty9' name='*' attribute='inms9'/>",
    "sectiontype": "<sectiontype name='inty9'/>", "abstracttype": "<abstracttype name='inat9'/>",
    "import": "<import package='ZConfig.components.basic'/>",
    "description": "<description>inner</description>", "example": "<example>inner</example>",
    "metadefault": "<metadefault>inner</metadefault>", "default": "<default>inner</default>",
}
NEST_TYPE = "  <sectiontype name='nty9'/>\n"      # the type the <section> fragments refer to; goes first in the host
_NEST_TEXTS = [("", ""), ("text ", ""), ("", " text"), ("some text ", " more text"), ("\n      ", "\n    "), ("a &lt; b ", "")]


def nest_fragment(rng, top, P, C, E, pos):
    """(fragment for the top level of a <top> document, expected verdict or None).
    P: the element the character-data element C is written in (the document element itself, or a fresh
    sectiontype / abstracttype / key / multikey / section / multisection); E: a further element, or None;
    pos: 'inside' (E among the text of C), 'after' (E follows the closed C inside P), 'plain' (no E)"""
    t1, t2 = rng.choice(_NEST_TEXTS)
    inner = _NEST_INNER[E] if E else ""
    if pos == "inside":
        c = "<%s>%s%s%s</%s>" % (C, t1, inner, t2, C)
    elif pos == "after":
        c = "<%s>%s%s</%s>%s" % (C, t1, t2, C, inner)
    else:
        c = "<%s>%s%s</%s>" % (C, t1, t2, C)
    if P == top:
        frag = "  %s\n" % c
    else:
        frag = "%s%s</%s>" % (_NEST_OPEN[P], c, P)
        wild = P == "key" and C == "default"
        if wild:
            # <default> elements belong to multikeys and to wildcard keys, where they carry the key they are for
            frag = frag.replace("<key name='npk9'>", "<key name='+' attribute='npk9'>").replace("<default>", "<default key='dk9'>", 1)
        if P in ("key", "multikey", "section", "multisection") and (top == "component" or wild or rng.random() < 0.5):
            frag = "<sectiontype name='npo9'>%s</sectiontype>" % frag
        frag = "  %s\n" % frag
    if pos == "inside":
        want = "reject"                         # (#PCDATA)*: whatever P, C and E are
    elif (P, C) in UNSETTLED:
        want = None
    elif C not in DTD_CHILDREN[P]:
        want = "reject"
    elif pos == "plain":
        want = "ok"
    elif (P, E) in UNSETTLED:
        want = None
    else:
        want = "ok" if E in DTD_CHILDREN[P] else "reject"
    return frag, want


def nest_parents(top):
    return [top, "sectiontype", "abstracttype", "key", "multikey", "section", "multisection"]


def nest_cases(top):
    """(P, C, E, pos): every character-data element in every element (the whole table, legal or not); every element
    inside every character-data element that is where it may be; every structural element after one"""
    out = []
    for P in nest_parents(top):
        for C in CDATA:
            out.append((P, C, None, "plain"))
            if C not in DTD_CHILDREN[P]:
                continue
            for E in STRUCT + CDATA:
                out.append((P, C, E, "inside"))
            for E in STRUCT:
                out.append((P, C, E, "after"))
    return out


def nesting_docs(rng, host_xml, cases):
    """(rule, document, expected verdict or None, case) for the given cases, written into a schema document"""
    out = []
    host = _inject_first(host_xml, NEST_TYPE)
    for P, C, E, pos in cases:
        frag, want = nest_fragment(rng, "schema", P, C, E, pos)
        doc = _inject_last(host, frag) if (P != "schema" or rng.random() < 0.5) else \
            _inject_first(host_xml, NEST_TYPE + frag)       # the schema's own description: first or last child
        out.append(("cdata-nesting-%s:%s" % (pos, C), doc, want, "%s/%s/%s" % (P, C, E)))
    return out


# ------------------------------------------------------------------ rule sites of the loader outside the edit family above
def _root_attr(xml, frag):
    i = xml.index(">")
    return xml[:i] + " " + frag + xml[i:]


def rule_site_docs(rng, sd):
    """(rule, document, expected verdict or None): one or more violating documents and an accepted control for each of: the
    document element; the prefix attribute; a second <example>; the attributes of <import>; <multikey default=...>.
    An expectation is stated where the property text or the DTD names the rule (document element, example?, the attribute
    list of multikey); the prefix and <import> rules are rules of the code: no expectation here, the documents are judged
    by the comparison with the Lean model of the loader"""
    x = F.render_xml(sd)
    out = []
    # the document element
    for root in ("component", "config", "schemas", "Schema", "sectiontype", "description"):
        body = x[x.index("<schema") + len("<schema"):x.rindex("</schema>")]
        out.append(("document-element", "<%s%s</%s>\n" % (root, body, root), "reject"))
    out.append(("document-element-control", x, "ok"))
    # prefix: a dotted name on the document element, a dotted name or a suffix below it
    for bad in ("1bad", "a..b", "a.", ".", ".rel", "a b", "a-b.c", "pkg.1x"):
        out.append(("prefix-not-dotted-name", _root_attr(x, "prefix='%s'" % bad), None))
    for bad in ("1bad", "a..b", ".a.", ".", "..x", ".1x", "a b"):
        out.append(("prefix-not-dotted-suffix", _inject_first(x, "  <sectiontype name='pfx9' prefix='%s'/>\n" % bad), None))
        out.append(("prefix-not-dotted-suffix", _inject_first(_root_attr(x, "prefix='zcvdt'"), "  <sectiontype name='pfx9' prefix='%s'/>\n" % bad), None))
    for good in ("zcvdt", "good.pkg9", "_x.y_1", ""):
        out.append(("prefix-control", _root_attr(x, "prefix='%s'" % good), "ok"))
    for good in (".sub9", ".a.b", "other.pkg9", ""):
        out.append(("prefix-control", _inject_first(x, "  <sectiontype name='pfx9' prefix='%s'/>\n" % good), "ok"))
        out.append(("prefix-control", _inject_first(_root_attr(x, "prefix='zcvdt'"), "  <sectiontype name='pfx9' prefix='%s'/>\n" % good), "ok"))
    # example?: at most one per element
    two = "<example>one</example><example>two</example>"
    sep = "<example>one</example><description>d</description><example></example>"
    one = "<description>d</description><example>one</example>"
    for rule, ex, want in (("two-examples", two, "reject"), ("two-examples", sep, "reject"), ("two-examples-control", one, "ok")):
        out.append((rule, _inject_last(x, "  %s\n" % ex), want))
        out.append((rule, _inject_first(x, "  <sectiontype name='ex9'>%s<key name='exk9'/></sectiontype>\n" % ex), want))
        out.append((rule, _inject_last(x, "  <key name='ex9'>%s</key>\n" % ex), want))
        out.append((rule, _inject_last(x, "  <multikey name='ex9'>%s<default>v</default></multikey>\n" % ex), want))
        out.append((rule, _inject_first(x, "  <sectiontype name='ext9'/>\n") .replace("</schema>", "  <section type='ext9' name='ex9'>%s</section>\n</schema>" % ex), want))
        out.append((rule, _inject_first(x, "  <sectiontype name='ext9'/>\n") .replace(
            "</schema>", "  <multisection type='ext9' name='*' attribute='ex9'>%s</multisection>\n</schema>" % ex), want))
    # <import>: src or package, not both; file only with package and without a directory part
    for rule, imp, want in (
            ("import-neither", "<import/>", None), ("import-neither", "<import src='' package='  '/>", None),
            ("import-neither", "<import file='component.xml'/>", None),
            ("import-both", "<import src='lib9.xml' package='ZConfig.components.basic'/>", None),
            ("import-both", "<import src=' lib9.xml ' package='ZConfig.components.basic' file='mapping.xml'/>", None),
            ("import-file-with-src", "<import src='lib9.xml' file='mapping.xml'/>", None),
            ("import-file-directory", "<import package='ZConfig.components.basic' file='sub/mapping.xml'/>", None),
            ("import-file-directory", "<import package='ZConfig.components' file='basic/mapping.xml'/>", None),
            ("import-file-directory", "<import package='ZConfig.components.basic' file='/mapping.xml'/>", None),
            ("import-control", "<import package='ZConfig.components.basic' file='mapping.xml'/>", "ok"),
            ("import-control", "<import package='ZConfig.components.basic'/>", "ok"),
            ("import-control", "<import package=' ZConfig.components.basic ' file=' mapping.xml '/>", "ok")):
        out.append((rule, _inject_first(x, "  %s\n" % imp), want))
    # multikey: default values only as <default> elements
    for mk in ("<multikey name='mkd9' default='x'/>", "<multikey name='mkd9' default=''/>",
               "<multikey name='mkd9' default='x'><default>y</default></multikey>",
               "<multikey name='mkd9' default='x' required='yes'/>"):
        out.append(("multikey-default-attribute", _inject_last(x, "  %s\n" % mk), "reject"))
        out.append(("multikey-default-attribute", _inject_first(x, "  <sectiontype name='mkt9'>%s</sectiontype>\n" % mk), "reject"))
    if not any(c.kind == "key" and c.name == "+" for c in sd.children):
        out.append(("multikey-default-attribute", _inject_last(x, "  <multikey name='+' attribute='mkd9' default='x'/>\n"), "reject"))
    for mk in ("<multikey name='mkd9'><default>x</default></multikey>", "<key name='mkd9' default='x'/>", "<multikey name='mkd9'/>"):
        out.append(("multikey-default-control", _inject_last(x, "  %s\n" % mk), "ok"))
        out.append(("multikey-default-control", _inject_first(x, "  <sectiontype name='mkt9'>%s</sectiontype>\n" % mk), "ok"))
    return out


# ------------------------------------------------------------------ every spelling of a default on every kind of key
# a default can be written as the 'default' attribute and / or as <default> child elements, with or without key=...
DEFAULT_SPELLINGS = {
    #  name                  attribute     children
    "none": (None, ""),
    "attr": ("v", ""),
    "attr-empty": ("", ""),
    "attr-blank": (" ", ""),
    "elem": (None, "<default>v</default>"),
    "elem-keyed": (None, "<default key='ab1'>1</default>"),
    "elems-keyed": (None, "<default key='ab1'>1</default><default key='cd2'>2</default>"),
    "attr+elem": ("v", "<default>w</default>"),
    "attr+elem-keyed": ("v", "<default key='ab1'>1</default>"),
    "attr-empty+elem-keyed": ("", "<default key='ab1'>1</default>"),
    "elem-keyed+elem": (None, "<default key='ab1'>1</default><default>w</default>"),
}
DEFAULT_CONTAINERS = ("schema", "sectiontype", "derived", "derived-keytype")


def default_cases():
    """(element, wildcard?, required?, spelling): the whole table"""
    return [(el, wild, req, sp) for el in ("key", "multikey") for wild in (False, True) for req in (False, True)
            for sp in DEFAULT_SPELLINGS]


def default_element(el, wild, req, sp, n=""):
    """the element and the verdict the property's rules give ('no default on a required key; defaults keyed exactly when
    the key is a wildcard'; default values of a multikey only as <default> elements, docs/schema.dtd), None where the
    document is refused or accepted by a rule of the code only (a <default> element in a named <key>)"""
    attr, kids = DEFAULT_SPELLINGS[sp]
    a = ("name='+' attribute='dfw9%s'" % n) if wild else ("name='dfk9%s'" % n)
    if req:
        a += " required='yes'"
    if attr is not None:
        a += " default='%s'" % attr
    elem = "<%s %s>%s</%s>" % (el, a, kids, el) if kids else "<%s %s/>" % (el, a)
    unkeyed = attr is not None or "<default>" in kids
    keyed = "<default key=" in kids
    if req and (unkeyed or keyed):
        want = "reject"                             # no default on a required key
    elif el == "multikey" and attr is not None:
        want = "reject"                             # <!ATTLIST multikey ...>: no 'default'
    elif wild and unkeyed:
        want = "reject"                             # defaults keyed ...
    elif not wild and keyed:
        want = "reject"                             # ... exactly when the key is a wildcard
    elif el == "key" and not wild and "<default>" in kids:
        want = None
    else:
        want = "ok"
    return elem, want


def default_docs(rng, sd, cases, containers=DEFAULT_CONTAINERS):
    """(rule, document, expected verdict or None, case): the key element of each case at the top level of the document
    (without the family's own wildcard key), in a fresh section type, in a section type derived from one with keys, and in
    a derived type that states its own key type; the type is used by a section in half of the documents"""
    d = copy.deepcopy(sd)
    d.children = [c for c in d.children if not (c.kind == "key" and c.name == "+")]
    top = F.render_xml(d)
    host = F.render_xml(sd)
    out = []
    for el, wild, req, sp in cases:
        for con in containers:
            elem, want = default_element(el, wild, req, sp)
            use = "  <section type='dft9' name='*' attribute='dfs9'/>\n" if rng.random() < 0.5 else ""
            if con == "schema":
                doc = _inject_last(top, "  %s\n" % elem)
            elif con == "sectiontype":
                doc = _inject_last(_inject_first(host, "  <sectiontype name='dft9'>%s</sectiontype>\n" % elem), use)
            else:
                kt = " keytype='%s'" % rng.choice(["identifier", "basic-key", "ipaddr-or-hostname"]) if con == "derived-keytype" else ""
                base = rng.choice(["<sectiontype name='dfb9'><key name='k9'/></sectiontype>",
                                   "<sectiontype name='dfb9'><key name='k9' default='x'/><multikey name='m9'><default>y</default></multikey></sectiontype>",
                                   "<sectiontype name='dfb9'><key name='+' attribute='bw9'><default key='ab1'>1</default></key></sectiontype>"
                                   if not wild else "<sectiontype name='dfb9'/>"])
                doc = _inject_last(_inject_first(host, "  %s\n  <sectiontype name='dft9' extends='dfb9'%s>%s</sectiontype>\n" % (base, kt, elem)), use)
            rule = "default-spelling:%s%s%s:%s" % (el, "+" if wild else "", "!" if req else "", sp)
            out.append((rule, doc, want, "%s/%s" % (con, rule)))
    return out


# ------------------------------------------------------------------ a derived type that takes an existing name
def derived_duplicates(rng, sd, all_textual=False):
    """'unique type names' where the SECOND definition is a derived type (<sectiontype extends=...>): it names an earlier
    section type, abstract type, derived type, or its own base; written in the same or another letter case.
    -> [(rule, SchemaD or text)], all to be refused"""
    out = []
    cons = _types(sd)
    if cons:
        for _ in range(2):
            d = copy.deepcopy(sd)
            base = rng.choice(cons)
            victim = rng.choice(sd.types)
            name = rng.choice([victim.name, victim.name, victim.name.upper(), cfggen._case_variant(rng, victim.name)])
            abss = [t for t in sd.types if t.abstract and t.name != victim.name]
            dup = F.TypeD(name, [], extends=base.name,
                          implements=rng.choice(abss).name if (abss and rng.random() < 0.3) else None)
            if rng.random() < 0.3:
                dup.children.append(F.KeyD("zzown9", "string", attr="zzown9"))
            # anywhere after both the base and the type whose name it takes
            lo = max(d.types.index([t for t in d.types if t.name == n][0]) for n in (base.name, victim.name)) + 1
            d.types.insert(rng.randint(lo, len(d.types)), dup)
            kind = "abstract" if victim.abstract else "own-base" if victim.name == base.name else \
                "derived" if victim.extends else "concrete"
            out.append(("unique-type-names-derived:" + kind, d))
    x = F.render_xml(sd)
    v = rng.choice(["dvict9", "DVict9", "DVICT9"])
    for kind, frag in (
            ("concrete", "<sectiontype name='dbase9'/><sectiontype name='dvict9'/><sectiontype name='%s' extends='dbase9'/>" % v),
            ("concrete", "<sectiontype name='dvict9'><key name='a9'/></sectiontype><sectiontype name='dbase9'><key name='b9'/></sectiontype>"
                         "<sectiontype name='%s' extends='dbase9'><key name='c9'/></sectiontype>" % v),
            ("abstract", "<abstracttype name='dvict9'/><sectiontype name='dbase9'/><sectiontype name='%s' extends='dbase9'/>" % v),
            ("abstract", "<abstracttype name='dvict9'/><sectiontype name='dbase9'/><sectiontype name='%s' extends='dbase9' implements='dvict9'/>" % v),
            ("derived", "<sectiontype name='dbase9'/><sectiontype name='dvict9' extends='dbase9'/><sectiontype name='%s' extends='dbase9'/>" % v),
            ("derived", "<sectiontype name='dbase9'/><sectiontype name='dvict9' extends='dbase9'/><sectiontype name='%s' extends='dvict9'/>" % v),
            ("own-base", "<sectiontype name='dvict9'/><sectiontype name='%s' extends='dvict9'/>" % v),
            ("own-base", "<abstracttype name='dabs9'/><sectiontype name='dvict9' implements='dabs9'><key name='a9'/></sectiontype>"
                         "<sectiontype name='%s' extends='dvict9' implements='dabs9'/>" % v)):
        out.append(("unique-type-names-derived:" + kind, _inject_first(x, "  %s\n" % frag)))
    return out[:-8] + rng.sample(out[-8:], 8 if all_textual else 3)


def component_docs(rng, pk):
    """the same two classes where the offending element is in a component (<import package=...>): ComponentParser shares
    the nesting check and the type map with the schema's parser.  -> [(rule, schema document, expected, replay extras)]"""
    import os
    out = []

    def comp(body, raw=False):
        name = pk.fresh_name("zcvc10p")
        d = os.path.join(pk.root, name)
        os.makedirs(d)
        with open(os.path.join(d, "__init__.py"), "w") as f:
            f.write("# generated\n")
        text = body if raw else "<component>\n%s</component>\n" % body
        with open(os.path.join(d, "component.xml"), "w", encoding="utf-8") as f:
            f.write(text)
        pk.names.append(name)
        return name, text

    for case in nest_cases("component"):
        frag, want = nest_fragment(rng, "component", *case)
        name, text = comp(frag)
        out.append(("component-cdata-nesting-%s:%s" % (case[3], case[1]),
                    "<schema>\n%s  <import package='%s'/>\n</schema>\n" % (NEST_TYPE, name), want,
                    {"case": "%s/%s/%s" % case[:3], "component.xml": text}))
    # rule sites of ComponentParser: its document element; items at its top level (they belong into section types); its
    # prefix; the <import> attribute rules inside a component
    items = ("<key name='ck9'/>", "<multikey name='cmk9'/>", "<section type='nty9' name='cs9'/>",
             "<multisection type='nty9' name='*' attribute='cms9'/>")
    sites = [("component-document-element", "<%s>\n  <sectiontype name='cde9'/>\n</%s>\n" % (r, r), "reject") for r in ("schema", "Component", "components", "sectiontype")]
    sites.append(("component-document-element-control", "<component>\n  <sectiontype name='cde9'/>\n</component>\n", "ok"))
    for it in items:
        sites.append(("component-toplevel-item", "<component>\n  %s\n</component>\n" % it, "reject"))
        sites.append(("component-toplevel-item", "<component>\n  <sectiontype name='cti9'/>\n  %s\n</component>\n" % it, "reject"))
    sites.append(("component-toplevel-item-control", "<component>\n  <sectiontype name='cti9'>\n    %s\n  </sectiontype>\n</component>\n" % "\n    ".join(items), "ok"))
    for bad in ("1bad", "a..b", ".rel", "a b"):
        sites.append(("component-prefix", "<component prefix='%s'>\n  <sectiontype name='cpx9'/>\n</component>\n" % bad, None))
        sites.append(("component-prefix", "<component>\n  <sectiontype name='cpx9' prefix='%s'/>\n</component>\n" % bad.replace(".rel", "..rel"), None))
    for good in ("zcvdt", "good.pkg9", ""):
        sites.append(("component-prefix-control", "<component prefix='%s'>\n  <sectiontype name='cpx9' prefix='.sub9'/>\n</component>\n" % good, "ok"))
    for rule, imp, want in (("component-import-neither", "<import/>", None), ("component-import-both", "<import src='x.xml' package='ZConfig.components.basic'/>", None),
                            ("component-import-file-with-src", "<import src='x.xml' file='mapping.xml'/>", None),
                            ("component-import-file-directory", "<import package='ZConfig.components.basic' file='sub/mapping.xml'/>", None),
                            ("component-import-control", "<import package='ZConfig.components.basic' file='mapping.xml'/>", "ok")):
        sites.append((rule, "<component>\n  %s\n</component>\n" % imp, want))
    # the spellings of a default on the keys of a component's section types (plain and derived)
    for el, wild, req, sp in default_cases():
        elem, want = default_element(el, wild, req, sp)
        how = rng.choice(["<sectiontype name='cdf9'>%s</sectiontype>",
                          "<sectiontype name='cdb9'><key name='k9'/></sectiontype>\n  <sectiontype name='cdf9' extends='cdb9'>%s</sectiontype>",
                          "<sectiontype name='cdf9' extends='nty9' keytype='identifier'>%s</sectiontype>"])
        sites.append(("component-default-spelling:%s%s%s:%s" % (el, "+" if wild else "", "!" if req else "", sp),
                      "<component>\n  %s\n</component>\n" % (how % elem), want))
    # two children of one section type of a component holding one attribute name (the first possibly inherited)
    acases = attribute_cases()
    for i, j in rng.sample(acases, 24):
        x, nm = rng.choice([("col9", "col9"), ("col9", "COL9"), ("co_l9", "co-l9")])
        for rule, (x2, nm2), want in (("attribute-collision", (x, nm), "reject"), ("attribute-collision-control", ("dif9", "dif9"), "ok")):
            first, second = attribute_takers(x, nm, "oth9a")[i], attribute_takers(x2, nm2, "oth9b")[j]
            how = rng.choice(["<sectiontype name='cac9'>%s%s</sectiontype>",
                              "<sectiontype name='cab9'>%s</sectiontype>\n  <sectiontype name='cac9' extends='cab9'>%s</sectiontype>"])
            sites.append(("component-%s:%s>%s" % (rule, first[0], second[0]),
                          "<component>\n  %s\n</component>\n" % (how % (first[1], second[1])), want))
    # extends= / implements= / type= inside a component, naming a type of the component or of the importing schema
    for tname in rng.sample(REF_NAMES, 3):
        refs = [("well-formed", tname.upper(), "ok")] + [("ill-formed:" + k, r, "reject" if r.strip() else None)
                                                         for k, r in ill_formed_references(rng, tname)]
        for kind, ref, want in refs[:1] + rng.sample(refs[1:], 4) + rng.sample([r for r in refs if r[0] == "ill-formed:relative"], 2):
            site = rng.choice(["extends", "implements", "type"])
            local = rng.random() < 0.5 and tname != "nty9"
            tdef = ("<abstracttype name='%s'/>" if site == "implements" else "<sectiontype name='%s'/>") % tname
            user = {"extends": "<sectiontype name='ctr9' extends=%s/>", "implements": "<sectiontype name='ctr9' implements=%s/>",
                    "type": "<sectiontype name='ctr9'><section type=%s name='*' attribute='cts9'/></sectiontype>"}[site] % quoteattr(ref)
            if site == "type" and kind == "ill-formed:relative":
                want = None
            text = "<component>\n  %s%s\n</component>\n" % ((tdef + "\n  ") if local else "", user)
            name, text = comp(text, raw=True)
            out.append(("component-type-reference:%s:%s" % (site, kind),
                        "<schema>\n%s%s  <import package='%s'/>\n</schema>\n" % (NEST_TYPE, "" if local else "  %s\n" % tdef, name), want,
                        {"component.xml": text, "case": "%s=%r for type %r" % (site, ref, tname)}))
    for rule, text, want in sites:
        name, text = comp(text, raw=True)
        out.append((rule, "<schema>\n%s  <import package='%s'/>\n</schema>\n" % (NEST_TYPE, name), want, {"component.xml": text}))
    base = "  <sectiontype name='cbase9'><key name='k9'/></sectiontype>\n"
    v = rng.choice(["cvict9", "CVict9", "CVICT9"])
    for kind, first, second, want in (
            ("concrete", base + "  <sectiontype name='cvict9'/>\n", "  <sectiontype name='%s' extends='cbase9'/>\n" % v, "reject"),
            ("abstract", base + "  <abstracttype name='cvict9'/>\n", "  <sectiontype name='%s' extends='cbase9'/>\n" % v, "reject"),
            ("derived", base + "  <sectiontype name='cvict9' extends='cbase9'/>\n",
             "  <sectiontype name='%s' extends='cbase9'><key name='o9'/></sectiontype>\n" % v, "reject"),
            ("own-base", base, "  <sectiontype name='%s' extends='cbase9'/>\n" % rng.choice(["cbase9", "CBase9", "CBASE9"]), "reject"),
            ("plain", base + "  <sectiontype name='cvict9'/>\n", "  <sectiontype name='%s'/>\n" % v, "reject"),
            ("fresh-name", base + "  <sectiontype name='cvict9'/>\n", "  <sectiontype name='cnew9' extends='cbase9'/>\n", "ok")):
        rule = "component-unique-type-names-derived:" + kind
        n2, t2 = comp(second)
        out.append((rule, "<schema>\n%s  <import package='%s'/>\n</schema>\n" % (first, n2), want, {"component.xml": t2}))
        n1, t1 = comp(first)
        n2, t2 = comp(second)
        out.append((rule, "<schema>\n  <import package='%s'/>\n  <import package='%s'/>\n</schema>\n" % (n1, n2), want,
                    {"component.xml (first import)": t1, "component.xml (second import)": t2}))
        n3, t3 = comp(first + second)
        out.append((rule, "<schema>\n  <import package='%s'/>\n</schema>\n" % n3, want, {"component.xml": t3}))
    return out


# ------------------------------------------------------------------ two children of one container holding one attribute name
def attribute_takers(x, nm, other):
    """every way a child of a container comes to hold the attribute name x -> [(label, element, key-name slot)].
    nm: a name whose derived attribute is x (x itself, another letter case, '-' for '_'); other: a fresh name.  The slot
    says which entry of the container's NAME map the child takes (two children in one slot break 'unique key names',
    another rule): 'nm', the fresh name, '+' for a wildcard key, None for a wildcard section"""
    sect = "type='nty9'"
    return [
        ("key:own-name", "<key name='%s'/>" % nm, "nm"),
        ("key:own-name+attribute", "<key name='%s' attribute='%s'/>" % (nm, x), "nm"),
        ("multikey:own-name", "<multikey name='%s'/>" % nm, "nm"),
        ("section:own-name", "<section %s name='%s'/>" % (sect, nm), "nm"),
        ("key:other-name", "<key name='%s' attribute='%s'/>" % (other, x), other),
        ("multikey:other-name", "<multikey name='%s' attribute='%s'/>" % (other, x), other),
        ("section:other-name", "<section %s name='%s' attribute='%s'/>" % (sect, other, x), other),
        ("key:+", "<key name='+' attribute='%s'/>" % x, "+"),
        ("multikey:+", "<multikey name='+' attribute='%s'/>" % x, "+"),
        ("section:*", "<section %s name='*' attribute='%s'/>" % (sect, x), None),
        ("section:+", "<section %s name='+' attribute='%s'/>" % (sect, x), None),
        ("multisection:*", "<multisection %s name='*' attribute='%s'/>" % (sect, x), None),
        ("multisection:+", "<multisection %s name='+' attribute='%s'/>" % (sect, x), None),
    ]


ATTR_CONTAINERS = ("schema", "sectiontype", "derived", "derived-twice")


def attribute_cases():
    """(i, j): ordered pairs of takers (the FIRST child in document order, the LATER one) that do not share a key-name slot"""
    ts = attribute_takers("x", "x", "o")
    return [(i, j) for i in range(len(ts)) for j in range(len(ts))
            if not (ts[i][2] is not None and ts[i][2] == ts[j][2])]


def attribute_collision_docs(rng, sd, cases, containers=ATTR_CONTAINERS, controls=True):
    """(rule, document, expected verdict, case): 'unique attribute names per container, inherited ones included' for every
    way two children can come to hold one attribute name - an explicit attribute='x' on a key / multikey / section under
    another name or under a wildcard name, the attribute derived from the child's own name (with or without stating it) -
    in both orders, as children of the schema, of a section type, and with the first child inherited from the base (or the
    base's base) of the type that holds the later one.  Control: the later child takes another attribute name (accepted)"""
    d = copy.deepcopy(sd)
    d.children = [c for c in d.children if not (c.kind == "key" and c.name == "+")]
    top = _inject_first(F.render_xml(d), NEST_TYPE)
    host = F.render_xml(sd)
    out = []
    for i, j in cases:
        for con in containers:
            kt = (sd.keytype or "basic-key") if con == "schema" else "basic-key"
            # the attribute name and a name it is derived from: the lower-cased name with '_' for '-'
            x, nm = rng.choice([("col9", "col9"), ("col9", "Col9"), ("col9", "COL9")] +
                               ([("co_l9", "co-l9"), ("c_ol_9", "C-ol-9")] if kt != "identifier" else [("co_l9", "co_l9")]))
            first = attribute_takers(x, nm, "oth9a")[i]
            for rule, (x2, nm2), want in [("attribute-collision", (x, nm), "reject")] + \
                    ([("attribute-collision-control", ("dif9", "dif9"), "ok")] if controls else []):
                second = attribute_takers(x2, nm2, "oth9b")[j]
                fill = rng.choice(["", "", "<key name='fil9'/>", "<multikey name='fil9' attribute='fil8'/>"])
                if con == "schema":
                    doc = _inject_last(top, "  %s%s%s\n" % (first[1], fill, second[1]))
                else:
                    if con == "sectiontype":
                        types = "<sectiontype name='act9'>%s%s%s</sectiontype>" % (first[1], fill, second[1])
                    elif con == "derived":
                        types = "<sectiontype name='acb9'>%s</sectiontype><sectiontype name='act9' extends='acb9'>%s%s</sectiontype>" % (
                            first[1], fill, second[1])
                    else:
                        types = ("<sectiontype name='acb9'>%s</sectiontype><sectiontype name='acm9' extends='acb9'>%s</sectiontype>"
                                 "<sectiontype name='act9' extends='acm9'>%s</sectiontype>" % (first[1], fill, second[1]))
                    use = "  <section type='act9' name='*' attribute='acs9'/>\n" if rng.random() < 0.5 else ""
                    doc = _inject_last(_inject_first(host, NEST_TYPE + "  %s\n" % types), use)
                out.append(("%s:%s>%s" % (rule, first[0], second[0]), doc, want, "%s/%s then %s" % (con, first[0], second[0])))
    return out


def attribute_collision_edits(rng, sd):
    """the same rule against the children the family's own containers already have: a child that holds an explicit attribute
    name (attribute='at1' on a key, 'map0' on a wildcard key, the attribute of a section), and LATER - in the same container
    or in a type derived from it - a key / multikey whose own name is that attribute name.  -> [(rule, SchemaD)], to be refused"""
    out = []
    cons = _types(sd)
    for kind, c in _containers(sd):
        takers = [ch for ch in c.children if ch.attr and ch.attr == ch.attr.lower() and ch.attr.isidentifier()
                  and not any(o.kind == "key" and o.name.lower() == ch.attr for o in c.children)]
        if not takers:
            continue
        ch = rng.choice(takers)
        heirs = [t for t in cons if kind == "type" and t.extends == c.name]
        d = copy.deepcopy(sd)
        if heirs and rng.random() < 0.6:
            heir = rng.choice(heirs).name
            tgt = [t for t in _types(d) if t.name == heir][0]
            rule = "attribute-collision-own-name-inherited"
        else:
            tgt = d if kind == "schema" else [t for t in _types(d) if t.name == c.name][0]
            rule = "attribute-collision-own-name"
        late = F.KeyD(ch.attr, "string", multi=rng.random() < 0.3, attr=rng.choice([None, None, ch.attr]))
        tgt.children.append(late)
        out.append((rule, d))
    return rng.sample(out, min(len(out), 2))


# ------------------------------------------------------------------ references to types: extends= / implements= / type=
# non-ASCII characters that a Unicode case mapping or compatibility normalisation sends to an ASCII letter: a name that
# holds one is not a well-formed type name, although str.lower() / upper() / casefold() / NFKC of it may be one
_RELATIVES = {"k": "\u212a", "K": "\u212a", "s": "\u017f", "S": "\u017f", "i": "\u0131", "I": "\u0130"}     # KELVIN SIGN, LONG S, DOTLESS I, I WITH DOT ABOVE


def _relative(rng, c):
    """a non-ASCII relative of the ASCII letter c"""
    full = chr(ord(c) - ord("a") + 0xFF41) if c.islower() else chr(ord(c) - ord("A") + 0xFF21)      # fullwidth forms
    return rng.choice([_RELATIVES[c], _RELATIVES[c], full]) if c in _RELATIVES else full


def ill_formed_references(rng, name):
    """[(kind, reference)]: values that are not well-formed type names (an ASCII letter followed by ASCII letters, digits,
    '-', '.', '_'), each made from the name of an existing type.  'relative': one or all of its letters replaced by a
    non-ASCII relative, in the name as written and in its upper-cased form"""
    out = [("empty", ""), ("blank", " "), ("leading-blank", " " + name), ("trailing-blank", name + " "),
           ("two-names", name + " " + name), ("digit-first", "1" + name), ("hyphen-first", "-" + name),
           ("illegal-char", name + rng.choice("/+:,*$")), ("illegal-char", name[:1] + rng.choice("/+: ") + name[1:]),
           ("non-ascii-letter", name + rng.choice("\u00e9\u00df\u03ba")), ("non-ascii-letter", rng.choice("\u00e9\u03ba") + name)]
    for base in (name, name.upper(), cfggen._case_variant(rng, name)):
        letters = [p for p, c in enumerate(base) if c.isascii() and c.isalpha()]
        special = [p for p in letters if base[p] in _RELATIVES]
        for p in special:                                                   # every letter that has a case-mapping relative
            out.append(("relative", base[:p] + _RELATIVES[base[p]] + base[p + 1:]))
        if special:
            out.append(("relative", "".join(_RELATIVES.get(c, c) for c in base)))
        p = rng.choice(letters)
        out.append(("relative", base[:p] + _relative(rng, base[p]) + base[p + 1:]))
    seen, res = {name}, []
    for k, r in out:
        if r not in seen:
            seen.add(r)
            res.append((k, r))
    return res


REF_NAMES = ("sink9", "k9", "back-end9", "task.kind9", "Is_s9", "plain9")
REF_SITES = ("extends", "implements", "extends+implements", "section-type", "multisection-type", "section-type-in-type")


def type_reference_docs(rng, sd, names, sites=REF_SITES, per_name=None):
    """(rule, document, expected verdict or None, case): 'extends' naming a concrete type, 'implements' an abstract one,
    sections naming their type - through well-formed names in any letter case (accepted) and through every kind of
    ill-formed name made from the name of the type meant (refused: such a value names no type of the schema language).
    For type= on <section> / <multisection> the 'relative' references are explored without an expectation stated here:
    they are judged by the comparison with the Lean model (whose look-up lower-cases like str.lower)"""
    host = F.render_xml(sd)
    out = []
    for name in names:
        good = [("as-written", name), ("upper", name.upper()), ("title", name.title()), ("mixed", cfggen._case_variant(rng, name))]
        bad = ill_formed_references(rng, name)
        if per_name is not None:
            good = rng.sample(good, 1)
            bad = rng.sample(bad, min(len(bad), per_name)) + rng.sample([b for b in bad if b[0] == "relative"], 1)
        for site in sites:
            for kind, ref in [("well-formed:" + k, r) for k, r in good] + [("ill-formed:" + k, r) for k, r in bad]:
                q = quoteattr(ref)
                own = rng.choice(["", "<key name='b9'/>"])
                if site == "extends":
                    types = "<sectiontype name='%s'><key name='a9'/></sectiontype>\n  <sectiontype name='trd9' extends=%s>%s</sectiontype>" % (name, q, own)
                    use = "<section type='trd9' name='*' attribute='tru9'/>"
                elif site == "implements":
                    types = "<abstracttype name='%s'/>\n  <sectiontype name='trd9' implements=%s>%s</sectiontype>" % (name, q, own)
                    use = "<section type='%s' name='*' attribute='tru9'/>" % name
                elif site == "extends+implements":
                    # one of the two references is the one under test, the other is well formed
                    if rng.random() < 0.5:
                        e, m, bname, aname = q, quoteattr("tra9"), name, "tra9"
                    else:
                        e, m, bname, aname = quoteattr("trb9"), q, "trb9", name
                    types = ("<abstracttype name='%s'/>\n  <sectiontype name='%s'/>\n  <sectiontype name='trd9' extends=%s implements=%s>%s</sectiontype>"
                             % (aname, bname, e, m, own))
                    use = "<multisection type='%s' name='+' attribute='tru9'/>" % aname
                else:
                    types = "<sectiontype name='%s'>%s</sectiontype>" % (name, own)
                    el = "<multisection type=%s name='*' attribute='tru9'/>" % q if site == "multisection-type" else \
                        rng.choice(["<section type=%s name='trs9'/>", "<section type=%s name='*' attribute='tru9'/>"]) % q
                    if site == "section-type-in-type":
                        types += "\n  <sectiontype name='tro9'>%s</sectiontype>" % el
                        use = "<section type='tro9' name='tro9'/>"
                    else:
                        use = el
                doc = _inject_first(host, "  %s\n" % types)
                if site in ("section-type", "multisection-type") or rng.random() < 0.5:
                    doc = _inject_last(doc, "  %s\n" % use)
                if kind.startswith("well-formed"):
                    want = "ok"
                elif kind == "ill-formed:relative" and "type" in site:
                    want = None
                elif kind in ("ill-formed:empty", "ill-formed:blank") and "type" not in site:
                    want = None             # an empty attribute: absent or ill-formed? the model decides (refused on the pinned tree)
                else:
                    want = "reject"
                out.append(("type-reference:%s:%s" % (site, kind), doc, want, "%s=%r for type %r" % (site, ref, name)))
    return out


def judge(ctx, rule, x, want, extra=None):
    """load the document; the verdict the rules demand is `want` ('reject' = SchemaError while the schema is loaded,
    'ok' = a schema is returned, None = no expectation stated here)"""
    r = load_xml(x)
    ctx.evaluations += 1
    ctx.nontriv(x)
    ctx.count("rule:%s:%s" % (rule, r[0]))
    if want is None or (want == "reject" and r[0] == "schema-error") or (want == "ok" and r[0] == "ok"):
        return r
    rep = {"schema_xml": x, "rule": rule}
    rep.update(extra or {})
    if want == "ok":
        ctx.violate("a rule-satisfying schema document (%s) is rejected: %s" % (rule, r[1:]), rep, signature="C10:valid-rejected:" + rule)
    elif r[0] == "ok":
        ctx.violate("rule '%s' violated but the schema document is accepted" % rule, rep, signature="C10:accepted:" + rule)
    else:
        ctx.violate("rule '%s' violated: the loader raised %s instead of SchemaError" % (rule, r[1]), rep,
                    signature="C10:%s:%s" % (r[0], rule))
    return r


def _inject_last(xml, frag):
    i = xml.rindex("</schema>")
    return xml[:i] + frag + xml[i:]


def _inject_first(xml, frag):
    i = xml.index(">") + 2
    return xml[:i] + frag + xml[i:]


def load_xml(xml):
    import ZConfig
    try:
        s = ZConfig.loadSchemaFile(io.StringIO(xml))
        return ["ok", s]
    except ZConfig.SchemaError as e:
        return ["schema-error", type(e).__name__, str(e)[:100]]
    except ZConfig.ConfigurationError as e:
        return ["other-cfg-error", type(e).__name__, str(e)[:100]]
    except Exception as e:
        return ["exc", type(e).__name__, str(e)[:100]]


def _import_src_rules(ctx):
    """'unique type names' across <import src>: a type an imported document defines may not already exist in the importing
    schema (defined locally before the import, or by an earlier import), whatever kind either is - plain, abstract or derived;
    an imported document obeys the rules itself (derived duplicates, elements inside character data); a clean import is accepted"""
    import os
    import shutil
    import tempfile
    import ZConfig
    root = tempfile.mkdtemp(prefix="zcv-c10i-", dir="/dev/shm" if os.path.isdir("/dev/shm") else None)
    try:
        def w(n, t):
            with open(os.path.join(root, n), "w") as f:
                f.write(t)
        w("lib1.xml", "<schema><sectiontype name='server'><key name='port'/></sectiontype><sectiontype name='other1'/></schema>")
        w("lib2.xml", "<schema><abstracttype name='Server'/><sectiontype name='other2'/></schema>")
        w("lib3.xml", "<schema><sectiontype name='third'/></schema>")
        # the second definition is a derived type: inside the imported document, and across two imports
        w("lib4.xml", "<schema><sectiontype name='b4'/><sectiontype name='o4'/><sectiontype name='O4' extends='b4'/></schema>")
        w("lib5.xml", "<schema><sectiontype name='b5'/><sectiontype name='Third' extends='b5'/></schema>")
        # an element among the text of a character-data element of the imported document
        w("lib6.xml", "<schema><sectiontype name='t6'><description>about t6 <key name='k6'/></description></sectiontype></schema>")
        w("lib7.xml", "<schema><sectiontype name='t7'><description>about t7</description><key name='k7'><description>k</description></key></sectiontype></schema>")
        docs = [
            ("ok", "<schema><import src='lib1.xml'/><import src='lib3.xml'/><section type='server' name='s'/></schema>"),
            ("ok", "<schema><sectiontype name='mine'/><import src='lib2.xml'/></schema>"),
            ("reject", "<schema><sectiontype name='server'/><import src='lib1.xml'/></schema>"),
            ("reject", "<schema><abstracttype name='SERVER'/><import src='lib1.xml'/></schema>"),
            ("reject", "<schema><sectiontype name='other2'/><import src='lib2.xml'/></schema>"),
            ("reject", "<schema><import src='lib1.xml'/><import src='lib2.xml'/></schema>"),
            ("reject", "<schema><import src='lib2.xml'/><import src='lib1.xml'/></schema>"),
            ("reject", "<schema><import src='lib3.xml'/><sectiontype name='third'/></schema>"),
            ("reject", "<schema><import src='lib4.xml'/></schema>"),
            ("ok", "<schema><import src='lib5.xml'/></schema>"),
            ("reject", "<schema><import src='lib3.xml'/><import src='lib5.xml'/></schema>"),
            ("reject", "<schema><import src='lib3.xml'/><sectiontype name='mine5'/><sectiontype name='THIRD' extends='mine5'/></schema>"),
            ("reject", "<schema><import src='lib6.xml'/></schema>"),
            # a rule of the code the model does not cover (<import src> is outside the model): explored, not judged
            (None, "<schema><import src='lib3.xml#part'/></schema>"),
            (None, "<schema><import src='lib3.xml#'/></schema>"),
            ("ok", "<schema><import src='lib7.xml'/><section type='t7' name='s'/></schema>"),
        ]
        for want, xml in docs:
            w("top.xml", xml)
            try:
                ZConfig.loadSchema(os.path.join(root, "top.xml"))
                got = "ok"
            except ZConfig.SchemaError:
                got = "reject"
            except Exception as e:
                got = "exc:" + type(e).__name__
            ctx.evaluations += 1
            ctx.nontriv(("import-src", xml))
            ctx.count("import-src:%s:%s" % (want, got))
            if want is not None and got != want:
                ctx.violate("rules across <import src> (unique type names, nesting): %s is %s (expected %s)" % (xml, got, want),
                            dict({"schema_xml": xml}, **{f: open(os.path.join(root, f)).read()
                                                         for f in sorted(os.listdir(root)) if f.startswith("lib") and f in xml}),
                            signature="C10:import-src-type-names:%s->%s" % (want, got))
    finally:
        shutil.rmtree(root, ignore_errors=True)


def _extends_rules(ctx):
    """<schema extends='a b ...'>: key type and datatype are inherited from the bases when the extending schema states none and
    the bases agree (the rule of the code: conflicting bases are refused); descriptions of bases do not count as the
    extending schema's own.  Real loader vs the Lean model (bases handed over as documents); the verdict expected is given
    for the record and judged where the property lists the rule (at most one <description>)"""
    import os
    import shutil
    import tempfile
    root = tempfile.mkdtemp(prefix="zcv-c10x-", dir="/dev/shm" if os.path.isdir("/dev/shm") else None)
    try:
        files = {
            "ki.xml": "<schema keytype='identifier'><key name='Ki'/></schema>",
            "ki2.xml": "<schema keytype='identifier'><key name='Ki2'/></schema>",
            "kb.xml": "<schema keytype='basic-key'><key name='kb'/></schema>",
            "kn.xml": "<schema><key name='kn'/></schema>",                          # states none: basic-key
            "kc.xml": "<schema extends='ki.xml'><key name='Kc'/></schema>",         # inherits identifier
            "dw.xml": "<schema datatype='zcvdt.wrap'><key name='dw'/></schema>",
            "dw2.xml": "<schema prefix='zcvdt' datatype='.wrap'><key name='dw2'/></schema>",
            "dn.xml": "<schema datatype='null'><key name='dn'/></schema>",
            "dc.xml": "<schema extends='dw.xml'><key name='dc'/></schema>",
            "da.xml": "<schema><description>from a</description><key name='da'/></schema>",
            "db.xml": "<schema><description>from b</description><example>e</example><key name='db'/></schema>",
            "dd.xml": "<schema><description>one</description><description>two</description></schema>",
            "de.xml": "<schema extends='da.xml'><description>own of e</description><key name='de'/></schema>",
        }
        for n, t in files.items():
            with open(os.path.join(root, n), "w") as f:
                f.write(t)
        own = "<key name='Own9'/>"
        docs = [
            # conflicting key types
            ("extends-conflicting-keytypes", "reject", None, "<schema extends='ki.xml kb.xml'>%s</schema>"),
            ("extends-conflicting-keytypes", "reject", None, "<schema extends='kb.xml ki.xml'>%s</schema>"),
            ("extends-conflicting-keytypes", "reject", None, "<schema extends='ki.xml kn.xml'>%s</schema>"),
            ("extends-conflicting-keytypes", "reject", None, "<schema extends='ki.xml ki2.xml kb.xml'>%s</schema>"),
            ("extends-conflicting-keytypes", "reject", None, "<schema extends='kc.xml kn.xml'>%s</schema>"),
            ("extends-conflicting-keytypes", "reject", None, "<schema extends='ki.xml kb.xml' datatype='null'>%s</schema>"),
            ("extends-keytypes-control", "ok", None, "<schema extends='ki.xml kb.xml' keytype='identifier'>%s</schema>"),
            ("extends-keytypes-control", "ok", None, "<schema extends='ki.xml kb.xml' keytype='basic-key'>%s</schema>"),
            ("extends-keytypes-control", "ok", None, "<schema extends='ki.xml ki2.xml'>%s</schema>"),
            ("extends-keytypes-control", "ok", None, "<schema extends='kb.xml kn.xml'>%s</schema>"),
            ("extends-keytypes-control", "ok", None, "<schema extends='kc.xml ki2.xml'>%s</schema>"),
            ("extends-keytypes-control", "ok", None, "<schema extends='ki.xml'>%s</schema>"),
            # conflicting datatypes
            ("extends-conflicting-datatypes", "reject", None, "<schema extends='dw.xml dn.xml'>%s</schema>"),
            ("extends-conflicting-datatypes", "reject", None, "<schema extends='kn.xml dw.xml'>%s</schema>"),
            ("extends-conflicting-datatypes", "reject", None, "<schema extends='dw.xml dw2.xml dn.xml'>%s</schema>"),
            ("extends-conflicting-datatypes", "reject", None, "<schema extends='dc.xml dn.xml'>%s</schema>"),
            ("extends-conflicting-datatypes", "reject", None, "<schema extends='dw.xml dn.xml' keytype='basic-key'>%s</schema>"),
            ("extends-conflicting-datatypes", "reject", None, "<schema extends='ki.xml dw.xml' keytype='identifier'>%s</schema>"),
            ("extends-datatypes-control", "ok", None, "<schema extends='dw.xml dn.xml' datatype='null'>%s</schema>"),
            ("extends-datatypes-control", "ok", None, "<schema extends='dw.xml dn.xml' datatype='zcvdt.wrap'>%s</schema>"),
            ("extends-datatypes-control", "ok", None, "<schema extends='dw.xml dw2.xml'>%s</schema>"),
            ("extends-datatypes-control", "ok", None, "<schema extends='dc.xml dw2.xml'>%s</schema>"),
            ("extends-datatypes-control", "ok", None, "<schema extends='dn.xml kn.xml'>%s</schema>"),
            ("extends-datatypes-control", "ok", None, "<schema extends='ki.xml dw.xml' keytype='identifier' datatype='null'>%s</schema>"),
            # a base is a whole document: no fragment identifier
            ("extends-fragment", "reject", None, "<schema extends='ki.xml#part'>%s</schema>"),
            ("extends-fragment", "reject", None, "<schema extends='ki.xml ki2.xml#x'>%s</schema>"),
            ("extends-fragment-control", "ok", None, "<schema extends='ki.xml#'>%s</schema>"),
            # descriptions of bases
            ("extends-descriptions-control", "ok", "ok", "<schema extends='da.xml'>%s</schema>"),
            ("extends-descriptions-control", "ok", "ok", "<schema extends='da.xml db.xml'>%s</schema>"),
            ("extends-descriptions-control", "ok", "ok", "<schema extends='da.xml db.xml'><description>own</description>%s</schema>"),
            ("extends-descriptions-control", "ok", "ok", "<schema extends='da.xml'><description>own</description><example>own</example>%s</schema>"),
            # an <example> of a base stays the example of the one schema object (unlike descriptions): a second one is refused,
            # as it is in the written-out document; a rule of the code, left to the model
            ("extends-example-of-base", "reject", None, "<schema extends='da.xml db.xml'><description>own</description><example>own</example>%s</schema>"),
            ("extends-descriptions-control", "ok", "ok", "<schema extends='de.xml db.xml'><description>own</description>%s</schema>"),
            ("extends-descriptions-control", "ok", "ok", "<schema extends='de.xml'>%s</schema>"),
            ("extends-two-descriptions", "reject", "reject", "<schema extends='da.xml db.xml'><description>own</description><description>again</description>%s</schema>"),
            ("extends-two-descriptions", "reject", "reject", "<schema extends='dd.xml'>%s</schema>"),
            ("extends-two-descriptions", "reject", "reject", "<schema extends='da.xml dd.xml'>%s</schema>"),
            ("extends-two-examples", "reject", "reject", "<schema extends='db.xml'><example>a</example><example>b</example>%s</schema>"),
        ]
        url = "file://" + os.path.join(root, "top.xml")
        texts = [d[3] % own for d in docs]
        res = elabrun.compare(ctx, "c10-extends", texts, base_dir=root, url=url)
        for (rule, expected, want, _), x, rm in zip(docs, texts, res):
            ctx.evaluations += 1
            ctx.nontriv(("extends", x))
            got = "?" if rm is None else "ok" if rm[0][0] == "ok" else "reject" if rm[0][1] in ("schema", "schema-resource") else "exc"
            ctx.count("rule:%s:%s" % (rule, got))
            bases = {n: files[n] for n in files if n in x}
            for n in list(bases):
                bases.update({m: files[m] for m in files if m in files[n]})
            if want is not None and got != want:
                ctx.violate("rule '%s': %s is %s (expected %s)" % (rule, x, got, want), dict({"schema_xml": x, "rule": rule}, **bases),
                            signature="C10:%s:%s->%s" % (rule, want, got))
            elif got != expected:
                # a rule of the code, not of the property text: recorded; the model comparison above decides
                ctx.count("extends-unexpected:%s:%s" % (rule, got))
    finally:
        shutil.rmtree(root, ignore_errors=True)


def run(ctx):
    obligations, discharged, names = core.standard_prelude(ctx, ["ZCV.Props.C10"])
    rng = ctx.rng
    n = 400 if ctx.thorough() else 60
    all_docs = []
    cases = nest_cases("schema")
    # the whole table of character-data placements, and every kind of derived duplicate, once in a document that holds
    # nothing else (first, so that a replay shows the small document) ...
    minimal = F.SchemaD()
    for rule, x, want, case in nesting_docs(rng, F.render_xml(minimal), cases):
        all_docs.append(x)
        judge(ctx, rule, x, want, {"case": case})
    for rule, x in derived_duplicates(rng, minimal, True):
        all_docs.append(x)
        judge(ctx, rule, x, "reject")
    for rule, x, want in rule_site_docs(rng, minimal):
        all_docs.append(x)
        judge(ctx, rule, x, want)
    dcases = default_cases()
    for rule, x, want, case in default_docs(rng, minimal, dcases):
        all_docs.append(x)
        judge(ctx, rule, x, want, {"case": case})
    # two children of one container holding one attribute name: every ordered pair of the ways to take a name, in every
    # kind of container; references to types (extends= / implements= / type=) by well-formed and ill-formed names
    acases = attribute_cases()
    for rule, x, want, case in attribute_collision_docs(rng, minimal, acases):
        all_docs.append(x)
        judge(ctx, rule, x, want, {"case": case})
    for rule, x, want, case in type_reference_docs(rng, minimal, REF_NAMES):
        all_docs.append(x)
        judge(ctx, rule, x, want, {"case": case})
    # ... then inside the documents of the family
    for i in range(n):
        sd = cfggen.gen_schema(rng, handlers=rng.random() < 0.3)
        xml = F.render_xml(sd)
        all_docs.append(xml)
        r = load_xml(xml)
        ctx.evaluations += 1
        ctx.nontriv(xml)
        if r[0] != "ok":
            ctx.violate("a rule-satisfying schema document is rejected: %s" % (r[1:],), {"schema_xml": xml}, signature="C10:valid-rejected:" + r[1])
            continue
        if enc(F.elaborate(sd)) != enc(F.digest(r[1])):
            ctx.disagree("schema-digest", {"schema_xml": xml}, "digest", "expected elaboration")
        es = edits(rng, sd) + derived_duplicates(rng, sd, ctx.thorough()) + attribute_collision_edits(rng, sd)
        for rule, doc in es:
            x = doc if isinstance(doc, str) else F.render_xml(doc)
            all_docs.append(x)
            r2 = load_xml(x)
            ctx.evaluations += 1
            ctx.nontriv(x)
            ctx.count("rule:%s:%s" % (rule, r2[0]))
            if r2[0] == "schema-error":
                continue
            if r2[0] == "other-cfg-error" and rule == "default-key-collision":
                continue
            if r2[0] == "ok":
                # is the violation at least reported later, while a configuration is read?  (that is exactly what C10 forbids)
                ctx.violate("rule '%s' violated but the schema document is accepted" % rule, {"schema_xml": x, "rule": rule},
                            signature="C10:accepted:" + rule)
            else:
                ctx.violate("rule '%s' violated: the loader raised %s instead of SchemaError" % (rule, r2[1]), {"schema_xml": x, "rule": rule},
                            signature="C10:%s:%s" % (r2[0], rule))
        # character-data elements in this document: some cases of the table below, at random
        for rule, x, want, case in nesting_docs(rng, xml, rng.sample(cases, len(cases) if (ctx.thorough() and i % 20 == 0) else 8)):
            all_docs.append(x)
            judge(ctx, rule, x, want, {"case": case})
        # the rule sites outside the edit family (document element, prefix, example?, <import> attributes, multikey default)
        sites = rule_site_docs(rng, sd)
        for rule, x, want in (sites if (ctx.thorough() and i % 10 == 0) else rng.sample(sites, 10)):
            all_docs.append(x)
            judge(ctx, rule, x, want)
        # every spelling of a default (attribute, <default> elements, keyed or not) on every kind of key: some cases of the table
        full = ctx.thorough() and i % 20 == 0
        for rule, x, want, case in default_docs(rng, sd, dcases if full else rng.sample(dcases, 6),
                                                DEFAULT_CONTAINERS if full else (rng.choice(DEFAULT_CONTAINERS),)):
            all_docs.append(x)
            judge(ctx, rule, x, want, {"case": case})
        # one attribute name taken twice, and references to types by ill-formed names: some cases of the two tables
        for rule, x, want, case in attribute_collision_docs(rng, sd, acases if full else rng.sample(acases, 5),
                                                            ATTR_CONTAINERS if full else (rng.choice(ATTR_CONTAINERS),)):
            all_docs.append(x)
            judge(ctx, rule, x, want, {"case": case})
        for rule, x, want, case in type_reference_docs(rng, sd, REF_NAMES if full else rng.sample(REF_NAMES, 1),
                                                       REF_SITES if full else rng.sample(REF_SITES, 2), None if full else 3):
            all_docs.append(x)
            judge(ctx, rule, x, want, {"case": case})
    _import_src_rules(ctx)
    _extends_rules(ctx)
    pk = pkggen.PkgRoot()
    try:
        for rule, x, want, extra in component_docs(rng, pk):
            all_docs.append(x)
            judge(ctx, rule, x, want, extra)
        # the Lean model of the schema loader (ZCV/Model/Elab.lean) on every one of these documents: same accept/reject,
        # same exception class, the model's reason contained in the real message, equal schema object when accepted
        elabrun.compare(ctx, "c10", all_docs)
    finally:
        pk.close()
    ctx.sample({"rules": sorted({e[0] for e in edits(rng, cfggen.gen_schema(rng))})})
    return core.finish(ctx, obligations, discharged, names, RULE,
                       "lake build ZCV.Props.C10 && lake env lean ZCV/Audit/C10.lean",
                       ["XML text -> element tree is expat's job and is not modelled", "datatype names are kept resolvable except in the datatype-name rule"])
