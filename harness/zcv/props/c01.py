"""C01 — a configuration is accepted if and only if it conforms to the schema"""
from .. import cfgrun, cfgstream, core

RULE = ("generated schema family (depth<=3, key/multikey/'+' key/'+' multikey x default x required, section/multisection x "
        "fixed/'*'/'+', abstract types with 0..3 implementers, derived types, key types basic-key/identifier/"
        "ipaddr-or-hostname); texts derived from the schema with 0..3 faults from a 22-entry catalogue, random layout; "
        "non-trivial = at least one section or one fault; distinct by (schema, text)")


def obs(out):
    if out[0] == "ok":
        return "accept"
    if out[0] == "cfg":
        return "reject"
    return out[0] + ":" + str(out[1])


def run(ctx):
    obligations, discharged, names = core.standard_prelude(ctx, ["ZCV.Props.C01"])
    n_s, n_t = (1500, 60) if ctx.thorough() else (120, 30)
    cases = cfgstream.gen_cases(ctx, n_s, n_t)
    cfgstream.evaluate(ctx, cases, with_spec=True)
    bad = []
    for c in cases:
        o = obs(c.out)
        ctx.count("impl:" + o)
        for f in c.faults:
            ctx.count("fault:" + f.split("@")[0])
        if c.faults or any(l.lstrip().startswith("<") for l in c.lines):
            ctx.nontriv((id(c.sd), tuple(c.lines)))
        # ORACLE: the declarative spec (ZCV/Spec/Conforms.lean: `conforms`) evaluated on the tree of the text
        if c.spec is not None and not any("%import" in l for l in c.lines):
            sp = c.spec
            exp = "reject" if sp[0] in ("parse-reject", "reject") else "accept" if sp[0] == "accept" else None
            if exp is not None and o in ("accept", "reject") and o != exp:
                ctx.violate("the loader %ss a text that %s the schema (Conforms)" % (o, "conforms to" if exp == "accept" else "does not conform to"),
                            dict(c.replay(), impl=c.out, spec=str(sp[0])), signature="C01:%s-but-spec-%s" % (o, exp))
        if c.model is None:
            continue
        m = obs(c.model)
        if m.startswith("bad"):
            ctx.disagree("load", c.replay(), c.out, c.model)
            continue
        if o != m:
            # the model is the executable statement of "conforms": a text the model accepts conforms, one it rejects does not
            if o.startswith("internal"):
                # "Every non-conforming text is rejected with a ZConfig configuration error": anything else that escapes
                # (also C07's observable) is not such a rejection
                if m == "reject":
                    ctx.violate("a non-conforming text is not rejected with a configuration error: the load ends with %s" % (c.out[1],),
                                dict(c.replay(), impl=c.out, model=c.model[:6]), signature="C01:internal-instead-of-rejection:%s" % c.out[1])
                continue
            bad.append(c)
            ctx.disagree("load", c.replay(), c.out, c.model[:6])
    _imported_types(ctx)
    for c in bad[:3]:
        small = cfgstream.shrink_lines(ctx, c, lambda cs: [obs(x.out) != obs(x.model) and not obs(x.out).startswith("internal") for x in cs])
        c.lines = small
        cfgstream.evaluate(ctx, [c])
    for c in bad:
        o, m = obs(c.out), obs(c.model)
        if not any(v.replay.get("lines") == c.lines for v in ctx.violations):
            ctx.violate("the loader %ss a text that the model of the loader %ss" % (o, m),
                        dict(c.replay(), impl=c.out, model=c.model[:6]), signature="C01:%s-but-%s" % (o, m))
    if cases:
        ctx.sample({"lines": cases[0].lines, "faults": cases[0].faults, "impl": obs(cases[0].out)})
        ctx.sample({"schema_xml": cases[-1].replay()["schema_xml"], "lines": cases[-1].lines, "faults": cases[-1].faults,
                    "impl": obs(cases[-1].out)})
    return core.finish(ctx, obligations, discharged, names, RULE,
                       "lake build ZCV.Props.C01 && lake env lean ZCV/Audit/C01.lean",
                       ["datatypes are pure functions failing with ValueError", "schema object = expected elaboration (digest checked per schema)"])


def _imported_types(ctx):
    """texts whose section types come from a component named by %import: a conforming text is accepted — on the first load
    and on every later load against the same schema object — and a non-conforming one rejected, by fresh loaders"""
    import io
    import ZConfig
    from .. import pkggen, schemafam as F
    pk = pkggen.PkgRoot()
    try:
        comp = pk.add_component([F.TypeD("impa", [F.KeyD("k", "integer")], implements="slotab"), F.TypeD("impb", [])])
        schema = ZConfig.loadSchemaFile(io.StringIO(
            "<schema><abstracttype name='slotab'/><multisection type='slotab' name='*' attribute='items'/><key name='plain'/></schema>"))
        texts = [("%%import %s\n<impa>\nk 3\n</impa>\n<impa x/>\n" % comp, "accept"),
                 ("%%import %s\nplain v\n<impa/>\n" % comp, "accept"),
                 ("%%import %s\n<impb/>\n" % comp, "reject"),          # known type, but it does not implement the slot's type
                 ("<impa/>\n%%import %s\n" % comp, "reject"),          # used before the %import line
                 ("%%import %s\n<impa>\nk notint\n</impa>\n" % comp, "reject"),
                 ("%%import %s\n<impa/>\n<impa/>\n" % comp, "accept")]
        for rnd in range(3):
            for t, want in texts:
                try:
                    ZConfig.loadConfigFile(schema, io.StringIO(t), cfgstream.URL)
                    got = "accept"
                except ZConfig.ConfigurationError:
                    got = "reject"
                except Exception as e:
                    got = "exc:" + type(e).__name__
                ctx.evaluations += 1
                ctx.nontriv(("imported-types", rnd, t))
                if got != want:
                    ctx.violate("load round %d: the loader %ss %r, which %s" % (rnd + 1, got, t, "conforms" if want == "accept" else "does not conform"),
                                {"schema": "abstract slot 'slotab', component %s defines impa (implements slotab) and impb" % comp,
                                 "text": t, "round": rnd + 1, "impl": got, "expected": want}, signature="C01:imported-types:%s-expected-%s" % (got, want))
    finally:
        pk.close()
