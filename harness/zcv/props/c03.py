"""C03 — configuration text is read by the documented line grammar and nothing else"""
import io
import itertools

from .. import core, util
from ..sexp import Atom

ALPHA = ["<", ">", "/", "%", "#", "(", ")", "$", "a", "1", "-", " ", "\t", "\u2003", "\u00e9"]
assert len(set(ALPHA)) == 15        # written with escapes: an editor once turned the Unicode blank into a second U+0020
# the alphabet of the text between the brackets of a section header / closer: ALPHA plus a capital (headers are lower-cased)
HDR_ALPHA = ALPHA + ["A"]
RULE = ("single lines enumerated exhaustively over the 15-class alphabet up to the tier's length, each parsed by the real "
        "ZConfigParser with a recording context and classified by the model and by the documented grammar; all texts of up "
        "to 3/4 lines over one representative per line shape through the recording context and schemaless.loadConfigFile; "
        "random texts up to 40 lines and nesting depth 6 (closers and openers also spelled with blanks inside the brackets); "
        "bracket spellings: every text w of up to 3 (thorough 4) characters over the alphabet + 'A' as closer '</w>' behind open "
        "sections, as opener '<w>' before a closer and as '<w/>', real parser vs model; "
        "section objects: texts ending inside 1-3 (thorough 4) open sections whose own keys equal / differ from the top level's and "
        "each other's (with their closed controls), the texts of up to 2 lines and the random texts, parsed with recording contexts "
        "whose section objects are lists / dicts of their own keys (== by value), all equal, or one shared object, and by "
        "schemaless.loadConfigFile (tree compared), vs model and vs the construction; "
        "non-trivial = not blank/comment only; distinct by text")

SHAPES = ["", "# c", "<a>", "<a n>", "<A  N >", "<a/>", "<a n/>", "<a/ >", "</a>", "</A >", "</b>", "<b>", "k v", "k", "k  v  w ",
          "K V", "k $$v", "%define x y", "%define X", "%import p.q", "%include f", "%bogus x", "%define", "%", "<", "<a", "a>",
          "</", "<>", "</>", "<a b c>", "(k) v", "k(x) v", "<a (b)>", "\x0c", "k\x0bv", "é ü", "<é>", "</é>", "$x y", "k $x", "k ${x",
          "<Item Stra\u00dfe>", "</ITEM>", "<K\u00dcCHE \u00c9cole/>", "<\u0414\u043e\u043c \u017f>",
          "% define x y", "%\tinclude f", "%Define x y", "k v\x0cw", "# c\x0c k v", "k a\u2028b", "k a\x85b"]


class RecSection:
    """a section object of the recording context: an opaque object (compared by identity), as the loader's matchers are"""
    def __init__(self, log):
        self.log = log

    def addValue(self, key, value, position):
        self.log.append(["value", key, value, position[0]])


class ListSection(list):
    """a section object that IS the list of its own (key, value) pairs: two sections are == whenever they hold the same pairs"""
    def __init__(self, log):
        list.__init__(self)
        self.log = log

    def addValue(self, key, value, position):
        self.append((key, value))
        self.log.append(["value", key, value, position[0]])


class DictSection(dict):
    """a section object that IS the mapping key -> values of its own keys (what schemaless.Section is): == by contents, whatever the
    type, the name and the subsections are"""
    def __init__(self, log):
        dict.__init__(self)
        self.log = log

    def addValue(self, key, value, position):
        self.setdefault(key, []).append(value)
        self.log.append(["value", key, value, position[0]])


class EqualSection(RecSection):
    """section objects that all compare equal (a context may hand out anything: the parser only passes them back)"""
    def __eq__(self, other):
        return isinstance(other, EqualSection)

    def __ne__(self, other):
        return not isinstance(other, EqualSection)

    __hash__ = None


# what a context may hand to the parser as "the section": the parser's contract treats it as opaque (it only passes it back to
# the context and calls addValue), so which sections are open must never be read off these objects
SECTION_KINDS = {"fresh": RecSection, "list": ListSection, "dict": DictSection, "equal": EqualSection, "shared": RecSection}


class RecContext:
    def __init__(self, kind="fresh"):
        self.log = []
        self.kind = kind

    def top(self):
        return SECTION_KINDS[self.kind](self.log)

    def startSection(self, section, type_, name):
        self.log.append(["start", type_, name])
        if self.kind == "shared":
            return section              # one object stands for every section (a flat recorder)
        return SECTION_KINDS[self.kind](self.log)

    def endSection(self, section, type_, name, newsect):
        self.log.append(["stop", type_, name])

    def importSchemaComponent(self, pkg):
        self.log.append(["imp", pkg])

    def includeConfiguration(self, section, url, defines):
        raise NotImplementedError("includes are not supported")


def real_rec(lines, url=None, kind="fresh"):
    import ZConfig
    from ZConfig.cfgparser import ZConfigParser
    from ZConfig.schemaless import Resource
    ctx = RecContext(kind)
    p = ZConfigParser(Resource(io.StringIO("".join(l + "\n" for l in lines)), url), ctx)
    try:
        p.parse(ctx.top())
    except ZConfig.ConfigurationError as e:
        from ..cfgrun import classify_exc
        return classify_exc(e)[:3]
    except Exception as e:
        return ["internal", type(e).__name__]
    return ["ok", ctx.log]


def sec_struct(s):
    return {"type": s.type, "name": s.name or None, "data": {k: list(v) for k, v in s.items()},
            "sections": [sec_struct(x) for x in s.sections], "imports": list(getattr(s, "imports", ()))}


def model_struct(m, imports=None):
    # (sec "type" name ((k (v…))…) (subs…))
    return {"type": m[1], "name": None if m[2] == "none" else m[2], "data": {k: list(vs) for k, vs in m[3]},
            "sections": [model_struct(x) for x in m[4]], "imports": list(imports) if imports is not None else []}


def real_schemaless(lines, url=None):
    """schemaless.loadConfigFile: the nested mapping of an accepted text, else the outcome class"""
    import ZConfig
    from ZConfig import schemaless
    try:
        top = schemaless.loadConfigFile(io.StringIO("".join(l + "\n" for l in lines)), url)
    except ZConfig.ConfigurationError as e:
        from ..cfgrun import classify_exc
        return classify_exc(e)[:3]
    except Exception as e:
        return ["internal", type(e).__name__]
    return ["ok", sec_struct(top)]


def real_rec_path(lines):
    """the same text written to a file and read the way loadConfig reads a path or URL (BaseLoader.openResource): the parser must
    see the same lines (a line ends at '\\n' only: form feeds, vertical tabs, NEL, U+2028 ... inside a line stay inside it)"""
    import os
    import tempfile
    import ZConfig
    from ZConfig.cfgparser import ZConfigParser
    from ZConfig.loader import ConfigLoader
    ctx = RecContext()
    fd, path = tempfile.mkstemp(prefix="zcv-c03-", suffix=".conf", dir="/dev/shm" if os.path.isdir("/dev/shm") else None)
    try:
        with os.fdopen(fd, "w", encoding="utf-8", newline="") as f:
            f.write("".join(l + "\n" for l in lines))
        sch = ZConfig.loadSchemaFile(io.StringIO("<schema/>"))
        try:
            ld = ConfigLoader(sch)
            with ld.openResource(ld.normalizeURL(path)) as r:
                ZConfigParser(r, ctx).parse(RecSection(ctx.log))
        except ZConfig.ConfigurationError as e:
            from ..cfgrun import classify_exc
            return classify_exc(e)[:3]
        except Exception as e:
            return ["internal", type(e).__name__]
        return ["ok", ctx.log]
    finally:
        os.unlink(path)


def canon_rec(a):
    if a[0] == "ok":
        evs = []
        for e in a[1]:
            if e[0] in ("start", "stop"):
                evs.append([str(e[0]), e[1], None if e[2] == "none" else e[2]])
            elif e[0] == "value":
                evs.append(["value", e[1], e[2], int(e[3])])
            else:
                evs.append(["imp", e[1]])
        return ["ok", evs]
    if a[0] == "cfg":
        return ["cfg", str(a[1]), None if a[2] == "none" else int(a[2])]
    return [str(a[0]), str(a[1])]


def shape_of_events(line, r):
    """the classification the real parser's behaviour on a one-line text reveals (bad = syntax error at line 1)"""
    if r[0] == "ok":
        evs = r[1]
        if not evs:
            return "skip-or-define"
        e = evs[0]
        if e[0] == "start":
            return ["open", e[1], e[2], len(evs) == 2]
        if e[0] == "value":
            return ["kv", e[1], e[2]]
        if e[0] == "imp":
            return ["import", e[1]]
    return r


PADS = [" ", "\t", "  ", "\u2003", "\x0c", "\u00a0"]


def bracket_spelling_texts(maxw):
    """every text w of up to maxw characters over HDR_ALPHA written where a section type is expected: as the closer '</w>' of
    open sections (one open, one open with a key and a name, two nested), as the opener '<w>' followed by a closer, and as the
    empty form '<w/>'.  What is between the brackets decides which section is opened or closed, and a closer's fate depends
    on the open-section stack, which no one-line text shows."""
    out = []
    for w in util.enum_strings(HDR_ALPHA, maxw):
        out.append(["<a>", "</" + w + ">"])
        out.append(["<A n>", "k v", "  </" + w + ">  "])
        out.append(["<b>", "<a>", "</" + w + ">", "</b>"])
        out.append(["<a>", "<b/>", "</" + w + ">", "</" + w + ">"])
        out.append(["<" + w + ">", "</a>"])
        out.append(["<" + w + ">", "k", "</A >"])
        out.append(["<" + w + "/>"])
    return out


def random_text(rng):
    depth = 0
    stack = []
    lines = []
    for _ in range(rng.randint(1, 40)):
        k = rng.random()
        ind = rng.choice(["", "  ", "\t", " "])
        if k < 0.2 and depth < 6:
            t = rng.choice(["a", "B", "sect-1", "é"])
            n = rng.choice(["", " n", " N2", "  x.y "])
            if rng.random() < 0.25:
                lines.append(ind + "<" + t + n + rng.choice(["/>", " />"]))
            else:
                lines.append(ind + "<" + (rng.choice(PADS) if rng.random() < 0.04 else "") + t + n + ">")
                stack.append(t)
                depth += 1
        elif k < 0.35 and stack:
            t = stack.pop()
            depth -= 1
            # the closer as written: mostly '</t>' or '</t >', sometimes another type, another case, blanks BEFORE the type
            w = t if rng.random() < 0.9 else t + "x"
            if rng.random() < 0.2:
                w = w.upper() if len(w.upper()) == len(w) else w
            lines.append(ind + "</" + (rng.choice(PADS) if rng.random() < 0.06 else "") + w + rng.choice(["", " ", "", "\t", "\u2003 "]) + ">")
        elif k < 0.45:
            lines.append(rng.choice(["", "#", "# <a>", "   ", "\x0c"]))
        elif k < 0.55:
            lines.append(ind + rng.choice(["%define n v", "%define N", "%import p", "%import a.b", "%bogus", "%define n $n"]))
        elif k < 0.6:
            lines.append(ind + rng.choice(SHAPES))
        else:
            lines.append(ind + rng.choice(["k", "key-1", "K.x", "é"]) + rng.choice(["", " v", "  v w  ", " $$x", " $n", " <x>", " (p)"]))
    if rng.random() < 0.7:
        while stack:
            lines.append("</" + stack.pop() + ">")
    return lines


# own contents of a section (or of the top level) in the texts below; "k  v " is the pair of "k v" spelled differently, the
# closed subsections and the %import add nothing to the section's own keys
CONTENTS = [[], ["k v"], ["k v", "k w"], ["k  v "], ["<c/>"], ["<a>", "k v", "</a>"], ["%import p"]]
CONTENTS_DEEP = [[], ["k v"], ["<a>", "</a>"]]
OPENERS = [["<a>", "<b>", "<c>", "<d>"], ["<a>", "<a n>", "<A  N >", "<a>"], ["<s n>", "<S>", "<b x>", "<s n>"]]


def _closer_of(opener):
    return "</" + opener[1:-1].split()[0] + ">"


def open_section_texts(thorough=False):
    """texts that end with d - c of d nested sections still open (c = d: all closed, the accepted controls), for every choice of
    the own contents of the top level and of each section from a small pool, so that the open sections hold the same keys and
    values as the top level (most simply none at all), the same as each other, or different ones; lines after a closer too.
    Yields (lines, sections left open, the innermost open section's own keys equal the top level's)."""
    out = []
    for d in range(1, 5 if thorough else 4):
        pool = CONTENTS if (d <= 2 or (thorough and d == 3)) else CONTENTS_DEEP
        for ops in OPENERS:
            for conts in itertools.product(pool, repeat=d + 1):
                for c in range(d + 1):
                    for after in ([], ["k v"]) if c else ([],):
                        lines = list(conts[0])
                        for lvl in range(d):
                            lines += [ops[lvl]] + list(conts[lvl + 1])
                        for lvl in range(d - 1, d - 1 - c, -1):
                            lines.append(_closer_of(ops[lvl]))
                        lines += after
                        own = [[l for l in x if l[:1] == "k"] for x in conts]
                        if c:
                            own[d - c] = own[d - c] + after
                        same = [" ".join(l.split()) for l in own[d - c]] == [" ".join(l.split()) for l in own[0]]
                        out.append((lines, d - c, bool(d - c) and same))
    return out


def compare_contexts(ctx, tagged, stream):
    """which sections are open is the parser's own business (its open-section stack): the verdict and the events must be the same
    whatever objects the context hands out as sections - opaque ones, lists or dicts of the section's own keys (== by value, as
    schemaless.Section), objects that are all equal, one shared object - and schemaless.loadConfigFile must accept exactly the
    nested texts and build their tree.  Oracle: the model of the grammar (parse-rec / schemaless; C03_accept_iff_nested), and for
    the constructed texts the construction itself (an unclosed section is a syntax error, a fully closed text is accepted)."""
    texts = [t for t, _, _ in tagged]
    recs = core.driver_batch([[Atom("parse-rec"), None, t] for t in texts]) if ctx.driver_ok else None
    sls = core.driver_batch([[Atom("schemaless"), None, t] for t in texts]) if ctx.driver_ok else None
    kinds = [k for k in SECTION_KINDS if k != "fresh"]
    seen = set()

    def violate(what, replay, signature):
        ctx.count(stream + ":violations")
        if signature not in seen:           # the first (smallest) text of each class is the replay
            seen.add(signature)
            ctx.violate(what, replay, signature=signature)

    for i, (t, nopen, same) in enumerate(tagged):
        ctx.nontriv(tuple(t))
        if nopen:
            ctx.count(stream + ":left-open")
            if same:
                ctx.count(stream + ":left-open-with-the-keys-of-the-top-level")
        outcomes = [(k, real_rec(t, None, k)) for k in kinds] + [("schemaless", real_schemaless(t))]
        for kind, r in outcomes:
            ctx.evaluations += 1
            ctx.count("%s:%s:%s" % (stream, kind, r[0] if r[0] != "cfg" else r[1]))
            if nopen is not None and (r[0] == "ok") != (nopen == 0) and r[0] in ("ok", "cfg"):
                how = kind if kind == "schemaless" else "a recording context with %r section objects" % kind
                violate("text %r %s but the parser, driven with %s, gives %r" %
                        (t, "leaves %d section(s) open" % nopen if nopen else "closes every section it opens", how, r[:3] if r[0] != "ok" else "accepted"),
                        {"lines": t, "context": kind, "sections_left_open": nopen, "impl": r, "expected": "ConfigurationSyntaxError" if nopen else "accepted"},
                        "C03:%s:%s:%s" % (stream, kind, "unclosed-accepted" if nopen else "nested-rejected"))
                continue
            if not ctx.driver_ok:
                continue
            if kind == "schemaless":
                a = sls[i]
                m = ["ok", model_struct(a[1], a[2])] if a[0] == "ok" else canon_rec(a)
            else:
                m = canon_rec(recs[i])
            if m != r:
                ctx.disagree(stream + ":" + kind, t, r, m)
                if (m[0] == "ok") != (r[0] == "ok") or r[0] == "ok":
                    violate("text %r: the parser driven with %s gives %r, the grammar gives %r" % (t, kind, r, m),
                            {"lines": t, "context": kind, "impl": r, "model": m}, "C03:%s:%s:%s-vs-%s" % (stream, kind, r[0], m[0]))


def compare_texts(ctx, texts, stream):
    """the real parser with a recording context against the model of the grammar (= the documented grammar: C03_classify_eq_spec,
    C03_accept_iff_nested) on whole texts: accepted or not, and the events of an accepted text"""
    if ctx.driver_ok:
        recs = core.driver_batch([[Atom("parse-rec"), "file:///t.conf", t] for t in texts])
    for i, t in enumerate(texts):
        r = real_rec(t, "file:///t.conf")
        ctx.evaluations += 1
        ctx.nontriv(tuple(t))
        ctx.count(stream + ":" + (r[0] if r[0] != "cfg" else r[1]))
        if ctx.driver_ok:
            mrec = canon_rec(recs[i])
            if mrec != r:
                ctx.disagree(stream, t, r, mrec)
                # nesting oracle: a text whose shapes are properly nested must not be a syntax error and vice versa is
                # decided by the model (validated line by line above); report the concrete text
                if (mrec[0] == "ok") != (r[0] == "ok") or (r[0] == "ok" and mrec[1] != r[1]):
                    ctx.violate("text %r: parser gives %r, the grammar gives %r" % (t, r, mrec), {"lines": t, "impl": r, "model": mrec},
                                signature="C03:%s:%s-vs-%s" % (stream, r[0], mrec[0]))


def _code_stream(ctx, singles):
    """the real ZConfigParser.handle_key_value / handle_directive vs the GENERATED code of their pure prefixes (translation of
    the statements before the first one that touches the context / the section / self.replace; harness/zcv/pytrans.py, run by
    zcdrv2).  The real methods run on a parser whose replace() and handle_define/import/include only record what they are
    handed, and a section object that records addValue: that is exactly the state at which the prefix ends."""
    import ZConfig
    from ZConfig.cfgparser import ZConfigParser
    if not core.ensure_driver2(ctx.tie):
        ctx.notes.append("zcdrv2 (generated code) could not be built: the code-translation tie is broken; other streams unaffected")
        ctx.cov["generated_code_stream"] = "driver unavailable"
        return

    class P(ZConfigParser):
        __slots__ = ("got",)

        def __init__(self):
            self.url, self.lineno, self.defines, self.got = "u", 7, {}, None

        def replace(self, text):
            return text

        def handle_define(self, section, rest):
            self.got = ("define", rest)

        def handle_import(self, section, rest):
            self.got = ("import", rest)

        def handle_include(self, section, rest):
            self.got = ("include", rest)

    class Sec:
        got = None

        def addValue(self, key, value, pos):
            self.got = (key, value)

    def err(e):
        return ["err", ["cfgsyntax", e.url, str(e.lineno), "none" if e.colno is None else str(e.colno), "none"]]
    lines = list(dict.fromkeys([l.strip() for l in singles] + [l.strip()[1:] for l in singles if l.strip().startswith("%")]))
    n = 0
    ans = core.driver_batch([[Atom("code"), "handle-key-value", l] for l in lines], exe=core.DRIVER2)
    for l, a in zip(lines, ans):
        p, sec = P(), Sec()
        try:
            p.handle_key_value(sec, l)
            r = ["ok", sec.got]
        except ZConfig.ConfigurationSyntaxError as e:
            r = err(e)
        except Exception as e:
            r = ["exc", type(e).__name__]
        n += 1
        if r[0] == "ok":
            # the method goes on with `if not value: value = ''`
            ok = a[0] == "ok" and a[1][1] != "none" and a[1][1][1] == r[1][0] and ("" if a[1][2] == "none" else a[1][2][1]) == r[1][1]
        else:
            ok = [a[0], a[1]] == r
        if not ok:
            ctx.disagree("generated-code:handle_key_value", l, r, a)
    ans = core.driver_batch([[Atom("code"), "handle-directive", l] for l in lines], exe=core.DRIVER2)
    for l, a in zip(lines, ans):
        p = P()
        try:
            p.handle_directive(None, l)
            r = ["ok", ["tup", ["s", p.got[0]], ["s", p.got[1]]]]
        except ZConfig.ConfigurationSyntaxError as e:
            r = err(e)
        except Exception as e:
            r = ["exc", type(e).__name__]
        n += 1
        if [a[0], a[1]] != r:
            ctx.disagree("generated-code:handle_directive", l, r, a)
    ctx.evaluations += n
    ctx.cov["generated_code_stream"] = {"functions": ["handle_key_value (prefix)", "handle_directive (prefix)"], "evaluations": n}


def run(ctx):
    from ZConfig import schemaless
    import ZConfig
    obligations, discharged, names = core.standard_prelude(ctx, ["ZCV.Props.C03"])
    maxlen = 5 if ctx.thorough() else 4
    nlines = 4 if ctx.thorough() else 3
    # 1. single lines
    singles = list(util.enum_strings(ALPHA, maxlen)) + ["%define a b", "%import a", "%include a", "%define  a   b c ", "%DEFINE a b",
                                                         "%definea b", "% define a b", "%\tdefine a b", "%  import p", "% include f", "%Define a b", "%Include f", "%IMPORT p", "< a>", "<a >", "<a  b >", "<a b/>", "<a b />", "<a/b>", "<a//>"]
    # directive-name probes: every word that could be mistaken for a directive because the parser has a method for it
    from ZConfig.cfgparser import ZConfigParser
    words = sorted({n[len("handle_"):] for n in dir(ZConfigParser) if n.startswith("handle_")} |
                   {n for n in dir(ZConfigParser) if not n.startswith("__")} | {"key_value", "directive", "Define", "INCLUDE", "defines"})
    for w in words:
        singles += ["%" + w + " k v", "%" + w + " define n v", "%" + w]
    _code_stream(ctx, singles)
    if ctx.driver_ok:
        ans = core.driver_batch([[Atom("classify"), l] for l in singles])
        recs = core.driver_batch([[Atom("parse-rec"), None, [l]] for l in singles])
    for i, l in enumerate(singles):
        r = real_rec([l])
        ctx.evaluations += 1
        if l.strip() and not l.strip().startswith("#"):
            ctx.nontriv(l)
        ctx.count("single:" + (r[0] if r[0] != "cfg" else r[1]))
        if not ctx.driver_ok:
            continue
        model, spec = ans[i]
        mrec = canon_rec(recs[i])
        if mrec != r:
            ctx.disagree("single-line", l, r, mrec)
        # oracle: the documented classification against what the real parser did with the one-line text
        obs = shape_of_events(l, r)
        exp = spec
        ok = True
        if exp == "bad":
            ok = r[0] == "cfg" and r[1] == "syntax"
        elif exp == "skip":
            ok = r == ["ok", []]
        elif exp[0] == "open":
            nm = None if exp[2] == "none" else exp[2]
            if exp[3] == "t":
                ok = r == ["ok", [["start", exp[1], nm], ["stop", exp[1], nm]]]
            else:
                ok = r[0] == "cfg" and r[1] == "syntax"       # opened and never closed
        elif exp[0] == "close":
            ok = r[0] == "cfg" and r[1] == "syntax"           # nothing to close in a one-line text
        elif exp[0] == "kv":
            if "$" in exp[2]:
                ok = r[0] in ("ok", "cfg")                    # substitution is C04's business
            else:
                ok = r == ["ok", [["value", exp[1], exp[2], 1]]]
        elif exp[0] == "import":
            ok = ("$" in exp[1]) or r == ["ok", [["imp", exp[1].strip()]]]
        elif exp[0] == "define":
            ok = r[0] in ("ok", "cfg")
        elif exp[0] == "include":
            ok = ("$" in exp[1]) or r == ["internal", "NotImplementedError"]
        if not ok:
            ctx.violate("line %r: documented grammar says %r, the parser did %r" % (l, exp, r),
                        {"lines": [l], "spec": exp, "impl": r}, signature="C03:line:%s" % (exp if isinstance(exp, str) else exp[0]))
    # 2. short texts over representative shapes (nesting), recording context + schemaless
    texts = [list(t) for n in range(1, nlines + 1) for t in itertools.product(SHAPES, repeat=n)] if nlines <= 3 else None
    if texts is None:
        texts = [list(t) for n in range(1, 4) for t in itertools.product(SHAPES, repeat=n)]
        texts += [[ctx.rng.choice(SHAPES) for _ in range(4)] for _ in range(600000)]
    texts += [random_text(ctx.rng) for _ in range(20000 if ctx.thorough() else 2500)]
    compare_texts(ctx, texts, "text")
    # 2b. bracket spellings: everything that can stand between '</' and '>' while sections are open, between '<' and '>' or '/>'
    spell = bracket_spelling_texts(4 if ctx.thorough() else 3)
    compare_texts(ctx, spell, "bracket")
    # 2c. the section objects are the context's: texts that end inside open sections (and their closed controls), the texts of up
    # to 2 lines and the random texts, through recording contexts with other kinds of section objects and through schemaless
    opens = open_section_texts(ctx.thorough())
    compare_contexts(ctx, opens, "open-sections")
    nshort = len(SHAPES) + len(SHAPES) ** 2
    compare_contexts(ctx, [(t, None, False) for t in texts[:nshort] + texts[-(20000 if ctx.thorough() else 2500):] + spell[::7]], "contexts")
    # 3. the same texts read from a FILE the way a path or URL is read: line by line means '\n' by '\n'
    exotic = [t for t in texts if any(c in l for l in t for c in "\x0b\x0c\x1c\x1d\x1e\x85\u2028\u2029\r")]
    sample = exotic[:300] + texts[:: max(1, len(texts) // 300)] + spell[:: max(1, len(spell) // 100)] + [["k " + "v" * 5000], ["<a>", "    k " + "w" * 9000 + " tail", "</a>"],
                                                                       ["# " + "c" * 4090 + " k v"], ["k a\rb"], ["k v\r"]]
    for t in sample:
        r1, r2 = real_rec(t), real_rec_path(t)
        ctx.evaluations += 1
        ctx.count("by-path:" + r2[0])
        if r1 != r2:
            ctx.violate("text %r read from a file (openResource) is parsed as %r, the same text from a stream as %r" % (t, r2, r1),
                        {"lines": t, "by_path": r2, "from_stream": r1}, signature="C03:by-path-differs")
            break
    ctx.cov["exhaustive"] = True
    ctx.cov["enumeration"] = {"alphabet": ALPHA, "maxlen": maxlen, "single_lines": len(singles), "texts": len(texts), "shapes": len(SHAPES),
                              "bracket_spellings": len(spell), "bracket_alphabet": HDR_ALPHA,
                              "open_section_texts": len(opens), "section_object_kinds": sorted(SECTION_KINDS) + ["schemaless.Section"]}
    ctx.sample({"line": singles[len(singles) // 2], "impl": real_rec([singles[len(singles) // 2]])})
    ctx.sample({"text": texts[-1], "impl": real_rec(texts[-1])})
    ctx.sample({"bracket-spelling": spell[len(spell) // 2], "impl": real_rec(spell[len(spell) // 2])})
    ctx.sample({"open-sections": opens[len(opens) // 2][0], "left_open": opens[len(opens) // 2][1], "schemaless": real_schemaless(opens[len(opens) // 2][0])[:3]})
    return core.finish(ctx, obligations, discharged, names, RULE,
                       "lake build ZCV.Props.C03 && lake env lean ZCV/Audit/C03.lean",
                       ["lines are split at '\\n' only (StringIO.readline)", "substitution of values is C04"])
