"""C15 — the result of a load does not depend on how the text is laid out"""
import copy
import io
import random
import re
import string

from .. import cfggen, cfgrun, cfgstream, core, schemafam as F

RULE = ("texts of the C01 corpus (valid and invalid) and texts for the shipped logger and basic-mapping components; each "
        "item tree rendered twice: canonically and under a random composition of the listed rewrites (indentation, "
        "trailing whitespace incl. exotic Unicode spaces, blank/comment lines, letter case of types/names/define names/"
        "references/keys, <t/> vs <t></t>, reordering lines of different keys); value tree or rejection must agree. Texts also give "
        "arbitrary ('+') keys named like a section of the same container (key line before / between / after the section), and a "
        "second schema stream has section types that override the inherited key type with inherited key names that are not "
        "fixed points of the new one (case-sensitive base with mixed-case keys under a case-insensitive derived type and vice versa). "
        "A third stream gives free-text keys values whose LAST character is a punctuation mark, above all the marks that other line-oriented "
        "formats read as 'continued on the next line' (Windows / UNC paths with their final backslash, '^', '&', ',' ...), and gives values "
        "(of any datatype) THROUGH a definition, the plain or braced reference in mixed case being the entire value of the key or of a "
        "further definition; the rewrites also change the letter case of the references inside values and insert blank / comment lines "
        "(comments ending in such a mark too) AFTER any line, the last line of a section and of the text included. "
        "A fourth stream nests sections DEEPLY: schemas with section types that nest without bound (a type holding its own type, types "
        "holding an abstract type they implement, two types holding each other) and, for EVERY depth from 0 to 136 (256 in the thorough "
        "tier) and around the round numbers and powers of two beyond, texts that nest that many sections (with their keys) around one "
        "empty section; the rewritten text writes every empty section the other way ('<t/>' for '<t>' '</t>' and the reverse). "
        "non-trivial = at least two physical lines; distinct by (schema, canonical text, rewritten text)")

WS = [" ", "\t", "  ", "\x0c", " ", " ", "\x0b", ""]


# characters that line-oriented formats other than this one read, at the end of a line, as "continued on the next line" (shell,
# Python, C: '\\'; cmd.exe: '^'; PowerShell: '`'; Fortran: '&'; Basic: '_'; operators and separators left hanging: ', + - |')
CONT = ["\\", "\\", "\\\\", "^", "`", "&", "_", ",", "+", "-", "|"]
# datatypes that convert every text
FREE_TEXT = ("string", "null", "string-list", "zcvdt.marker")


def _tail(rng):
    return rng.choice(CONT) if rng.random() < 0.7 else rng.choice(string.punctuation)


def edge_value(rng):
    """a value whose last character is a punctuation mark (mostly one of CONT): directory names written with their final
    separator, patterns, a mark alone"""
    return rng.choice(["C:\\data\\docs", "\\\\srv\\share", "D:", "a b", "x", "^\\d+", "one, two", ""]) + _tail(rng)


def edge_filler(rng):
    """a blank line, or a comment line whose last character is a punctuation mark (mostly one of CONT)"""
    if rng.random() < 0.25:
        return rng.choice(["", " ", "\t"])
    return rng.choice(["", " ", "\t"]) + "#" + rng.choice(["", " ", " see C:\\tmp", " k v", " <x>", " %define q"]) + _tail(rng) + rng.choice(["", "", " "])


_REF_RX = re.compile(r"\$\$|\$\{([a-zA-Z_][a-zA-Z0-9_]*)|\$([a-zA-Z_][a-zA-Z0-9_]*)")


def recase_refs(rng, text, how="mixed"):
    """the text with the letter case of the referenced names changed ('$name', '${name}'; '$$' stands for a dollar sign and
    '$(NAME)' names an environment variable, whose case matters: both left alone): every name in lower case, every name in
    upper case, or letter by letter at random"""
    def g(name):
        return name.lower() if how == "lower" else name.upper() if how == "upper" else cfggen._case_variant(rng, name)

    def f(m):
        if m.group(1) is not None:
            return "${" + g(m.group(1))
        if m.group(2) is not None:
            return "$" + g(m.group(2))
        return m.group(0)
    return _REF_RX.sub(f, text)


def relayout_text(rng, elab, items, rng2, flip_empty=False):
    """rewritten physical lines of a whole text: the definitions first (as the canonical rendering has them), one way of
    re-casing references (all lower, all upper, at random per reference) for the whole text"""
    refcase = rng2.choice(["lower", "lower", "upper", "mixed", "mixed", "mixed"])
    return (relayout(rng, elab, [it for it in items if it[0] == "define"], None, rng2=rng2, refcase=refcase)
            + relayout(rng, elab, [it for it in items if it[0] != "define"], None, rng2=rng2, refcase=refcase, flip_empty=flip_empty))


def relayout(rng, elab, items, tyname=None, depth=0, rng2=None, refcase="mixed", flip_empty=False):
    """rewritten physical lines for an item tree.  The rewrites drawn from the second generator: the letter case of the
    references in values, and a blank / comment line AFTER an item's lines (after the last item of a section or of the text too).
    flip_empty: every empty section is written the OTHER way than the canonical rendering writes it ('<t/>' for '<t>' '</t>'
    and the reverse) instead of either way at random"""
    if rng2 is None:
        rng2 = random.Random(repr(items))       # (no draw taken from the first generator)
    children, kt = cfggen._children_of(elab, tyname)
    items = list(items)
    # reorder lines of different keys, keeping the relative order of repeated keys, of sections, and of define/use
    if rng.random() < 0.6 and not any(it[0] in ("define", "raw", "import", "include") for it in items):
        kvs = [it for it in items if it[0] == "kv"]
        groups = {}
        order = []
        for it in kvs:
            k = cfggen._norm(kt or "basic-key", it[1])
            if k not in groups:
                groups[k] = []
                order.append(k)
            groups[k].append(it)
        rng.shuffle(order)
        merged = []
        heads = {k: 0 for k in order}
        # interleave groups at random, preserving in-group order
        pool = [k for k in order for _ in groups[k]]
        rng.shuffle(pool)
        for k in pool:
            merged.append(groups[k][heads[k]])
            heads[k] += 1
        it_kv = iter(merged)
        sects = [it for it in items if it[0] == "sect"]
        # positions: keep sections in order, spread keys around them at random
        slots = sorted(rng.sample(range(len(items)), len(sects))) if sects else []
        out = []
        si = 0
        for i in range(len(items)):
            if si < len(slots) and slots[si] == i:
                out.append(sects[si])
                si += 1
            else:
                out.append(next(it_kv))
        items = out
    lines = []
    ind = rng.choice(WS) * rng.randint(0, 3) if rng.random() < 0.85 else " " * rng.choice([4, 8, 16, 40])
    for it in items:
        if rng.random() < 0.2:
            lines.append(rng.choice(["", "   ", "# a comment", "\t#<x>", "#%define q", " ", "# ---- servers \x0c page two ----", "#\u2028k v", "# \x85 x y",
                                     "# a\x0bb </x>", "#" + "c" * 5000, "# " + "word " * 1800]))
        tail = rng.choice(WS)
        if it[0] == "kv":
            key = it[1]
            if (kt or "basic-key") != "identifier" and rng.random() < 0.5:
                key = cfggen._case_variant(rng, key)
            val = recase_refs(rng2, it[2], refcase) if ("$" in it[2] and (refcase != "mixed" or rng2.random() < 0.6)) else it[2]
            lines.append(ind + key + ((rng.choice([" ", "\t", "   "]) + val) if val != "" else "") + tail)
        elif it[0] == "sect":
            _, ty, nm, sub, empty = it
            ty2 = cfggen._case_variant(rng, ty) if rng.random() < 0.5 else ty
            nm2 = (cfggen._case_variant(rng, nm) if rng.random() < 0.5 else nm) if nm else None
            hdr = ty2 + ((rng.choice([" ", "\t", "  "]) + nm2) if nm2 else "")
            short = not sub and rng.random() < 0.5
            if flip_empty and not sub:
                short = not empty
            if short:
                lines.append(ind + "<" + hdr + rng.choice(["/>", " />", "\t/>"]) + tail)
            else:
                lines.append(ind + "<" + hdr + rng.choice(["", " "]) + ">" + tail)
                lines.extend(relayout(rng, elab, sub, ty.lower(), depth + 1, rng2, refcase, flip_empty))
                lines.append(ind + "</" + (cfggen._case_variant(rng, ty) if rng.random() < 0.5 else ty) + rng.choice(["", " "]) + ">" + tail)
        elif it[0] == "define":
            val = recase_refs(rng2, it[2], refcase) if ("$" in it[2] and (refcase != "mixed" or rng2.random() < 0.6)) else it[2]
            lines.append(ind + "%define" + rng.choice([" ", "\t"]) + cfggen._case_variant(rng, it[1]) + (" " + val if val else "") + tail)
        elif it[0] == "raw":
            lines.append(ind + it[1] + tail)
        if rng2.random() < 0.15:
            lines.append(edge_filler(rng2))
    return lines


def add_define_items(rng, items):
    if rng.random() < 0.6:
        return items
    items = list(items)
    items.insert(0, ["define", "lay1", "vv"])
    items.insert(1, ["define", "Lay2", "$lay1-w"])
    r = rng.random()
    if r < 0.25:
        # a name defined again: with the same expanded value (accepted) ...
        items.insert(2, ["define", rng.choice(["lay1", "LAY1", "Lay1"]), "vv"])
    elif r < 0.5:
        # ... or with another one (rejected), the name spelled in any letter case
        items.insert(2, ["define", rng.choice(["lay1", "LAY1", "lay2", "LAY2"]), rng.choice(["other", "", "vv-w "])])
    for it in items:
        if it[0] == "kv" and rng.random() < 0.3 and it[2] and "$" not in it[2]:
            it[2] = it[2] + rng.choice(["$lay1", "${LAY2}", "$Lay2", "${lay1}"])
    return items


def _key_datatype(children, kt, key):
    """the datatype that converts the value of a key line: that of the fixed key of this name, else of the arbitrary key"""
    dt = None
    for _, info in children:
        if info[0] == "key":
            if info[1] == cfggen._norm(kt, key):
                return info[5]
            if info[1] == "+":
                dt = info[5]
    return dt


def add_edge_values(rng, elab, items, p=0.5):
    """gives (in place) the keys whose datatype converts every text, with probability p each, a value whose last character
    is a punctuation mark (edge_value); returns the number of values replaced"""
    n = 0
    for cont, tyname in cfggen._containers(items, None, []):
        children, kt = cfggen._children_of(elab, tyname)
        if children is None:
            continue
        for it in cont:
            if it[0] == "kv" and _key_datatype(children, kt, it[1]) in FREE_TEXT and rng.random() < p:
                it[2] = edge_value(rng)
                n += 1
    return n


def values_by_reference(rng, items, p=0.4):
    """gives (in place) values of keys - of any datatype, at any depth - THROUGH a definition: the value moves into a
    '%define' at the head of the text (now and then by way of a second definition whose entire value is a reference to the
    first) and the ENTIRE value of the key becomes one reference, plain or braced, to the mixed-case name in some letter case.
    What the key gets is the text it had.  Returns the number of values rewritten"""
    defs = []
    for cont, _ in cfggen._containers(items, None, []):
        for it in cont:
            if it[0] == "kv" and rng.random() < p:
                name = "LayV%d" % len(defs)
                if rng.random() < 0.25:
                    defs.append(["define", name + "_src", it[2]])
                    defs.append(["define", name, rng.choice(["$%s_src", "${%s_src}", "$%s_SRC"]) % name])
                else:
                    defs.append(["define", name, it[2]])
                ref = rng.choice([name, name, name.lower(), name.upper(), cfggen._case_variant(rng, name)])
                it[2] = ("${%s}" if rng.random() < 0.3 else "$%s") % ref
    at = max([i + 1 for i, it in enumerate(items) if it[0] == "define"] or [0])     # (a moved value may refer to an earlier definition)
    items[at:at] = defs
    return sum(1 for d in defs if not d[1].endswith("_src"))


def odd_spelled_keys(elab, items):
    """the key lines of the item tree that address a fixed key which the section type lists in a spelling its own key type
    does not produce (inherited from a base type with another key type): [type, key as listed, key as written]"""
    out = []
    for cont, tyname in cfggen._containers(items, None, []):
        children, kt = cfggen._children_of(elab, tyname)
        if children is None or kt == "identifier":
            continue
        odd = {info[1].lower(): info[1] for _, info in children if info[0] == "key" and info[1] != "+" and info[1].lower() != info[1]}
        for it in cont:
            if it[0] == "kv" and it[1].lower() in odd:
                out.append([tyname, odd[it[1].lower()], it[1]])
    return out


def same_value(x, y):
    """equality of two rendered value trees (cfgrun.describe), walked level by level: the built-in '==' on nested lists and
    dicts runs on interpreter-internal stack, which bounds the nesting depth it can compare whatever the recursion limit is"""
    if isinstance(x, dict) and isinstance(y, dict):
        if len(x) != len(y):
            return False
        for k, v in x.items():
            if k not in y or not same_value(v, y[k]):
                return False
        return True
    if isinstance(x, list) and isinstance(y, list):
        if len(x) != len(y):
            return False
        for a, b in zip(x, y):
            if not same_value(a, b):
                return False
        return True
    if isinstance(x, (dict, list)) or isinstance(y, (dict, list)):
        return False
    return type(x) is type(y) and (x == y or (x != x and y != y))


def _pair_outcome(real, elab, items, overrides, seed):
    """canonical and re-laid-out rendering (layout drawn from the given seed) of an item tree on the real loader (fresh
    loaders, from streams); None when they agree, else the two texts and outcomes"""
    r = random.Random(seed)
    r2 = random.Random("second/%s" % seed)
    la = canon_lines(items)
    lb = relayout_text(r, elab, items, r2)
    oa, va, _ = cfgrun.real_load(real, "\n".join(la) + "\n", overrides=overrides, reuse=False)
    ob, vb, _ = cfgrun.real_load(real, "\n".join(lb) + "\n", overrides=overrides, reuse=False)
    if "internal" in (oa[0], ob[0]) or "dtexc" in (oa[0], ob[0]):
        return None
    if oa[0] == ob[0] and (oa[0] != "ok" or same_value(cfgrun.describe(va), cfgrun.describe(vb))):
        return None
    return {"lines": la, "rewritten": lb, "canonical_outcome": oa, "rewritten_outcome": ob,
            "canonical_value": cfgrun.describe(va) if oa[0] == "ok" else None,
            "rewritten_value": cfgrun.describe(vb) if ob[0] == "ok" else None}


def shrink_pair(real, elab, items, overrides, seeds=12, budget=4000):
    """greedy reduction of the item tree of a violating pair: an item (at any depth) is dropped when, for some layout seed,
    the canonical and the re-laid-out rendering of the smaller tree still differ in outcome.  None when the difference does
    not reproduce from the item tree alone (it then depends on how the text was delivered; the original pair is reported)"""
    order = list(range(seeds))
    spent = [0]

    def differs(its):
        for i, sd in enumerate(order):
            spent[0] += 1
            r = _pair_outcome(real, elab, its, overrides, sd)
            if r is not None:
                order.insert(0, order.pop(i))
                return r
        return None

    def paths(its, pre=()):
        for i, it in enumerate(its):
            yield pre + (i,)
            if it[0] == "sect":
                yield from paths(it[3], pre + (i,))

    def without(its, path):
        its = copy.deepcopy(its)
        cont = its
        for i in path[:-1]:
            cont = cont[i][3]
        del cont[path[-1]]
        return its

    best = differs(items)
    if best is None:
        return None
    progress = True
    while progress and spent[0] < budget:
        progress = False
        for path in sorted(paths(items), key=lambda q: (len(q), q)):
            try:
                cand = without(items, path)
            except IndexError:
                continue
            r = differs(cand)
            if r is not None:
                items, best, progress = cand, r, True
                break
            if spent[0] >= budget:
                break
    return best


def deep_sweep(thorough):
    """the nesting depths explored: EVERY depth from 0 up to a bound (whatever depth a text stops being treated like its
    shallower neighbours, the sweep stands on both sides of it), and beyond the bound the neighbourhoods of the round numbers
    and powers of two"""
    full = 256 if thorough else 136
    marks = (500, 512, 1000, 1024, 2048) if thorough else (200, 256, 500, 512)
    return list(range(full + 1)) + [m + d for m in marks if m > full + 1 for d in (-1, 0, 1)]


def gen_deep_cases(ctx, rng):
    """schemas extended by section types that nest without bound (cfggen.add_recursive_types: a type holding its own type,
    types holding an abstract type they implement, two types holding each other) and, for every depth of deep_sweep, texts
    over them (two per depth of the full sweep - three in the thorough tier - over different schemas, one per depth beyond)
    that nest so many sections - with their keys - around one empty section (cfggen.gen_chain_items)"""
    n_schemas, per_depth = (12, 3) if ctx.thorough() else (4, 2)
    sweep = deep_sweep(ctx.thorough())
    full = max(d for i, d in enumerate(sweep) if i == d)
    schemas = []

    def hook(rng, sd):
        # (no section is REQUIRED in these schemas: a random schema may require sections that no finite text can give - a type
        #  requiring a section of its own kind - and whether a deep text conforms should not hang on what surrounds the chain)
        for c in [c for t in sd.types if not t.abstract for c in t.children] + list(sd.children):
            if c.kind == "sect":
                c.required = False
        cfggen.add_recursive_types(rng, sd)

    for _ in range(n_schemas):
        sd, real, elab, hn = cfgstream.make_schema(rng, False, schema_hook=hook)
        cfgstream.check_digest(ctx, sd, real, elab)
        schemas.append((sd, real, elab, hn))
    cases = []
    for j, d in enumerate(sweep):
        for k in range(per_depth if d <= full else 1):
            sd, real, elab, hn = schemas[(j + k) % len(schemas)]
            items = cfggen.gen_chain_items(rng, elab, d)
            if items is None:
                continue
            c = cfgstream.Case()
            c.sd, c.real, c.elab, c.hnames = sd, real, elab, hn
            c.meta = {"items": items, "depth": d}
            cases.append(c)
    return cases


def _ranges(xs):
    """sorted integers as text: '0-136, 199-201, 255-257'"""
    out, i = [], 0
    while i < len(xs):
        j = i
        while j + 1 < len(xs) and xs[j + 1] == xs[j] + 1:
            j += 1
        out.append(str(xs[i]) if i == j else "%d-%d" % (xs[i], xs[j]))
        i = j + 1
    return ", ".join(out)


def canon_lines(items):
    out = []
    for it in items:
        if it[0] == "define":
            out.append("%define " + it[1] + (" " + it[2] if it[2] else ""))
    rest = [it for it in items if it[0] != "define"]
    return out + cfggen.render_lines(random.Random(0), rest, plain=True)


COMPONENT_TEXTS = [
    ("<schema><import package='ZConfig.components.logger'/><multisection type='logger' name='*' attribute='loggers'/>"
     "<section type='eventlog' name='*' attribute='eventlog'/></schema>",
     [["sect", "eventlog", None, [["kv", "level", "info"], ["sect", "logfile", None, [["kv", "path", "STDOUT"], ["kv", "level", "debug"],
                                                                                     ["kv", "format", "%(message)s"]], False]], False],
      ["sect", "logger", None, [["kv", "name", "a.b"], ["kv", "level", "WARN"], ["kv", "propagate", "no"]], False]]),
    ("<schema><import package='ZConfig.components.basic' file='mapping.xml'/><sectiontype name='m' extends='ZConfig.basic.mapping'/>"
     "<section type='m' name='*' attribute='m'/></schema>",
     [["define", "DocRoot", "C:\\data\\docs\\"],
      ["sect", "m", None, [["kv", "alpha", "1"], ["kv", "Beta-x", "two words"], ["kv", "g.1", ""], ["kv", "root", "$DocRoot"],
                           ["kv", "share", "\\\\srv\\pub\\"], ["kv", "index", "${DocRoot}index.html"]], False]]),
]


def run(ctx):
    import sys
    # (item trees, value trees and their renderings are walked recursively: deeply nested texts need the room)
    sys.setrecursionlimit(max(sys.getrecursionlimit(), 50000))
    obligations, discharged, names = core.standard_prelude(ctx, ["ZCV.Props.C15"])
    n_s, n_t = (800, 40) if ctx.thorough() else (80, 20)
    rng = ctx.rng
    base = cfgstream.gen_cases(ctx, n_s, n_t, nfaults=(0, 0, 1, 2))
    # schemas with a section type that OVERRIDES the key type it inherits while the inherited key names are not fixed points
    # of the new key type (registered in the base's spelling: reachable in one spelling only, in none, or collected by a
    # wildcard key): under a case-insensitive key type every letter case of such a key line must fare alike
    n_o, n_ot = (300, 20) if ctx.thorough() else (30, 10)
    over = cfgstream.gen_cases(ctx, n_o, n_ot, nfaults=(0, 0, 0, 1), systematic=False, schema_hook=cfggen.add_keytype_override)
    # free-text values ending in a punctuation mark (above all the marks read elsewhere as "continued on the next line") and
    # values given through a definition, one mixed-case reference being the entire value
    n_e, n_et = (400, 20) if ctx.thorough() else (40, 15)
    # (this stream and the rewrites added with it draw from generators of their own: the two older streams stay as they were)
    rng_old, rng_edge, rng2 = rng, random.Random("C15/edge/%s" % ctx.seed), random.Random("C15/second/%s" % ctx.seed)
    ctx.rng = rng_edge
    try:
        edge = cfgstream.gen_cases(ctx, n_e, n_et, nfaults=(0, 0, 0, 1), systematic=False)
    finally:
        ctx.rng = rng_old
    # sections nested DEEPLY (the ordinary texts nest at most four deep): schemas whose section types can nest without bound,
    # and for every depth of a sweep a text that nests that many sections around one empty section
    deep = gen_deep_cases(ctx, random.Random("C15/deep/%s" % ctx.seed))
    A, B = [], []
    for c in base + over + edge:
        is_edge = len(A) >= len(base) + len(over)
        rng = rng_edge if is_edge else rng_old
        items = copy.deepcopy(c.meta["items"])
        if not is_edge or rng.random() < 0.25:
            items = add_define_items(rng, items)
        classes = []
        if is_edge:
            if add_edge_values(rng, c.elab, items, 0.5):
                classes.append("value-ending-in-punctuation")
                if any(it[0] == "kv" and it[2].endswith("\\") for cont, _ in cfggen._containers(items, None, []) for it in cont):
                    classes.append("value-ending-in-backslash")
            if rng.random() < 0.7 and values_by_reference(rng, items, 0.4):
                classes.append("whole-value-reference")
        # ... and arbitrary keys ('+') named like a section of the same container: key lines before / between / after it
        if not c.faults or rng.random() < 0.3:
            if cfggen.add_namesake_keys(rng, c.elab, items, 0.6):
                classes.append("namesake-key")
        odd = odd_spelled_keys(c.elab, items)
        if odd:
            classes.append("keytype-override")
        a = cfgstream.Case()
        a.meta = {"classes": classes, "odd": odd, "items": items}
        a.sd, a.real, a.elab, a.hnames = c.sd, c.real, c.elab, c.hnames
        a.lines = canon_lines(items)
        b = cfgstream.Case()
        b.sd, b.real, b.elab, b.hnames = c.sd, c.real, c.elab, c.hnames
        b.lines = relayout_text(rng, c.elab, items, rng2)
        if any(re.match(r"\s*#.*\\\s*$", l) for l in b.lines):
            ctx.count("rewritten-with-comment-ending-in-backslash")
        if rng.random() < 0.3 and not c.faults:
            # ... also when command-line overrides address keys that the text spells in another letter case
            from .. import ovgen
            specs = [s_ for s_ in ovgen.gen_overrides(rng, c.elab, [it for it in items if it[0] != "define"], rng.randint(1, 2),
                                                       pbadval=0.0, pmissing=0.0, pweird=0.0)
                     if "=" in s_ and "" not in s_.split("=", 1)[0].split("/") and s_.split("=", 1)[1] == s_.split("=", 1)[1].strip()]
            a.overrides = b.overrides = tuple(specs)
            if specs:
                ctx.count("with-overrides")
        if rng.random() < 0.4:
            # the re-laid-out text is read from a FILE (by path or file: URL), the canonical one from a stream
            b.files = {}
            b.meta = {"main": "main.conf", "entry": rng.choice(["abs", "url", "fileobj-abs"])}
            ctx.count("rewritten-read-from-file")
        A.append(a)
        B.append(b)
    rng_deep, rng2_deep = random.Random("C15/deep-layout/%s" % ctx.seed), random.Random("C15/deep-second/%s" % ctx.seed)
    for c in deep:
        items = c.meta["items"]
        a = cfgstream.Case()
        a.meta = {"classes": ["deep-nesting"], "odd": [], "items": items, "depth": c.meta["depth"]}
        a.sd, a.real, a.elab, a.hnames = c.sd, c.real, c.elab, c.hnames
        a.lines = canon_lines(items)
        b = cfgstream.Case()
        b.sd, b.real, b.elab, b.hnames = c.sd, c.real, c.elab, c.hnames
        # every empty section - the innermost one above all - is written the other way than in the canonical text
        b.lines = relayout_text(rng_deep, c.elab, items, rng2_deep, flip_empty=True)
        if rng_deep.random() < 0.3:
            b.files = {}
            b.meta = {"main": "main.conf", "entry": rng_deep.choice(["abs", "url", "fileobj-abs"])}
            ctx.count("rewritten-read-from-file")
        A.append(a)
        B.append(b)
    if deep:
        ctx.cov["deep_nesting"] = {"texts": len(deep), "depths": _ranges(sorted({c.meta["depth"] for c in deep})),
                                   "schemas": len({id(c.sd) for c in deep})}
    cfgstream.evaluate(ctx, A)
    cfgstream.evaluate(ctx, B)
    shrunk = set()
    for a, b in zip(A, B):
        if len(a.lines) >= 2:
            ctx.nontriv((id(a.sd), tuple(a.lines), tuple(b.lines)))
        ctx.count("canonical:" + a.out[0])
        for cl in a.meta["classes"]:
            ctx.count("%s:canonical-%s:rewritten-%s" % (cl, a.out[0], b.out[0]))
        for x in (a, b):
            if x.model is not None and x.model[0] != "bad" and x.out[0] != "internal":
                if x.model[0] != x.out[0] or (x.out[0] == "ok" and not cfgrun.match_val(x.model[1], x.cfg)):
                    ctx.disagree("load", x.replay(), x.out, x.model[:6])
        if "internal" in (a.out[0], b.out[0]) or "dtexc" in (a.out[0], b.out[0]):
            # a text with two faults (a datatype that raises its own exception AND an unconvertible value) is rejected in
            # both layouts, by whichever fault is met first: that is no difference of the RESULT; only accepted-vs-not is
            # (false alarm under VERIF_SEED=8: canonical ended in the datatype's KeyError, the re-ordered text in a conversion error)
            if (a.out[0] == "ok") != (b.out[0] == "ok"):
                ctx.disagree("layout-internal", {"a": a.lines, "b": b.lines}, a.out, b.out)
            continue
        same = a.out[0] == b.out[0] and (a.out[0] != "ok" or same_value(cfgrun.describe(a.cfg), cfgrun.describe(b.cfg)))
        if not same:
            sig = "C15:%s-vs-%s" % (a.out[0], b.out[0])
            rep = dict(a.replay(), rewritten=b.lines, canonical_outcome=a.out, rewritten_outcome=b.out,
                       input_classes=a.meta["classes"], keys_registered_in_another_spelling=a.meta["odd"],
                       sections_enclosing_the_innermost_empty_section=a.meta.get("depth"),
                       lines_ending_in_a_continuation_mark=[l for l in a.lines + b.lines if l.strip()[-1:] in ("\\", "^", "`", "&", "_", ",", "+", "-", "|")],
                       whole_value_references=[l for l in a.lines + b.lines if re.match(r"\s*\S+\s+\$(\w+|\{\w+\})\s*$", l)],
                       canonical_value=cfgrun.describe(a.cfg) if a.out[0] == "ok" else None,
                       rewritten_value=cfgrun.describe(b.cfg) if b.out[0] == "ok" else None)
            if (a.meta.get("depth") or 0) > 150:
                # (the replay is written as JSON, whose encoder cannot nest without bound: the texts say everything)
                rep["canonical_value"] = rep["rewritten_value"] = "(not rendered: sections nested %d deep)" % a.meta["depth"]
            if sig not in shrunk and len(shrunk) < 4:
                # the first pair of every outcome class is reduced to a small item tree that still shows a difference
                shrunk.add(sig)
                small = shrink_pair(a.real, a.elab, a.meta["items"], a.overrides)
                if small is not None:
                    rep["shrunk"] = small
                    ctx.count("violations-shrunk")
            ctx.violate("layout rewrite changed the outcome: %s vs %s" % (a.out[:2], b.out[:2]), rep, signature=sig)
    rng = rng_old
    # shipped components (real vs real only)
    import ZConfig
    for xml, items in COMPONENT_TEXTS:
        schema = ZConfig.loadSchemaFile(io.StringIO(xml))
        ca = canon_lines(items)
        oa, va, _ = cfgrun.real_load(schema, "\n".join(ca) + "\n")
        for _ in range(200 if ctx.thorough() else 30):
            # the key type of both components is basic-key: keys are case-insensitive
            lb = relayout(rng, [None, [], [None, None, "basic-key", None, []]], copy.deepcopy(items), None, rng2=rng2)
            ob, vb, _ = cfgrun.real_load(schema, "\n".join(lb) + "\n")
            ctx.evaluations += 1
            ctx.nontriv(("component", tuple(lb)))
            if oa[0] != ob[0] or (oa[0] == "ok" and _comp_digest(va) != _comp_digest(vb)):
                ctx.violate("layout rewrite changed the outcome for a shipped component text: %s vs %s" % (oa[:2], ob[:2]),
                            {"schema_xml": xml, "lines": ca, "rewritten": lb}, signature="C15:component")
    if A:
        ctx.sample({"canonical": A[0].lines, "rewritten": B[0].lines, "outcome": A[0].out[:2]})
    return core.finish(ctx, obligations, discharged, names, RULE,
                       "lake build ZCV.Props.C15 && lake env lean ZCV/Audit/C15.lean",
                       ["value trees compared structurally (factory objects of the logger component by their configured attributes)"])


def _comp_digest(v, depth=0):
    if hasattr(v, "getSectionAttributes"):
        return {a: _comp_digest(getattr(v, a), depth + 1) for a in v.getSectionAttributes()}
    if isinstance(v, (list, tuple)):
        return [_comp_digest(x, depth + 1) for x in v]
    if isinstance(v, dict):
        return {k: _comp_digest(x, depth + 1) for k, x in v.items()}
    if hasattr(v, "section") and depth < 6:     # logger factories keep their section
        return _comp_digest(v.section, depth + 1)
    if callable(v) and hasattr(v, "__dict__") and depth < 6:
        return {k: _comp_digest(x, depth + 1) for k, x in sorted(vars(v).items()) if not k.startswith("_") and not callable(x)}
    return v if isinstance(v, (str, int, float, bool, type(None))) else type(v).__name__
