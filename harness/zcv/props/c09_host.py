"""C09, host-dependent datatypes: existing-directory / -path / -file / -dirpath, locale (MemoizedConversion), timedelta
through the complete table.

The model (lean/ZCV/Model/Host.lean) takes the host as a parameter.  This stream PROBES the host — a scratch directory
tree it builds itself, the process's HOME and cwd, the C library's locales — and compares the real
`stock_datatypes[name](arg)` with
  (a) the contract computed here, in Python, from the probes alone (oracle level; needs no driver), and
  (b) the Lean model `Cfg.stockValH` evaluated by the driver on the probed host table (ops hostdt / dirname / memolocale / memoseq).
Nothing is assumed about which locales exist or what the account's home is.
"""
import locale
import os
import shutil
import tempfile

from .. import cfgrun, core, util
from ..sexp import Atom

EXISTING = ("existing-directory", "existing-path", "existing-file", "existing-dirpath")

RULE_HOST = ("host-dependent datatypes: a scratch tree (directories, files, dangling and live symbolic links, names with blanks, "
             "a file used as a directory component) probed with absolute, relative (3 working directories) and ~-prefixed "
             "(4 settings of HOME) arguments incl. '', '.', '..', trailing and doubled slashes, NUL; 18+ locale names probed "
             "with setlocale; call sequences on MemoizedConversion with real and scripted conversions; real result vs the "
             "contract computed from the probes vs the Lean model on the probed host table")


def _impl(fn, s):
    try:
        return ["ok", fn(s)]
    except ValueError:
        return ["err", "ValueError"]
    except TypeError:
        return ["err", "TypeError"]
    except Exception as e:           # noqa: BLE001 - the property is about the class of what escapes
        return ["exc", type(e).__name__]


def dir_portion(x):
    """the directory portion of a path, written from the characterisation proved in Lean (C09_dirname_spec), NOT with os.path"""
    if "/" not in x:
        return ""
    d = x[:x.rindex("/")]
    if d.strip("/") == "":
        return d + "/"
    return d.rstrip("/")


def candidates(x):
    """every path a plausible implementation could ask the file system about for the expanded argument x"""
    out = {x, x.rstrip("/"), dir_portion(x), os.path.dirname(x)}
    for i, c in enumerate(x):
        if c == "/":
            out.add(x[:i])
            out.add(x[:i + 1])
            out.add(x[:i].rstrip("/"))
    out.add(x + "/")
    return sorted(out)


def contract(name, img, isdir, exists):
    """the contract of the four existing-* datatypes over the probed host (img = expanduser image or None = it raised ValueError)"""
    if img is None:
        return ["err", "ValueError"]
    if name == "existing-directory":
        ok = isdir(img)
    elif name in ("existing-path", "existing-file"):
        # existing-file: the code tests os.path.exists (pinned by the repository's test_existing_file); see C09_existingFile_spec
        ok = exists(img)
    else:
        d = dir_portion(img)
        ok = d == "" or isdir(d)
    return ["ok", img] if ok else ["err", "ValueError"]


def _same(m, r):
    if m[0] == "err":
        return r[0] == "err" and r[1] == str(m[1])
    return m[0] == "ok" and r[0] == "ok" and cfgrun.match_val(m[1], r[1])


def build_tree(root):
    """returns (home, work); everything lives under root"""
    home, work = os.path.join(root, "home"), os.path.join(root, "work")
    for d in ("home/conf", "home/with blank", "home/empty.d", "home/~tilde", "home/conf/deep/er", "work/sub", "work/~", "work/~zcvnouser"):
        os.makedirs(os.path.join(root, d))
    for f in ("home/conf/app.conf", "home/with blank/a file.txt", "home/.hidden", "work/file.txt", "work/sub/f.txt", "work/~zcvfile",
              "home/conf/deep/er/x.log"):
        with open(os.path.join(root, f), "w") as fh:
            fh.write("x\n")
    links = 0
    for name, target in (("home/dangling", "nosuch"), ("home/linkdir", "conf"), ("home/linkfile", "conf/app.conf"),
                         ("home/loop", "loop"), ("work/uplink", "../home")):
        try:
            os.symlink(target, os.path.join(root, name))
            links += 1
        except OSError:
            pass
    return home, work, links


SEGMENTS = ["", ".", "..", "conf", "app.conf", "with blank", "a file.txt", "dangling", "linkdir", "linkfile", "loop", "nosuch", "~",
            "sub", "file.txt", "f.txt", "empty.d", "~tilde", "deep", "er", "uplink", "home", "work", " ", "x\ty", "é", ".hidden",
            "~zcvnouser", "~zcvfile"]


def arguments(rng, root, n_random):
    home = os.path.join(root, "home")
    fixed = ["", ".", "..", "/", "//", "///", "~", "~/", "~//", "~/.", "~/..", "~/conf", "~/conf/", "~/conf/app.conf", "~/conf/app.conf/",
             "~/conf/app.conf/x", "~/nosuch", "~/nosuch/x", "~/new.log", "~/with blank", "~/with blank/a file.txt", "~/with blank/new",
             "~/dangling", "~/dangling/x", "~/linkdir", "~/linkdir/app.conf", "~/linkdir/new", "~/linkfile", "~/linkfile/x", "~/loop", "~/loop/x",
             "~root", "~root/", "~root/x", "~zcvnouser", "~zcvnouser/x", "~zcvfile", "~tilde", "~~", "~\x00", "~a\x00b/x", "a\x00b", "\x00",
             " ~", "~ ", " ", "new.log", "sub", "sub/", "sub/f.txt", "sub/new", "sub/f.txt/x", "file.txt", "file.txt/", "nosuch", "nosuch/x",
             "./sub", "./new", "../work", "../work/new", "../home/conf/x", "../../..", "uplink/conf/new", "uplink/nosuch/new", "~/../work/sub",
             "conf", "conf/app.conf", "conf/new", "app.conf", "deep/er/x.log", "deep/er/new", "deep/nosuch/new", "x" * 300, "a/" * 150 + "b",
             home, home + "/", home + "//conf//app.conf", home + "/conf/../conf/new", home + "/conf/app.conf/..", home + "/nosuch/../conf",
             root, root + "/nosuch/x", "/nosuch-zcv", "/nosuch-zcv/x", "/x", "//x", "/tmp", "/tmp/", "/tmp/zcv-new-file", "/etc/passwd", "/etc/passwd/x",
             "/proc/self", "/dev/null", "/dev/null/x"]
    out = list(fixed)
    for _ in range(n_random):
        k = rng.randint(1, 4)
        body = "/".join(rng.choice(SEGMENTS) for _ in range(k))
        lead = rng.choice(["", "", "", "/", "~/", "~", home + "/", home + "/conf/", "./", "../", "//"])
        tail = rng.choice(["", "", "", "/", "//", "/.", "/.."])
        out.append(lead + body + tail)
    seen, uniq = set(), []
    for a in out:
        if a not in seen:
            seen.add(a)
            uniq.append(a)
    return uniq


def _existing_stream(ctx, stock, reqs, metas):
    """the four existing-* datatypes on the scratch tree; appends driver requests to reqs / their bookkeeping to metas"""
    root = os.path.realpath(tempfile.mkdtemp(prefix="zcv-c09-"))
    cwd0, home0 = os.getcwd(), os.environ.get("HOME")
    stats = {"args": 0, "accepted": 0, "existing_file_accepts_non_file": 0, "expanduser_changed": 0, "expanduser_raised": 0}
    shown = {}
    try:
        home, work, links = build_tree(root)
        ctx.cov["host_tree"] = {"symlinks": links, "root": "<mkdtemp>"}
        args = arguments(ctx.rng, root, 2500 if ctx.thorough() else 500)
        tilde = [a for a in args if a.startswith("~")]
        relative = [a for a in args if not a.startswith("/") and not a.startswith("~")]
        plans = [("work", work, "home", home, args),
                 ("home", home, "home", home, relative),
                 ("conf", os.path.join(home, "conf"), "home", home, relative),
                 ("work", work, "home/", home + "/", tilde),
                 ("work", work, "empty", "", tilde),
                 ("work", work, "unset", None, tilde),
                 ("work", work, "file", os.path.join(home, "conf", "app.conf"), tilde)]
        for cwdtag, cwd, hometag, homeval, plan_args in plans:
            os.chdir(cwd)
            if homeval is None:
                os.environ.pop("HOME", None)
            else:
                os.environ["HOME"] = homeval
            for arg in plan_args:
                try:
                    img = os.path.expanduser(arg)
                except ValueError:
                    img = None
                    stats["expanduser_raised"] += 1
                cands = candidates(img) if img is not None else []
                dirs = [p for p in cands if os.path.isdir(p)]
                files = [p for p in cands if os.path.isfile(p)]
                exs = [p for p in cands if os.path.exists(p)]
                sd, se = set(dirs), set(exs)
                stats["args"] += 1
                if img is not None and img != arg:
                    stats["expanduser_changed"] += 1
                for name in EXISTING:
                    r = _impl(stock[name], arg)
                    want = contract(name, img, sd.__contains__, se.__contains__)
                    ctx.evaluations += 1
                    ctx.count("%s:%s" % (name, r[0] if r[0] != "err" else r[1]))
                    if r[0] == "ok" or len(arg) > 1:
                        ctx.nontriv((name, arg, cwdtag, hometag))
                    if r[0] == "ok":
                        stats["accepted"] += 1
                        if name == "existing-file" and img not in files:
                            stats["existing_file_accepts_non_file"] += 1
                    where = {"datatype": name, "input": arg, "cwd": cwdtag, "HOME": hometag,
                             "expanduser": img if img is None else img.replace(root, "<root>"),
                             "host": {"dirs": [p.replace(root, "<root>") for p in dirs], "files": [p.replace(root, "<root>") for p in files],
                                      "exists": [p.replace(root, "<root>") for p in exs]},
                             "impl": [r[0], r[1] if r[0] != "ok" else str(r[1]).replace(root, "<root>")],
                             "tree": "harness/zcv/props/c09_host.py: build_tree"}
                    if r[0] == "exc":
                        ctx.violate("%s(%r) raised %s: neither a value nor ValueError" % (name, arg, r[1]), where,
                                    signature="C09:%s:exc:%s" % (name, r[1]))
                    elif r != want:
                        kind = "rejects-valid" if want[0] == "ok" and r[0] == "err" else "accepts-invalid" if want[0] == "err" else "wrong-value"
                        where["contract"] = [want[0], str(want[1]).replace(root, "<root>")]
                        ctx.violate("%s(%r) [cwd=%s HOME=%s] = %r, the contract over the probed host gives %r" % (
                            name, arg, cwdtag, hometag, where["impl"], where["contract"]), where, signature="C09:%s:%s" % (name, kind))
                    elif r[0] == "ok" and not isinstance(r[1], str):
                        ctx.violate("%s(%r) returned a %s" % (name, arg, type(r[1]).__name__), where, signature="C09:%s:wrong-type" % name)
                    reqs.append([Atom("hostdt"), name, arg, img, dirs, files, exs, [], True])
                    metas.append(("hostdt:" + name, arg, r, root))
                    key = (name, r[0], cwdtag, hometag)
                    if key not in shown:
                        shown[key] = {"datatype": name, "input": arg, "cwd": cwdtag, "HOME": hometag, "impl": where["impl"]}
    finally:
        os.chdir(cwd0)
        if home0 is None:
            os.environ.pop("HOME", None)
        else:
            os.environ["HOME"] = home0
        shutil.rmtree(root, ignore_errors=True)
    ctx.cov["host_existing"] = stats
    ctx.cov["host_samples"] = list(shown.values())[:24]
    if os.getcwd() != cwd0 or os.environ.get("HOME") != home0:
        ctx.notes.append("c09_host: cwd/HOME not restored")


def _dirname_stream(ctx, reqs, metas):
    strings = list(util.enum_strings("a/.", 6 if not ctx.thorough() else 8))
    strings += ["".join(ctx.rng.choice("ab/./ ~") for _ in range(ctx.rng.randint(1, 16))) for _ in range(1500)]
    for s in strings:
        want = os.path.dirname(s)
        ctx.evaluations += 1
        if dir_portion(s) != want:
            # the characterisation the contract uses must itself agree with the host's dirname
            ctx.violate("os.path.dirname(%r) = %r, the characterisation gives %r" % (s, want, dir_portion(s)), {"input": s},
                        signature="C09:dirname:characterisation")
        reqs.append([Atom("dirname"), s])
        metas.append(("dirname", s, want, None))
    ctx.count("dirname:strings", len(strings))


LOCALE_NAMES = ["C", "POSIX", "en_US.UTF-8", "en_US.utf8", "C.UTF-8", "C.utf8", "xx_YY", "", "garbage locale", "de_DE", "de_DE@euro",
                "a\x00b", "C\n", " C", "c", "posix", "LC_CTYPE=C", "é", "x" * 300, "en_US", "fr_FR.ISO-8859-1", "C.", ".UTF-8", "/"]


def _probe_locale(name, saved):
    try:
        locale.setlocale(locale.LC_ALL, name)
        return True
    except (locale.Error, ValueError):
        return False
    finally:
        locale.setlocale(locale.LC_ALL, saved)


def _locale_stream(ctx, D, stock, reqs, metas):
    saved = locale.setlocale(locale.LC_ALL)
    names = list(LOCALE_NAMES)
    try:
        names += sorted({v for v in locale.locale_alias.values()})[:: max(1, len(locale.locale_alias) // 12)][:12]
    except Exception:            # noqa: BLE001
        pass
    names += ["".join(ctx.rng.choice("CPOSIXen_US.-8@ ") for _ in range(ctx.rng.randint(1, 8))) for _ in range(20)]
    names = list(dict.fromkeys(names))
    accepted = [n for n in names if _probe_locale(n, saved)]
    acc = set(accepted)
    ctx.cov["host_locales"] = {"probed": len(names), "accepted": [n for n in accepted if len(n) < 40]}
    fn = stock["locale"]
    for n in names + names:          # every name twice: the second call of an accepted one is answered by the memo
        r = _impl(fn, n)
        ctx.evaluations += 1
        ctx.count("locale:%s" % (r[0] if r[0] != "err" else r[1]))
        ctx.nontriv(("locale", n))
        want = ["ok", n] if n in acc else ["err", "ValueError"]
        where = {"datatype": "locale", "input": n, "setlocale_accepts": n in acc, "impl": r[:2]}
        if r[0] == "exc":
            ctx.violate("locale(%r) raised %s" % (n, r[1]), where, signature="C09:locale:exc:" + r[1])
        elif r != want:
            ctx.violate("locale(%r) = %r although setlocale(LC_ALL, ·) %s it" % (n, r[:2], "accepts" if n in acc else "refuses"), where,
                        signature="C09:locale:" + ("rejects-valid" if n in acc else "accepts-invalid" if r[0] == "ok" else "wrong-error"))
        now = locale.setlocale(locale.LC_ALL)
        if now != saved:
            ctx.violate("locale(%r) left the process locale at %r (was %r)" % (n, now, saved), where, signature="C09:locale:not-restored")
            locale.setlocale(locale.LC_ALL, saved)
        reqs.append([Atom("hostdt"), "locale", n, None, [], [], [], accepted, True])
        metas.append(("hostdt:locale", n, r, None))
    # call sequences on fresh wrappers around the real check_locale
    memo_cls = getattr(D, "MemoizedConversion", None)
    check = getattr(D, "check_locale", None)
    if memo_cls is None or check is None:
        ctx.notes.append("MemoizedConversion / check_locale not found under these names: sequences skipped")
        return
    short = [n for n in names if len(n) < 40]
    for _ in range(60 if not ctx.thorough() else 400):
        seq = [ctx.rng.choice(short[:10] if ctx.rng.random() < 0.7 else short) for _ in range(ctx.rng.randint(2, 12))]
        m = memo_cls(check)
        got = [_impl(m, n) for n in seq]
        want = [["ok", n] if n in acc else ["err", "ValueError"] for n in seq]
        ctx.evaluations += len(seq)
        ctx.nontriv(("memolocale", tuple(seq)))
        memo = getattr(m, "_memo", None)
        want_memo = {n: n for n in seq if n in acc}
        where = {"calls": seq, "accepted_by_setlocale": [n for n in seq if n in acc], "impl": got, "memo": repr(memo)}
        if got != want:
            ctx.violate("MemoizedConversion(check_locale) on the calls %r answered %r, the conversion itself gives %r" % (seq, got, want), where,
                        signature="C09:memoized:not-transparent")
        elif isinstance(memo, dict) and memo != want_memo:
            ctx.violate("MemoizedConversion(check_locale) after the calls %r remembers %r, expected the successful conversions %r" % (
                seq, memo, want_memo), where, signature="C09:memoized:memo-content")
        reqs.append([Atom("memolocale"), seq, accepted])
        metas.append(("memolocale", seq, (got, memo), None))
    # scripted conversion: what the conversion would answer changes from call to call (the host changes under the memo)
    for _ in range(200 if not ctx.thorough() else 2000):
        steps = []
        for _k in range(ctx.rng.randint(2, 10)):
            a = ctx.rng.choice("abc")
            steps.append((a, ctx.rng.choice(["v1", "v2", ""]) if ctx.rng.random() < 0.55 else None))
        cur, calls = [None], [0]

        def conv(v, cur=cur, calls=calls):
            calls[0] += 1
            if cur[0] is None:
                raise ValueError(v)
            return cur[0]
        m = memo_cls(conv)
        got, ref, want, misses = [], {}, [], 0
        for a, o in steps:
            cur[0] = o
            got.append(_impl(m, a))
            if a in ref:
                want.append(["ok", ref[a]])
            else:
                misses += 1
                if o is None:
                    want.append(["err", "ValueError"])
                else:
                    ref[a] = o
                    want.append(["ok", o])
        ctx.evaluations += len(steps)
        ctx.nontriv(("memoseq", tuple(steps)))
        memo = getattr(m, "_memo", None)
        where = {"steps": [[a, o] for a, o in steps], "impl": got, "expected": want, "conversion_calls": calls[0], "expected_calls": misses,
                 "memo": repr(memo)}
        if got != want:
            ctx.violate("MemoizedConversion over a scripted conversion %r answered %r, expected %r (successes remembered, failures not)" % (
                steps, got, want), where, signature="C09:memoized:caching")
        elif calls[0] != misses:
            ctx.violate("MemoizedConversion called the conversion %d times on %r, expected %d" % (calls[0], steps, misses), where,
                        signature="C09:memoized:calls")
        elif isinstance(memo, dict) and memo != ref:
            ctx.violate("MemoizedConversion remembers %r after %r, expected %r" % (memo, steps, ref), where, signature="C09:memoized:memo-content")
        reqs.append([Atom("memoseq"), [[a, Atom("ok"), o] if o is not None else [a, Atom("err")] for a, o in steps]])
        metas.append(("memoseq", steps, (got, memo), None))
    if locale.setlocale(locale.LC_ALL) != saved:
        locale.setlocale(locale.LC_ALL, saved)


TD_INPUTS = ["4w 2d", "1.5h", "5x", "5", "s", "", "1w1d", "٣d", " 2m ", "1e3s", "infs", "nanw", "-1d", "1d 2d", "1_0s", "1W", "12", "1 w",
             "2 1x", "1w 2w", "1d\x0c2h", "1e400d", "9999999999d", "999999999d", "1000000000d", "142857142w 6d", "142857143w", "1e9d", "-1e9d",
             "0.5s 0.5m", "1e-400s", "nans 1d", "1d nans", "infw infd", "-infs", "4w 2.5d 7h 12m 0.001s"]


def _timedelta_stream(ctx, stock, reqs, metas):
    """timedelta through the complete table: the loop is the model's, the verdict of the constructor is probed"""
    import datetime
    if not ctx.driver_ok:
        return
    pool = "0123456789.eE+-_wdhmsWDx \tinfa"
    inputs = TD_INPUTS + ["".join(ctx.rng.choice(pool) for _ in range(ctx.rng.randint(1, 10))) for _ in range(6000 if ctx.thorough() else 800)]
    lits = ["1", "2.5", "-3", "1e3", ".5", "1_0", "inf", "nan", "1e308", "1e309", "999999999", "1e10", "0", "+7", "١", "1e", "", "x"]
    inputs += [ctx.rng.choice(["", " ", "\t"]).join(ctx.rng.choice(lits) + ctx.rng.choice("wdhmswdhmsWx1")
                                                     for _ in range(ctx.rng.randint(1, 4))) for _ in range(3000 if ctx.thorough() else 500)]
    first = core.driver_batch([[Atom("timedelta"), s] for s in inputs])
    for s, a in zip(inputs, first):
        fits, want = True, None
        if a[0] == "ok":
            want = {u: (0 if lit == "none" else float(lit)) for u, lit in zip(("weeks", "days", "hours", "minutes", "seconds"), a[1])}
            try:
                want = datetime.timedelta(**want)
            except (OverflowError, ValueError):
                fits, want = False, None
        r = _impl(stock["timedelta"], s)
        ctx.evaluations += 1
        ctx.count("timedelta(table):%s" % (r[0] if r[0] != "err" else r[1]))
        if r[0] == "ok" and want is not None and r[1] != want:
            ctx.disagree("hostdt:timedelta", s, ["ok", repr(r[1])], ["ok", repr(want)])
        reqs.append([Atom("hostdt"), "timedelta", s, None, [], [], [], [], fits])
        metas.append(("hostdt:timedelta", s, r, None))


def _table_stream(ctx, stock, reqs, metas):
    """the complete table is `stockVal` on the twenty other names: same answer through both driver ops"""
    if not ctx.driver_ok:
        return
    probes = ["", "a", "yes", "12", "1kb", "host:80", "/x", "a.b", ".a", "::1", "1.5", "a b"]
    pairs = [(n, p) for n in stock if n not in EXISTING and n not in ("locale", "timedelta") for p in probes]
    old = core.driver_batch([[Atom("conv"), n, p] for n, p in pairs])
    new = core.driver_batch([[Atom("hostdt"), n, p, None, [], [], [], [], True] for n, p in pairs])
    for (n, p), o, w in zip(pairs, old, new):
        ctx.evaluations += 1
        if o[0] != w:
            ctx.disagree("hostdt-vs-conv", [n, p], o[0], w)


def run_host(ctx):
    """entry point, called from c09.run before core.finish"""
    import ZConfig.datatypes as D
    stock = D.stock_datatypes
    missing = [n for n in EXISTING + ("locale", "timedelta") if n not in stock]
    if missing:
        ctx.violate("the stock registry no longer has %r" % missing, {"missing": missing}, signature="C09:registry:missing")
        return
    import time
    t0 = time.time()
    saved_locale = locale.setlocale(locale.LC_ALL)
    reqs, metas = [], []
    _existing_stream(ctx, stock, reqs, metas)
    _dirname_stream(ctx, reqs, metas)
    _locale_stream(ctx, D, stock, reqs, metas)
    _timedelta_stream(ctx, stock, reqs, metas)
    _table_stream(ctx, stock, reqs, metas)
    if locale.setlocale(locale.LC_ALL) != saved_locale:
        ctx.notes.append("c09_host: process locale had to be restored at the end")
        locale.setlocale(locale.LC_ALL, saved_locale)
    ctx.cov["host_requests"] = len(reqs)
    if not ctx.driver_ok:
        ctx.notes.append("c09_host: driver unavailable, oracle-level comparison only")
        return
    answers = core.driver_batch(reqs)
    for (stream, inp, real, root), a in zip(metas, answers):
        if stream == "dirname":
            if a != real:
                ctx.disagree(stream, inp, real, a)
        elif stream in ("memolocale", "memoseq"):
            got, memo = real
            model_out, model_memo = a
            ok = len(model_out) == len(got) and all(_same(m, r) for m, r in zip(model_out, got))
            if ok and isinstance(memo, dict):
                ok = len(model_memo) == len(memo) and all(k in memo and cfgrun.match_val(v, memo[k]) for k, v in model_memo)
            if not ok:
                ctx.disagree(stream, inp, [got, repr(memo)], a)
        elif stream == "hostdt:timedelta" and a[0] == "ok":
            # the model's value is the 5-tuple of symbolic amounts handed to the constructor
            import datetime
            try:
                amounts = [0 if c[0] == "i" else float(c[1]) for c in a[1][1:]]
                want = datetime.timedelta(**dict(zip(("weeks", "days", "hours", "minutes", "seconds"), amounts)))
            except (OverflowError, ValueError, IndexError):
                want = None
            if real[0] != "ok" or want is None or real[1] != want:
                ctx.disagree(stream, inp, [real[0], repr(real[1])], a)
        else:
            if real[0] == "exc" or not _same(a, real):
                shown = [real[0], str(real[1]).replace(root, "<root>") if root else repr(real[1])]
                ctx.disagree(stream, inp, shown, a)
    ctx.cov["host_seconds"] = round(time.time() - t0, 2)
