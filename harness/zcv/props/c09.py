"""C09 — every standard datatype is a total function honouring its documented contract"""
import math

from .. import cfgrun, core, util
from ..sexp import Atom
from . import c09_host

RULE = ("for every datatype of the stock registry with a written contract: all strings up to the tier's per-type length over an "
        "alphabet holding one representative per character class the type distinguishes (for the numeric types: a blank AND U+001C, "
        "white space that int()/float() do not skip), single-character, 'a'+c and - numeric types - c+literal, literal+c probes "
        "over the selected Unicode code points, and random mixed strings; the real conversion, the model of the code and the "
        "documented contract are evaluated on each; non-trivial = accepted by the contract or longer than 1; distinct by "
        "(datatype, string)")

# U+001C stands for the class "str.isspace() holds, int() / float() do not skip it" (the separator controls U+001C..U+001F: the
# generated table intSpaceExcluded) in every alphabet of a datatype that parses a number, next to the blank (skipped by both)
ALPHABETS = {
    "basic-key": "aZ1-._ é",
    "identifier": "aZ1-._ é",
    "dotted-name": "aZ1._- ",
    "dotted-suffix": "aZ1._- ",
    "boolean": None,
    "integer": "01-+_ ١a.\x1c",
    "port-number": "0169-+_ \x1c",
    "byte-size": "1kKmMgGbB-_ x\x1c",
    "time-interval": "1smhdSD-_ w\x1c",
    "inet-address": "aB1:[]. -\x1c",
    "inet-binding-address": "aB1:[]. \x1c",
    "inet-connection-address": "aB1:[]. \x1c",
    "socket-address": "a1:[]./ \x1c",
    "socket-binding-address": "a1:[]/",
    "socket-connection-address": "a1:[]/",
    "ipaddr-or-hostname": "aFg1.:-_ ",
    "string-list": "a b\t \x0c",
    "string": "a $",
    "null": "a $",
    "float": "1.e-+_naif \x1c",
}
# the datatypes that hand (part of) the text to int() / float()
NUMERIC = ("integer", "port-number", "byte-size", "time-interval", "float", "inet-address", "inet-binding-address",
           "inet-connection-address", "socket-address")
LENGTH = {"quick": {"default": 4, "ipaddr-or-hostname": 5, "port-number": 5, "byte-size": 4},
          "thorough": {"default": 6, "ipaddr-or-hostname": 7, "port-number": 6, "integer": 6, "basic-key": 6}}

EXTRA = {
    "boolean": ["yes", "YES", "Yes", "true", "True", "on", "ON", "no", "No", "false", "FALSE", "off", "Off", "", "y", "1", "0", "t",
                "yes ", " yes", "oN", "of", "onn", "truе", "ＴＲＵＥ", "nO", "İ", "ON\n",
                # characters whose full case FOLDING (not lower-casing) is ASCII: ligatures, long s, Kelvin sign
                "o\ufb00", "O\ufb00", "fal\u017fe", "ye\u017f", "YE\u017f", "\ufb00", "o\ufb01", "tr\u00b5e", "\u212an", "no\u0345", "ON\u0307"],
    "ipaddr-or-hostname": ["fe80::1", "abcd::", "::1", "::", "1::", "2001:db8::1", "::ffff:1.2.3.4", "1.2.3.4", "256.1.1.1", "1.2.3",
                           "01.2.3.4", "١.١.١.١", "a", "ab", "a.b", "a.", "Host.Example", "_x", "-x", "x-", "1:2:3:4:5:6:7:8",
                           "1:2:3:4:5:6:7:8:9", "12345::", "::g", "fe80::1%eth0", "[::1]", "a:b", "dead:beef::", "FE80::1",
                           "1.2.3.4.", "1..2", "25[0-5]", "::1.2.3.4", "::1.2.3", "0:0:0:0:0:0:1.2.3.4", "1:2:3:4:5:6:7::",
                           "::2:3:4:5:6:7:8", "a_b", "a b", "", ":", ":::", "1::2::3", "00001::", "a1:", ":a1", "1.2.3.4:"],
    "inet-address": ["host:80", "[::1]:80", "::1", "[::1]", "[::1]:", ":80", "80", "65535", "65536", "-1", "host:", "Host", "a b",
                     "[a]:1", "[]:1", "]:1", "[:1", "a:b:1", "a:1:2", "HOST:1", " 80 ", "1_0", "h:1_0", "", ":", "::", "[]",
                     "h:80\x1c", "h:\x1c80", "h: 80", "h:80\x85", "\x1c80", "80\x1f", "\x1ch:80", "[::1]:\x1d80", "h\x1c:80"],
    "byte-size": ["10", "10kb", "10KB", "10Kb", "10 kb", "10mb", "10gb", "10tb", "kb", "1kkb", "1bkb", "-5kb", "1_0mb", "10k", "b", "",
                  "٥kb", "10kB ", " 10kb", "10\tkb", "0x10kb", "1e3kb", "1kb1kb", "İkb", "1KİB",
                  "10\x1ckb", "\x1c10kb", "10kb\x1c", "10\x85kb", "\x1d10", "10\x1e", "1\x1f0kb"],
    "time-interval": ["5", "5s", "5S", "5m", "5h", "5d", "5D", "5w", "5ss", "s", "", "-5m", "5 m", "1_0h", "٥d", "5ms", "5dd",
                      "1\x1ch", "\x1c1h", "1h\x1c", "1\x85h", "\x1d5", "5\x1e", "5\x1f", " 5\x1cs", "5\u2028m"],
    "port-number": ["0", "65535", "65536", "-0", "-1", "+80", " 80 ", "8_0", "08", "٨٠", "80.0", "", "0x50", "8 0",
                    "\x1c80", "80\x1c", "\x1d80", "80\x1e", "\x1f80\x1f", "\x8580", "80\x85", " \x1c80", "80\x1c ", "+\x1c80", "8\x1c0"],
    "integer": ["0", "-0", "+1", "1_000", "1__0", "_1", "1_", " 1 ", "\x0c1", "١٢", "1a", "", "-", "+", "- 1", "0x10", "1e3", "१२", "1.0",
                # white space int() skips (all of isspace but U+001C..U+001F) and white space it does not
                "\x1c1", "1\x1c", "\x1d1", "1\x1d", "\x1e1", "1\x1e", "\x1f1", "1\x1f", " 1\x1f", "\x1c 1", " \x1c1", "1\x1c ", "1 \x1c",
                "\x851", "1\x85", "\x85\x1c1", "-\x1c1", "1\x1c2", "\x1c", "\x1c\x1c", "\u30001\u2028", "\xa01\u1680", "\x1c-1", "+1\x1e"],
    "dotted-name": ["a", "a.b", "a..b", ".a", "a.", "a.b.c", "_a._b", "a.1", "1.a", "a b", "a.b ", "", ".", "a\n", "é.a"],
    "dotted-suffix": ["a", ".a", ".a.b", "a.b", "..a", ".a.", ".", "", ".1", ".a b", "a.", ".a.b.c", "a\n", ".a\n"],
    "basic-key": ["a", "A", "a-b", "a.b_c", "1a", "-a", "_a", "a b", "", "a\n", "A1.-_", "é", "aé", "ſ", "K", "İ", "ı", "aİ"],
    "identifier": ["a", "_", "_1", "a1", "1a", "a-b", "a.b", "", "a\n", "é", "aé", "__x__", "a b"],
    "socket-address": ["/var/run/x", "a/b", "host:80", "::1", "[::1]:80", "80", "a b", "", "/"],
    "float": ["1", "1.5", "-2e3", "inf", "-Inf", "nan", "NaN", "infinity", "1_0", "1__0", ".5", "5.", ".", "e5", "1e", "1e+", " 1 ", "",
              "١.٥", "0x1p3", "1e5_0", "1_e5", "1._5", "+.5e-1_0", "--1", "in f",
              "\x1c1", "1\x1c", "\x1d1.5", "1.5\x1d", "\x1einf", "nan\x1e", "\x1f1e3", "1e3\x1f", " 1\x1f", "\x1c 1", "\x851", "1.5\x85",
              "1e\x1c5", "-\x1c1", "\x1c", "\u3000.5\u2028", "inf\x1c ", " \x1cnan"],
    "string-list": ["", " ", "a", "a b", "  a\tb\x0cc  ", "a b", "a b", "a\x1cb"],
}


def impl_conv(fn, s):
    try:
        return ["ok", fn(s)]
    except ValueError:
        return ["err", "ValueError"]
    except TypeError:
        return ["err", "TypeError"]
    except Exception as e:
        return ["exc", type(e).__name__]


def same(m, r):
    """model/spec answer m (decoded) against real result r"""
    if m[0] == "err":
        return r[0] == "err" and r[1] == str(m[1])
    if m[0] == "ok":
        return r[0] == "ok" and cfgrun.match_val(m[1], r[1])
    return False


# stock datatypes whose Python source is translated to Lean on every run (harness/zcv/pytrans.py -> Gen/CodeDatatypes.lean)
CODE_DTS = ["boolean", "integer", "null", "string-list", "port-number", "byte-size", "time-interval", "identifier", "dotted-name",
            "dotted-suffix", "basic-key", "inet-address", "inet-binding-address", "inet-connection-address", "socket-address",
            "socket-binding-address", "socket-connection-address"]


def _code_stream(ctx, D, reg, code_inputs):
    """real function vs GENERATED code (the translation of its Python source, run by the second driver zcdrv2) on the
    enumerations built above.  The equality 'generated code = model' is a theorem (Lemmas/CodeEqDatatypes.lean); what this
    stream validates is the translator and the Python primitives of ZCV/Py.lean, i.e. the trusted part of that chain."""
    if not core.ensure_driver2(ctx.tie):
        ctx.notes.append("zcdrv2 (generated code) could not be built: the code-translation tie is broken; other streams unaffected")
        ctx.cov["generated_code_stream"] = "driver unavailable"
        return
    n = 0
    for dt in CODE_DTS:
        inputs = code_inputs.get(dt)
        if not inputs:
            continue
        fn = reg.get(dt)
        ans = core.driver_batch([[Atom("code"), dt, s] for s in inputs], exe=core.DRIVER2)
        for s, a in zip(inputs, ans):
            r = impl_conv(fn, s)
            n += 1
            if r[0] == "exc":
                continue            # reported by the main stream
            if not same(a, r):
                ctx.disagree("generated-code:" + dt, s, [r[0], repr(r[1])], a)
    # the pattern step of ipaddr-or-hostname (IpaddrOrHostname.__call__ itself calls inet_pton and is not translated)
    obj = D.stock_datatypes["ipaddr-or-hostname"]
    inputs = code_inputs.get("ipaddr-or-hostname", [])
    ans = core.driver_batch([[Atom("code"), "ipaddr-or-hostname-rx", s] for s in inputs], exe=core.DRIVER2)
    for s, a in zip(inputs, ans):
        r = impl_conv(lambda v: D.RegularExpressionConversion.__call__(obj, v), s)
        n += 1
        if r[0] != "exc" and not same(a, r):
            ctx.disagree("generated-code:ipaddr-or-hostname-rx", s, [r[0], repr(r[1])], a)
    ctx.evaluations += n
    ctx.cov["generated_code_stream"] = {"datatypes": CODE_DTS + ["ipaddr-or-hostname-rx"], "evaluations": n}


def run(ctx):
    import ZConfig.datatypes as D
    obligations, discharged, names = core.standard_prelude(ctx, ["ZCV.Props.C09"])
    reg = D.Registry()
    cps = util.interesting_codepoints(ctx.rng, not ctx.thorough())
    stock = list(D.stock_datatypes)
    ctx.cov["registry"] = stock
    not_modelled = [n for n in stock if n not in ALPHABETS and n != "boolean"]
    ctx.cov["host_dependent_or_unmodelled"] = not_modelled
    total_reqs = 0
    code_inputs = {}
    for dt in [n for n in stock if n in ALPHABETS]:
        fn = reg.get(dt)
        alpha = ALPHABETS[dt]
        L = LENGTH[ctx.tier].get(dt, LENGTH[ctx.tier]["default"])
        inputs = list(EXTRA.get(dt, []))
        if alpha:
            inputs += list(util.enum_strings(alpha, L))
            # one probe per selected code point in first and in later position
            probe_cps = cps if dt in ("basic-key", "identifier", "dotted-name", "dotted-suffix", "ipaddr-or-hostname", "integer",
                                      "port-number", "byte-size", "time-interval", "boolean", "float") else cps[:2000]
            inputs += [chr(c) for c in probe_cps] + ["a" + chr(c) for c in probe_cps] + ["1" + chr(c) + "1" for c in probe_cps[:3000]]
            if dt in NUMERIC:
                # before and after a literal: the positions where int() / float() skip white space - their own set of it
                lit = {"byte-size": "1kb", "time-interval": "1h", "inet-address": "h:1", "inet-binding-address": "h:1",
                       "inet-connection-address": "h:1", "socket-address": "h:1"}.get(dt, "1")
                inputs += [chr(c) + lit for c in probe_cps] + [lit + chr(c) for c in probe_cps]
                inputs += [" " + chr(c) + lit for c in probe_cps[:3000]] + [lit + chr(c) + " " for c in probe_cps[:3000]]
                if lit != "1":      # between the number and its suffix; between the colon and the port
                    inputs += ["1" + chr(c) + lit[1:] for c in probe_cps[:3000]] if dt in ("byte-size", "time-interval") else \
                        ["h:" + chr(c) + "1" for c in probe_cps[:3000]]
            pool = alpha + "0123456789abcdefXYZ:.-_[]/ kbKBmMgGsShHdD" + ("\x1c\x1d\x1e\x1f\x85\u2028" if dt in NUMERIC else "")
            inputs += ["".join(ctx.rng.choice(pool) for _ in range(ctx.rng.randint(1, 14))) for _ in range(20000 if ctx.thorough() else 1500)]
        # U+0130 and U+03A3 lower-case irregularly; they are outside the model's domain (DESIGN §3) for lower-casing types
        if dt in ("boolean", "byte-size", "time-interval", "inet-address", "inet-binding-address", "inet-connection-address",
                  "socket-address", "socket-binding-address", "socket-connection-address"):
            inputs = [s for s in inputs if "İ" not in s and "Σ" not in s]
        code_inputs[dt] = inputs
        ans = core.driver_batch([[Atom("conv"), dt, s] for s in inputs]) if ctx.driver_ok else [None] * len(inputs)
        total_reqs += len(inputs)
        nviol = 0
        for s, a in zip(inputs, ans):
            r = impl_conv(fn, s)
            ctx.evaluations += 1
            ctx.count("%s:%s" % (dt, r[0] if r[0] != "err" else r[1]))
            if len(s) > 1 or r[0] == "ok":
                ctx.nontriv((dt, s))
            if r[0] == "exc":
                ctx.violate("%s(%r) raised %s: neither a value nor ValueError" % (dt, s, r[1]), {"datatype": dt, "input": s, "impl": r},
                            signature="C09:%s:exc:%s" % (dt, r[1]))
                continue
            if a is None:
                continue
            model, spec = a
            if not same(model, r):
                ctx.disagree(dt, s, [r[0], repr(r[1])], model)
            if spec != "nospec" and not same(spec, r) and nviol < 5:
                nviol += 1
                kind = "rejects-valid" if spec[0] == "ok" and r[0] == "err" else "accepts-invalid" if spec[0] == "err" else "wrong-value"
                cls = ""
                if dt == "ipaddr-or-hostname" and ":" in s:
                    cls = ":ipv6"
                ctx.violate("%s(%r) = %r, the documented contract gives %r" % (dt, s, [r[0], repr(r[1])], spec),
                            {"datatype": dt, "input": s, "impl": [r[0], repr(r[1])], "contract": spec},
                            signature="C09:%s:%s%s" % (dt, kind, cls))
            # key types are idempotent
            if dt in ("basic-key", "identifier", "ipaddr-or-hostname") and r[0] == "ok":
                r2 = impl_conv(fn, r[1])
                if r2 != r:
                    ctx.violate("%s is not idempotent on %r: %r then %r" % (dt, s, r[1], r2), {"datatype": dt, "input": s},
                                signature="C09:%s:idempotence" % dt)
        ctx.sample({"datatype": dt, "input": inputs[len(inputs) // 2], "impl": repr(impl_conv(fn, inputs[len(inputs) // 2]))})
    _code_stream(ctx, D, reg, code_inputs)
    # timedelta: model (ZCV/Model/Timedelta.lean) vs the real function.  The model decides the loop over the parts (which
    # unit receives which float literal, ValueError for a bad amount, TypeError for an unknown unit); what
    # datetime.timedelta then does with the numbers (NaN, infinity, > 999999999 days -> ValueError) is outside it.
    import ZConfig.datatypes as Dm
    td_inputs = EXTRA["float"] + ["4w 2d", "1.5h", "5x", "5", "s", "", "1w1d", "\u0663d", " 2m ", "1e3s", "infs", "nanw", "-1d", "1d 2d",
                                  "1_0s", "1W", "12", "1 w", "2 1x", "1w 2w", "1d\x0c2h", "1e400d", "9999999999d",
                                  "1\x1ch", "\x1c1h", "1h\x1c", "1d\x1c2h", "1\x1fd", "1\x85h", "\x1d", "1w\x1e1d", "1\x1cx", "\x1c1"]
    pool = "0123456789.eE+-_wdhmsWDx \tinfa\x1c\x1f\x85"
    td_inputs += list(util.enum_strings("1.ewdx -\x1c", 4 if not ctx.thorough() else 5))
    td_inputs += ["".join(ctx.rng.choice(pool) for _ in range(ctx.rng.randint(1, 10))) for _ in range(20000 if ctx.thorough() else 2500)]
    td_ans = core.driver_batch([[Atom("timedelta"), s] for s in td_inputs]) if ctx.driver_ok else [None] * len(td_inputs)

    class _Rec:
        """stands for the datetime module inside ZConfig.datatypes while timedelta() runs: records the constructor arguments"""
        def __init__(self, real):
            self.real, self.kw = real, None

        def timedelta(self, **kw):
            self.kw = kw
            return self.real.timedelta(**kw)
    real_dt = Dm.datetime
    # the GENERATED code of timedelta (zcdrv2; float() = the model's acceptance grammar, the constructor accepts everything and
    # reports its arguments): same protocol as the model's answer, compared the same way
    td_code = [None] * len(td_inputs)
    if core.ensure_driver2(ctx.tie):
        td_code = core.driver_batch([[Atom("code"), "timedelta", s] for s in td_inputs], exe=core.DRIVER2)
        ctx.cov.setdefault("generated_code_stream_timedelta", len(td_inputs))

    def eqf(x, y):
        return (isinstance(x, float) and isinstance(y, float) and math.isnan(x) and math.isnan(y)) or x == y

    def compare(stream, s, r, rec, a):
        """a: what the model / the generated code says about the loop over the parts; r, rec: the real run"""
        if a is None:
            return
        if a[0] == "err":
            if not (r[0] == "err" and r[1] == str(a[1])):
                ctx.disagree(stream, s, r[:2] if r[0] == "err" else ["ok"], a)
            return
        # the loop completed: the constructor must have been called with exactly these amounts
        if rec.kw is None:
            ctx.disagree(stream, s, r[:2] if r[0] == "err" else ["ok", "constructor not called"], a)
            return
        want = {}
        for unit, lit in zip(("weeks", "days", "hours", "minutes", "seconds"), a[1]):
            want[unit] = 0 if lit == "none" else float(lit)
        if set(rec.kw) != set(want) or not all(eqf(rec.kw[k], want[k]) for k in want):
            ctx.disagree(stream, s, {k: repr(v) for k, v in rec.kw.items()}, a)
    for s, a, ac in zip(td_inputs, td_ans, td_code):
        rec = _Rec(real_dt)
        Dm.datetime = rec
        try:
            r = impl_conv(Dm.timedelta, s)
        finally:
            Dm.datetime = real_dt
        ctx.evaluations += 1
        ctx.count("timedelta:%s" % (r[0] if r[0] != "err" else r[1]))
        if r[0] == "exc":
            ctx.violate("timedelta(%r) raised %s" % (s, r[1]), {"datatype": "timedelta", "input": s}, signature="C09:timedelta:exc:" + r[1])
            continue
        compare("timedelta", s, r, rec, a)
        compare("generated-code:timedelta", s, r, rec, ac)
    # the six host-dependent datatypes (existing-*, locale behind MemoizedConversion, timedelta through the complete table)
    c09_host.run_host(ctx)
    ctx.cov["exhaustive"] = True
    return core.finish(ctx, obligations, discharged, names, RULE + "; " + c09_host.RULE_HOST,
                       "lake build ZCV.Props.C09 && lake env lean ZCV/Audit/C09.lean",
                       ["inet_pton(AF_INET6) re-implemented after glibc (ZCV/Inet.lean) and compared with socket.inet_pton on every probe",
                        "float: acceptance grammar only (values symbolic); inf/nan are accepted by the code and pinned by the repository's own tests although the documentation excludes them",
                        "host parameters (ZCV/Model/Host.lean): os.path.isdir/isfile/exists/expanduser, locale.setlocale acceptance and the numeric "
                        "verdict of the datetime.timedelta constructor are fields of a Host the theorems quantify over; every run probes the "
                        "real host (scratch tree, HOME, cwd, locales) and evaluates the model on the probed table; os.path.dirname is modelled exactly",
                        "existing-file tests os.path.exists (a directory is accepted; pinned by the repository's test_existing_file) although the "
                        "documentation says 'a file': modelled as the code has it (C09_existingFile_spec / _accepts_directory / _partial)",
                        "U+0130 and U+03A3 (irregular lower-casing) are outside the model's domain"])
