"""C18 — path, URL and file-object entry points reach the same resource, same result"""
import io
import os
import shutil
import tempfile
import urllib.parse
import urllib.request

from .. import cfgrun, core, util
from ..sexp import Atom

RULE = ("(a) all strings up to the tier's length over {a C : / \\ # . f i l e} through isPath / urlnormalize / urljoin / urldefrag "
        "(real code vs model vs spec, and the ZConfig wrappers vs urllib + normal form); (b) real scratch trees of up to 3 "
        "levels with file names over URL-neutral characters (space, '-', '_', '.', '~', '+', '&', ';', '[', ']', non-ASCII), "
        "every current directory inside and outside the tree, the four ways of naming the top resource (absolute path, "
        "relative path, file: URL, named file object) for schemas and configurations, %include / schema src / extends "
        "references relative to the containing resource with decoy files of the same relative name elsewhere, reused loader "
        "objects across chdir; fragments rejected. non-trivial = a load through >= 2 resources; distinct by (layout, cwd, way)")

ALPHA = ["a", "C", ":", "/", "\\", "#", ".", "f", "i", "l", "e"]
NAMECHARS = ["a", "B", "7", " ", "-", "_", ".", "~", "+", "&", ";", "[", "]", "é", "ü", "e\u0301", "u\u0308", "\u4e2d", "\u212b"]   # (precomposed AND decomposed letters: a file name is not normalised)


_used_names = set()


def rand_name(rng, ext):
    """a fresh name (case-insensitively distinct from every name handed out for the current tree)"""
    for _ in range(200):
        n = rng.choice("abXY") + "".join(rng.choice(NAMECHARS) for _ in range(rng.randint(0, 4)))
        n = (n.rstrip(" .") or "x") + ext
        if n.lower() not in _used_names:
            _used_names.add(n.lower())
            return n
    raise RuntimeError("name space exhausted")


def build_tree(rng, root):
    """returns dict describing a schema chain and a config with includes, with decoys"""
    _used_names.clear()
    d1 = rand_name(rng, "")
    d2 = rand_name(rng, "")
    lib = os.path.join(root, d1)
    deep = os.path.join(lib, d2)
    os.makedirs(deep)
    # schemas: top (in root) extends mid (in lib) extends base (in lib/deep); decoy base next to top
    basen, midn, topn = rand_name(rng, ".xml"), rand_name(rng, ".xml"), rand_name(rng, ".xml")

    def w(path, text):
        with open(path, "w", encoding="utf-8") as f:
            f.write(text)
    w(os.path.join(deep, basen), "<schema><key name='who' default='right'/></schema>")
    os.makedirs(os.path.join(root, d2), exist_ok=True)
    w(os.path.join(root, d2, basen), "<schema><key name='who' default='decoy'/></schema>")
    q = urllib.request.pathname2url
    w(os.path.join(lib, midn), "<schema extends=%s><key name='mid' default='m'/></schema>" % _qa(q(d2 + "/" + basen)))
    w(os.path.join(root, topn), "<schema extends=%s><multikey name='k'/><key name='inc'/></schema>" % _qa(q(d1 + "/" + midn)))
    # configuration: main (root) includes a (lib) which includes b (lib/deep); decoys of b's relative name in root
    an, bn, mainn = rand_name(rng, ".conf"), rand_name(rng, ".conf"), rand_name(rng, ".conf")
    w(os.path.join(deep, bn), "k from-b\n")
    w(os.path.join(root, d2, bn), "k DECOY\n")
    w(os.path.join(lib, an), "k from-a\n%include " + q(d2 + "/" + bn) + "\n")
    w(os.path.join(root, mainn), "k from-main\n%include " + q(d1 + "/" + an) + "\ninc done\n")
    # references carrying a fragment identifier, at the top of a chain and one level down: all must be rejected
    fa, fm1, fm2 = rand_name(rng, "-fa.conf"), rand_name(rng, "-f1.conf"), rand_name(rng, "-f2.conf")   # distinct from an / bn / mainn
    w(os.path.join(lib, fa), "k from-fa\n%include " + q(d2 + "/" + bn) + "#part-2\n")
    w(os.path.join(root, fm1), "k from-main\n%include " + q(d1 + "/" + an) + "#sec\ninc done\n")
    w(os.path.join(root, fm2), "k from-main\n%include " + q(d1 + "/" + fa) + "\ninc done\n")
    fs1, fs2, fmid = rand_name(rng, "-s1.xml"), rand_name(rng, "-s2.xml"), rand_name(rng, "-fm.xml")
    w(os.path.join(root, fs1), "<schema extends=%s><multikey name='k'/><key name='inc'/></schema>" % _qa(q(d1 + "/" + midn) + "#x"))
    w(os.path.join(lib, fmid), "<schema><import src=%s/><key name='mid' default='m'/></schema>" % _qa(q(d2 + "/" + basen) + "#types"))
    w(os.path.join(root, fs2), "<schema extends=%s><multikey name='k'/><key name='inc'/></schema>" % _qa(q(d1 + "/" + fmid)))
    # several bases, the fragment on the first, on the last, in the middle: every position must be rejected
    obn = rand_name(rng, "-ob.xml")
    w(os.path.join(root, obn), "<schema><key name='otherbasekey'/></schema>")
    ob2 = rand_name(rng, "-ob2.xml")
    w(os.path.join(root, ob2), "<schema><key name='otherbasekey2'/></schema>")
    multi = []
    for i, ext in enumerate([q(d1 + "/" + midn) + " " + q(obn) + "#x", q(obn) + " " + q(d1 + "/" + midn) + "#x", q(obn) + "#x " + q(d1 + "/" + midn),
                             q(obn) + " " + q(ob2) + "#mid " + q(d1 + "/" + midn)]):
        fsn = rand_name(rng, "-s%d.xml" % (3 + i))
        w(os.path.join(root, fsn), "<schema extends=%s><multikey name='k'/><key name='inc'/></schema>" % _qa(ext))
        multi.append(os.path.join(root, fsn))
    # a schema whose <import src=…> needs percent-escapes (sibling file with a space and a non-ASCII letter in its name)
    tyn = "ty pes \u00e9" + rand_name(rng, ".xml")
    impn = rand_name(rng, "-imp.xml")
    w(os.path.join(lib, tyn), "<schema><sectiontype name='imported'><key name='ik' default='from-import'/></sectiontype></schema>")
    w(os.path.join(lib, impn), "<schema><import src=%s/><section type='imported' name='*' attribute='imp'/></schema>" % _qa(q(tyn)))
    # a configuration reached through a symbolic link: references in it resolve against the NAME it was given by (all
    # four entry points alike), not against the link's target
    store, site = os.path.join(root, "store" + rand_name(rng, "")), os.path.join(root, "site" + rand_name(rng, ""))
    os.makedirs(store)
    os.makedirs(site)
    ln, pn = rand_name(rng, "-l.conf"), rand_name(rng, "-p.conf")
    w(os.path.join(store, "real-" + ln), "k from-linked\n%include " + q(pn) + "\ninc done\n")
    w(os.path.join(store, pn), "k part-next-to-target\n")
    w(os.path.join(site, pn), "k part-next-to-link\n")
    os.symlink(os.path.join(store, "real-" + ln), os.path.join(site, ln))
    return {"schema": os.path.join(root, topn), "config": os.path.join(root, mainn), "dirs": [root, lib, deep, os.path.dirname(root)],
            "expect_k": ["from-main", "from-a", "from-b"],
            "import_schema": os.path.join(lib, impn), "same_rel": (d2 + "/" + basen, d2 + "/" + bn, root, lib),
            "linked_config": os.path.join(site, ln), "linked_expect": ["from-linked", "part-next-to-link", "done"],
            "frag_configs": [os.path.join(root, fm1), os.path.join(root, fm2)],
            "frag_schemas": [os.path.join(root, fs1), os.path.join(root, fs2)] + multi}


def _qa(s):
    from xml.sax.saxutils import quoteattr
    return quoteattr(s)


def ways(path, cwd):
    rel = os.path.relpath(path, cwd)
    return [("abs", path), ("rel", rel), ("url", "file://" + urllib.request.pathname2url(path)), ("fileobj", path), ("fileobj-rel", rel)]


def run(ctx):
    import ZConfig
    import ZConfig.url as zurl
    from ZConfig.loader import BaseLoader, ConfigLoader, SchemaLoader
    obligations, discharged, names = core.standard_prelude(ctx, ["ZCV.Props.C18"])
    maxlen = 7 if ctx.thorough() else 5
    # (a) URL algebra
    strs = list(util.enum_strings(ALPHA, maxlen)) + ["file:/a", "FILE:/a", "File://a", "file:///a", "file:", "file:a", "http://x/y#f", "a#b",
                                                     "c:\\x", "C:/x", "ab:cd", "a:b", "1a:b", "a-b+c.d:e", "a_b:c", ":a", "", "é:a", "aé:b", "a1:"]
    ldr = SchemaLoader()
    ans = core.driver_batch([[Atom("url"), s] for s in strs]) if ctx.driver_ok else [None] * len(strs)
    for s, a in zip(strs, ans):
        ctx.evaluations += 1
        ip = bool(ldr.isPath(s))
        un = zurl.urlnormalize(s)
        if ":" in s or "/" in s:
            ctx.nontriv(s)
        if a is not None:
            mip, sip, mun, nf = a[0] == "t", a[1] == "t", a[2], a[3] == "t"
            if mip != ip or mun != un:
                ctx.disagree("url", s, [ip, un], [mip, mun])
            if sip != ip:
                ctx.violate("isPath(%r) = %r; a scheme of >= 2 characters before the first colon %s" % (s, ip, "is present" if not sip else "is absent"),
                            {"s": s, "impl": ip, "spec": sip}, signature="C18:isPath:%s" % ip)
        lc = un.lower()
        if lc.startswith("file:/") and not lc.startswith("file:///"):
            ctx.violate("urlnormalize(%r) = %r is not in the 'file:///' form" % (s, un), {"s": s, "impl": un}, signature="C18:urlnormalize:form")
        if zurl.urlnormalize(un) != un:
            ctx.violate("urlnormalize is not idempotent on %r" % s, {"s": s}, signature="C18:urlnormalize:idempotent")
        # wrappers against urllib: same join/defrag, then normal form
        try:
            d, frag = zurl.urldefrag(s)
            d0, f0 = urllib.parse.urldefrag(s)
            if frag != f0 or d != zurl.urlnormalize(d0):
                ctx.violate("urldefrag(%r) = %r" % (s, (d, frag)), {"s": s, "impl": [d, frag], "expected": [zurl.urlnormalize(d0), f0]}, signature="C18:urldefrag")
            j = zurl.urljoin("file:///base/dir/x.conf", s)
            j0 = urllib.parse.urljoin("file:///base/dir/x.conf", s)
            if j != j0 and not (j0.startswith("file:/") and not j0.startswith("file:///") and j == "file://" + j0[5:]):
                ctx.violate("urljoin(base, %r) = %r, urllib gives %r" % (s, j, j0), {"s": s, "impl": j, "urllib": j0}, signature="C18:urljoin")
        except ValueError:
            pass
    # (a') the general URL/path model ZCV/Model/UrlPath.lean (quote / unquote / urljoin / urldefrag and the ZConfig.url
    # wrappers) against urllib and ZConfig.url: the exhaustive strings above as references against a file: base, plus
    # random path names over the quantifier's alphabet (space, '#', '%', '?', ';', '[', non-ASCII ...)
    if ctx.driver_ok:
        bases = ["file:///base/dir/x.conf", "file:///b%20c/d/", "file:///x"]
        rnames = []
        pool = NAMECHARS + ["#", "%", "?", "/", "..", ".", "%41", "%zz", "\u00e9", "\u4e2d", ":", "\\"]
        for _ in range(6000 if ctx.thorough() else 1500):
            rnames.append("".join(ctx.rng.choice(pool) for _ in range(ctx.rng.randint(0, 7))))
        probes = [(bases[i % len(bases)], x) for i, x in enumerate(strs[:: (1 if ctx.thorough() else 7)] + rnames)]
        ans2 = core.driver_batch([[Atom("urlpath"), b, x] for b, x in probes])
        import urllib.request as UR
        for (b, x), a in zip(probes, ans2):
            ctx.evaluations += 1
            real = {}
            real["quote"] = UR.pathname2url(x)
            real["unquote"] = UR.url2pathname(x)
            real["pathToUrl"] = "file://" + UR.pathname2url(x)
            real["urlToPath"] = UR.url2pathname(x[7:])
            try:
                real["join"] = urllib.parse.urljoin(b, x)
            except ValueError:
                real["join"] = None
            try:
                d0, f0 = urllib.parse.urldefrag(x)
                real["defragUrl"], real["defragFrag"] = d0, f0
            except ValueError:
                real["defragUrl"] = real["defragFrag"] = None
            try:
                real["zjoin"] = zurl.urljoin(b, x)
            except ValueError:
                real["zjoin"] = None
            real["znormalize"] = zurl.urlnormalize(x)
            try:
                real["zdefragUrl"] = zurl.urldefrag(x)[0]
            except ValueError:
                real["zdefragUrl"] = None
            names_ = ["quote", "unquote", "pathToUrl", "urlToPath", "join", "defragUrl", "defragFrag", "zjoin", "znormalize", "zdefragUrl"]
            model = dict(zip(names_, a[:10]))
            jin, din = a[10] == "t", a[11] == "t"
            for k in names_:
                if real[k] is None:
                    # Python raised: the model's domain predicate must not claim the input
                    if (k in ("join", "zjoin") and jin) or (k in ("defragUrl", "defragFrag", "zdefragUrl") and din):
                        ctx.disagree("urlpath:" + k, [b, x], "ValueError", "in-domain")
                    continue
                if model[k] != real[k]:
                    ctx.disagree("urlpath:" + k, [b, x], real[k], model[k])
        ctx.count("urlpath-probes", len(probes))
    # fragments are rejected by normalizeURL
    for s in ["file:///x/y.conf#frag", "http://h/x#a", "/tmp/zcv-nonexistent.conf#frag", "rel.conf#x"]:
        ctx.evaluations += 1
        try:
            ldr.normalizeURL(s)
            if not ldr.isPath(s):
                ctx.violate("normalizeURL(%r) accepted a fragment identifier" % s, {"s": s}, signature="C18:fragment-accepted")
        except ZConfig.ConfigurationError:
            pass
    # (b) scratch trees
    cwd0 = os.getcwd()
    base = "/dev/shm" if os.path.isdir("/dev/shm") else None
    ntrees = 60 if ctx.thorough() else 10
    for _ in range(ntrees):
        top = tempfile.mkdtemp(prefix="zcv c18-é ", dir=base)
        root = os.path.join(top, "tree" + ctx.rng.choice(["", " x", "~1"]))
        os.makedirs(root)
        try:
            t = build_tree(ctx.rng, root)
            sl_reused = SchemaLoader()
            cl_reused = {}
            results = []
            for cwd in t["dirs"]:
                os.chdir(cwd)
                for way, arg in ways(t["schema"], cwd):
                    ctx.evaluations += 1
                    ctx.nontriv((root, cwd, way, "schema"))
                    try:
                        if way.startswith("fileobj"):
                            with open(arg, encoding="utf-8") as f:
                                schema = ZConfig.loadSchemaFile(f)
                        else:
                            schema = ZConfig.loadSchema(arg)
                        # a loader object reused across chdir must give the same answer
                        if not way.startswith("fileobj"):
                            s2 = SchemaLoader().loadURL(arg) if way != "rel" else sl_reused.__class__().loadURL(arg)
                        who = schema.getinfo("who").getdefault().value
                    except Exception as e:
                        who = "EXC:%s" % type(e).__name__
                    if who != "right":
                        ctx.violate("schema loaded by %s from cwd %r: base schema resolved to %r" % (way, cwd, who),
                                    {"tree": _listing(root), "cwd": cwd, "way": way, "arg": arg, "got": who}, signature="C18:schema:%s:%s" % (way, "exc" if who.startswith("EXC") else "wrong-resource"))
                        continue
                    for cway, carg in ways(t["config"], cwd):
                        ctx.evaluations += 1
                        try:
                            if cway.startswith("fileobj"):
                                with open(carg, encoding="utf-8") as f:
                                    cfg, _ = ZConfig.loadConfigFile(schema, f)
                            elif cway == "rel" and way == "abs":
                                # one long-lived ConfigLoader per tree, used from every cwd
                                key = "cl"
                                if key not in cl_reused:
                                    cl_reused[key] = ConfigLoader(schema)
                                cfg, _ = cl_reused[key].loadURL(carg)
                            else:
                                cfg, _ = ZConfig.loadConfig(schema, carg)
                            got = list(cfg.k) + [cfg.inc]
                        except Exception as e:
                            got = "EXC:%s:%s" % (type(e).__name__, str(e)[:80])
                        if got != t["expect_k"] + ["done"]:
                            ctx.violate("configuration loaded by %s from cwd %r gives %r" % (cway, cwd, got),
                                        {"tree": _listing(root), "cwd": cwd, "way": cway, "arg": carg, "got": got, "expected": t["expect_k"]},
                                        signature="C18:config:%s:%s" % (cway, "exc" if isinstance(got, str) else "wrong-resource"))
            # <import src> with percent-escapes: same schema through all four entry points
            for cwd in t["dirs"]:
                os.chdir(cwd)
                for way, arg in ways(t["import_schema"], cwd):
                    ctx.evaluations += 1
                    ctx.nontriv((root, cwd, way, "import-src"))
                    try:
                        if way.startswith("fileobj"):
                            with open(arg, encoding="utf-8") as f:
                                sc = ZConfig.loadSchemaFile(f)
                        else:
                            sc = ZConfig.loadSchema(arg)
                        got = sc.gettype("imported").getinfo("ik").getdefault().value
                    except Exception as e:
                        got = "EXC:%s:%s" % (type(e).__name__, str(e)[:60])
                    if got != "from-import":
                        ctx.violate("schema with an <import src> needing percent-escapes, loaded by %s from cwd %r: %r" % (way, cwd, got),
                                    {"tree": _listing(root), "cwd": cwd, "way": way, "arg": arg, "got": got},
                                    signature="C18:import-src:%s:%s" % (way, "exc" if got.startswith("EXC") else "wrong-resource"))
            # one loader object, the SAME relative path string from two directories: each time the file below the current directory
            rel_schema, rel_conf, dir_a, dir_b = t["same_rel"]
            sl2 = SchemaLoader()
            sch_k = ZConfig.loadSchemaFile(io.StringIO("<schema><multikey name='k'/></schema>"))
            cl2 = ConfigLoader(sch_k)
            for cwd, who_want, k_want in ((dir_a, "decoy", ["DECOY"]), (dir_b, "right", ["from-b"]), (dir_a, "decoy", ["DECOY"])):
                os.chdir(cwd)
                ctx.evaluations += 1
                try:
                    who = sl2.loadURL(rel_schema).getinfo("who").getdefault().value
                except Exception as e:
                    who = "EXC:%s" % type(e).__name__
                try:
                    kk = list(cl2.loadURL(rel_conf)[0].k)
                except Exception as e:
                    kk = "EXC:%s" % type(e).__name__
                if who != who_want or kk != k_want:
                    ctx.violate("a loader reused after chdir to %r resolved the relative paths %r / %r to %r / %r (expected %r / %r)" % (
                        cwd, rel_schema, rel_conf, who, kk, who_want, k_want),
                        {"tree": _listing(root), "cwd": cwd, "rel": [rel_schema, rel_conf]}, signature="C18:reused-loader:same-relative-path")
                    break
            # the symbolic link: same result through all four entry points
            for cwd in t["dirs"]:
                os.chdir(cwd)
                try:
                    sch0 = ZConfig.loadSchema(t["schema"])
                except Exception as e:
                    ctx.violate("the schema of the tree does not load by its absolute path from %r: %s: %s" % (cwd, type(e).__name__, str(e)[:200]),
                                {"tree": _listing(root), "cwd": cwd, "schema": t["schema"]}, signature="C18:schema-by-path:%s" % type(e).__name__)
                    break
                for cway, carg in ways(t["linked_config"], cwd):
                    ctx.evaluations += 1
                    ctx.nontriv((root, cwd, cway, "symlink"))
                    try:
                        if cway.startswith("fileobj"):
                            with open(carg, encoding="utf-8") as f:
                                cfg, _ = ZConfig.loadConfigFile(sch0, f)
                        else:
                            cfg, _ = ZConfig.loadConfig(sch0, carg)
                        got = list(cfg.k) + [cfg.inc]
                    except Exception as e:
                        got = "EXC:%s:%s" % (type(e).__name__, str(e)[:80])
                    if got != t["linked_expect"]:
                        ctx.violate("configuration named through a symbolic link, loaded by %s from cwd %r, gives %r" % (cway, cwd, got),
                                    {"tree": _listing(root), "cwd": cwd, "way": cway, "arg": carg, "got": got, "expected": t["linked_expect"]},
                                    signature="C18:symlink:%s:%s" % (cway, "exc" if isinstance(got, str) else "wrong-resource"))
            # a reference carrying a fragment identifier is rejected, whichever way the top resource is named
            good_schema = None
            for cwd in t["dirs"]:
                os.chdir(cwd)
                if good_schema is None:
                    good_schema = ZConfig.loadSchema(t["schema"])
                for kind, paths in (("config", t["frag_configs"]), ("schema", t["frag_schemas"])):
                    for pth in paths:
                        for way, arg in ways(pth, cwd):
                            ctx.evaluations += 1
                            ctx.nontriv((root, cwd, way, "fragment", pth))
                            try:
                                if kind == "config":
                                    if way.startswith("fileobj"):
                                        with open(arg, encoding="utf-8") as f:
                                            ZConfig.loadConfigFile(good_schema, f)
                                    else:
                                        ZConfig.loadConfig(good_schema, arg)
                                else:
                                    if way.startswith("fileobj"):
                                        with open(arg, encoding="utf-8") as f:
                                            ZConfig.loadSchemaFile(f)
                                    else:
                                        SchemaLoader().loadURL(arg)
                                got = "accepted"
                            except ZConfig.ConfigurationError:
                                got = "rejected"
                            except Exception as e:
                                got = "EXC:%s" % type(e).__name__
                            ctx.count("fragment-ref:" + got)
                            if got != "rejected":
                                ctx.violate("a %s reference carrying a fragment identifier was %s (top resource named by %s, cwd %r)" % (kind, got, way, cwd),
                                            {"tree": _listing(root), "cwd": cwd, "way": way, "arg": arg, "text": open(pth, encoding="utf-8").read()},
                                            signature="C18:fragment-ref:%s:%s" % (kind, got))
            # reused SchemaLoader across chdir with a relative path
            for cwd in t["dirs"]:
                os.chdir(cwd)
                rel = os.path.relpath(t["schema"], cwd)
                ctx.evaluations += 1
                try:
                    who = sl_reused.loadURL(rel).getinfo("who").getdefault().value
                except Exception as e:
                    who = "EXC:%s" % type(e).__name__
                if who != "right":
                    ctx.violate("a SchemaLoader reused after chdir resolved the relative path %r from %r to %r" % (rel, cwd, who),
                                {"tree": _listing(root), "cwd": cwd, "rel": rel}, signature="C18:reused-loader")
            ctx.sample({"tree": _listing(root)[:8]}, cap=3)
        finally:
            os.chdir(cwd0)
            shutil.rmtree(top, ignore_errors=True)
    ctx.cov["exhaustive"] = True
    ctx.cov["enumeration"] = {"alphabet": ALPHA, "maxlen": maxlen, "strings": len(strs), "trees": ntrees}
    return core.finish(ctx, obligations, discharged, names, RULE,
                       "lake build ZCV.Props.C18 && lake env lean ZCV/Audit/C18.lean",
                       ["the operating system opens the path it is given (cwd, abspath, urlopen's file handler) - not provable, explored on real trees",
                         "urllib.parse.urljoin / urldefrag / pathname2url are trusted standard-library behaviour"])


def _listing(root):
    out = []
    for d, _, fs in os.walk(root):
        for f in fs:
            out.append(os.path.relpath(os.path.join(d, f), root))
    return sorted(out)
