"""C18 — path, URL and file-object entry points reach the same resource, same result"""
import io
import os
import shutil
import tempfile
import urllib.parse
import urllib.request

from .. import cfgrun, core, util
from ..sexp import Atom

RULE = ("(a) all strings up to the tier's length over {a C : / \\ # . f i l e} through isPath / urlnormalize / urljoin / urldefrag "
        "(real code vs model vs spec, and the ZConfig wrappers vs urllib + normal form); (b) real scratch trees of up to 3 "
        "levels with file names over URL-neutral characters (space, '-', '_', '.', '~', '+', '&', ';', '[', ']', non-ASCII), "
        "every current directory inside and outside the tree, the four ways of naming the top resource (absolute path, "
        "relative path, file: URL, named file object) for schemas and configurations, %include / schema src / extends "
        "references relative to the containing resource with decoy files of the same relative name elsewhere, reused loader "
        "objects across chdir; fragments rejected; names with a blank at their very start / very end (after the extension) beside a "
        "neighbour without it, references spelled by pathname2url / literally / mixed / literally with the blanks INSIDE an %include argument "
        "and a src attribute written raw too ('%include conf d/site local.conf' names one file; the resources named by the blank-separated "
        "pieces exist as decoys); names that are special AS A WHOLE to a shell / "
        "a command line / os.path conveniences / a pattern matcher and ordinary here ('~', '~<login name of this machine>', '~+', '-', "
        "'-x', '...', '[]', '[!a]', '&&', every character of the alphabet alone ...) as directory AND as file name, 3 levels deep, "
        "from current directories that make the name the first / a middle / the last segment of the relative path or all of it, 4 entry "
        "points, and as reference targets / as the whole reference; an alphabet sweep: every character at the "
        "start / inside / end of a name and every ordered pair of punctuation characters inside one, as top resource (4 entry "
        "points) and as target of %include / <import src> / extends per spelling. non-trivial = a load through >= 2 resources; distinct by (layout, cwd, way)")

ALPHA = ["a", "C", ":", "/", "\\", "#", ".", "f", "i", "l", "e"]
NAMECHARS = ["a", "B", "7", " ", "-", "_", ".", "~", "+", "&", ";", "[", "]", "é", "ü", "e\u0301", "u\u0308", "\u4e2d", "\u212b"]   # (precomposed AND decomposed letters: a file name is not normalised)


_used_names = set()
FIRSTCHARS = [c for c in NAMECHARS if c != " "]
EDGE = 0.2      # chance of a blank at the very start / at the very end (after the extension) of a random name


def rand_name(rng, ext):
    """a fresh name (case-insensitively distinct from every name handed out for the current tree).  Every character of the
    alphabet may stand anywhere in the name, a blank also at its very start and at its very end, AFTER the extension (a blank
    is an ordinary file-name character: 'app.conf ' and 'app.conf' are two files)"""
    for _ in range(200):
        first = rng.choice("abXY") if rng.random() < 0.75 else rng.choice(FIRSTCHARS)
        n = first + "".join(rng.choice(NAMECHARS) for _ in range(rng.randint(0, 4))) + ext
        if rng.random() < EDGE:
            n = " " + n
        if rng.random() < EDGE:
            n = n + " "
        if n.strip() in ("", ".", ".."):
            continue
        if n.lower() not in _used_names:
            _used_names.add(n.lower())
            return n
    raise RuntimeError("name space exhausted")


REFMODES = ("quoted", "literal", "mixed", "raw-blank")
ROOTNAMES = ["tree", " tree", "tree x", "[tree]", "tree~1", "tree ", "t[1]ree;+&"]      # the root of a scratch tree: seen in every absolute path, and in the relative ones from outside
_UNRESERVED = set("abcdefghijklmnopqrstuvwxyzABCDEFGHIJKLMNOPQRSTUVWXYZ0123456789-_.~")


def spell(path, mode, rng=None, carrier="include"):
    """a relative URL reference that names the relative path `path` (components joined by '/').
    quoted  = urllib's pathname2url (everything but letters, digits and - _ . ~ percent-escaped);
    literal = every character of the alphabet written as it is: these characters have no URL meaning, so the reference
              'part[1].conf' names the file 'part[1].conf'.  Only the blank stays %20: white space belongs to the SYNTAX that
              carries the reference (trimmed around an %include argument and a src attribute, separator inside extends);
    mixed   = per character literal or escaped (now and then also a letter as %41);
    raw-blank = literal, and the blank written as it is too wherever the carrying syntax leaves it alone: INSIDE an %include
              argument and inside a src attribute ('%include site local.conf' names the one file 'site local.conf', 'conf d/x y'
              the file 'x y' in the directory 'conf d').  The blanks at the very start / very end of the reference (trimmed by
              those carriers) and every blank of an extends reference (its separator) stay %20."""
    if mode == "quoted":
        return urllib.request.pathname2url(path)
    lead = len(path) - len(path.lstrip(" "))
    inner_end = len(path.rstrip(" "))
    rawblank = mode == "raw-blank" and carrier != "extends"
    out = []
    for i, ch in enumerate(path):
        if ch == "/":
            out.append(ch)
        elif ch == " ":
            out.append(" " if rawblank and lead <= i < inner_end else "%20")
        elif mode in ("literal", "raw-blank") or rng.random() < (0.9 if ch in _UNRESERVED else 0.5):
            out.append(ch)
        else:
            out.append("".join("%%%02X" % b for b in ch.encode("utf-8")))
    return "".join(out)


def add_piece_decoys(dirpath, ref, text):
    """a reference with blanks written raw names ONE resource; give the resources that its blank-separated pieces would name
    (relative to the directory of the referrer) something else to hold, unless a file or directory of that name is there
    already: a reference taken apart at its blanks then reads other files instead of failing.  Nothing is written outside
    dirpath.  Returns the number of files made."""
    pieces = ref.split()
    made = 0
    if len(pieces) < 2:
        return 0
    for n, pc in enumerate(pieces):
        rel = urllib.request.url2pathname(pc)
        comps = rel.split("/")
        if rel.startswith("/") or rel.endswith("/") or not all(comps) or any(c in (".", "..") for c in comps):
            continue
        q = os.path.join(dirpath, *comps)
        try:
            if not os.path.lexists(q):
                os.makedirs(os.path.dirname(q), exist_ok=True)
                _w(q, text % {"n": n})
                made += 1
        except OSError:
            pass
    return made


PIECE_CONF = "k PIECE-%(n)d\n"
PIECE_SCHEMA = "<schema><sectiontype name='piece-%(n)d'/></schema>"


def build_tree(rng, root, refmode="quoted"):
    """returns dict describing a schema chain and a config with includes, with decoys"""
    _used_names.clear()
    d1 = rand_name(rng, "")
    d2 = rand_name(rng, "")
    lib = os.path.join(root, d1)
    deep = os.path.join(lib, d2)
    os.makedirs(deep)
    # schemas: top (in root) extends mid (in lib) extends base (in lib/deep); decoy base next to top
    basen, midn, topn = rand_name(rng, ".xml"), rand_name(rng, ".xml"), rand_name(rng, ".xml")

    def w(path, text):
        with open(path, "w", encoding="utf-8") as f:
            f.write(text)
    w(os.path.join(deep, basen), "<schema><key name='who' default='right'/></schema>")
    os.makedirs(os.path.join(root, d2), exist_ok=True)
    w(os.path.join(root, d2, basen), "<schema><key name='who' default='decoy'/></schema>")
    def q(relpath):
        return spell(relpath, refmode, rng)
    def qx(relpath):
        return spell(relpath, refmode, rng, "extends")
    w(os.path.join(lib, midn), "<schema extends=%s><key name='mid' default='m'/></schema>" % _qa(qx(d2 + "/" + basen)))
    w(os.path.join(root, topn), "<schema extends=%s><multikey name='k'/><key name='inc'/></schema>" % _qa(qx(d1 + "/" + midn)))
    # configuration: main (root) includes a (lib) which includes b (lib/deep); decoys of b's relative name in root
    an, bn, mainn = rand_name(rng, ".conf"), rand_name(rng, ".conf"), rand_name(rng, ".conf")
    w(os.path.join(deep, bn), "k from-b\n")
    w(os.path.join(root, d2, bn), "k DECOY\n")
    ref_b, ref_a = q(d2 + "/" + bn), q(d1 + "/" + an)
    w(os.path.join(lib, an), "k from-a\n%include " + ref_b + "\n")
    w(os.path.join(root, mainn), "k from-main\n%include " + ref_a + "\ninc done\n")
    # references carrying a fragment identifier, at the top of a chain and one level down: all must be rejected
    fa, fm1, fm2 = rand_name(rng, "-fa.conf"), rand_name(rng, "-f1.conf"), rand_name(rng, "-f2.conf")   # distinct from an / bn / mainn
    w(os.path.join(lib, fa), "k from-fa\n%include " + q(d2 + "/" + bn) + "#part-2\n")
    w(os.path.join(root, fm1), "k from-main\n%include " + q(d1 + "/" + an) + "#sec\ninc done\n")
    w(os.path.join(root, fm2), "k from-main\n%include " + q(d1 + "/" + fa) + "\ninc done\n")
    fs1, fs2, fmid = rand_name(rng, "-s1.xml"), rand_name(rng, "-s2.xml"), rand_name(rng, "-fm.xml")
    w(os.path.join(root, fs1), "<schema extends=%s><multikey name='k'/><key name='inc'/></schema>" % _qa(qx(d1 + "/" + midn) + "#x"))
    w(os.path.join(lib, fmid), "<schema><import src=%s/><key name='mid' default='m'/></schema>" % _qa(q(d2 + "/" + basen) + "#types"))
    w(os.path.join(root, fs2), "<schema extends=%s><multikey name='k'/><key name='inc'/></schema>" % _qa(qx(d1 + "/" + fmid)))
    # several bases, the fragment on the first, on the last, in the middle: every position must be rejected
    obn = rand_name(rng, "-ob.xml")
    w(os.path.join(root, obn), "<schema><key name='otherbasekey'/></schema>")
    ob2 = rand_name(rng, "-ob2.xml")
    w(os.path.join(root, ob2), "<schema><key name='otherbasekey2'/></schema>")
    multi = []
    for i, ext in enumerate([qx(d1 + "/" + midn) + " " + qx(obn) + "#x", qx(obn) + " " + qx(d1 + "/" + midn) + "#x", qx(obn) + "#x " + qx(d1 + "/" + midn),
                             qx(obn) + " " + qx(ob2) + "#mid " + qx(d1 + "/" + midn)]):
        fsn = rand_name(rng, "-s%d.xml" % (3 + i))
        w(os.path.join(root, fsn), "<schema extends=%s><multikey name='k'/><key name='inc'/></schema>" % _qa(ext))
        multi.append(os.path.join(root, fsn))
    # a schema whose <import src=…> needs percent-escapes (sibling file with a space and a non-ASCII letter in its name)
    tyn = "ty pes \u00e9" + rand_name(rng, ".xml")
    impn = rand_name(rng, "-imp.xml")
    w(os.path.join(lib, tyn), "<schema><sectiontype name='imported'><key name='ik' default='from-import'/></sectiontype></schema>")
    ref_ty = q(tyn)
    w(os.path.join(lib, impn), "<schema><import src=%s/><section type='imported' name='*' attribute='imp'/></schema>" % _qa(ref_ty))
    # a configuration reached through a symbolic link: references in it resolve against the NAME it was given by (all
    # four entry points alike), not against the link's target
    store, site = os.path.join(root, "store" + rand_name(rng, "")), os.path.join(root, "site" + rand_name(rng, ""))
    os.makedirs(store)
    os.makedirs(site)
    ln, pn = rand_name(rng, "-l.conf"), rand_name(rng, "-p.conf")
    w(os.path.join(store, "real-" + ln), "k from-linked\n%include " + q(pn) + "\ninc done\n")
    w(os.path.join(store, pn), "k part-next-to-target\n")
    w(os.path.join(site, pn), "k part-next-to-link\n")
    os.symlink(os.path.join(store, "real-" + ln), os.path.join(site, ln))
    # %include / src references with blanks written raw: the resources named by the blank-separated pieces hold something else
    raw_refs = [r for r in (ref_a, ref_b, ref_ty) if " " in r]
    pieces = add_piece_decoys(root, ref_a, PIECE_CONF) + add_piece_decoys(lib, ref_b, PIECE_CONF) + add_piece_decoys(lib, ref_ty, PIECE_SCHEMA)
    return {"raw_blank_refs": len(raw_refs), "piece_decoys": pieces,
            "include_refs": {"spelling": refmode, os.path.relpath(os.path.join(root, mainn), root): "%include " + ref_a,
                             os.path.relpath(os.path.join(lib, an), root): "%include " + ref_b}, "schema": os.path.join(root, topn), "config": os.path.join(root, mainn), "dirs": [root, lib, deep, os.path.dirname(root)],
            "expect_k": ["from-main", "from-a", "from-b"],
            "import_schema": os.path.join(lib, impn), "same_rel": (d2 + "/" + basen, d2 + "/" + bn, root, lib),
            "linked_config": os.path.join(site, ln), "linked_expect": ["from-linked", "part-next-to-link", "done"],
            "frag_configs": [os.path.join(root, fm1), os.path.join(root, fm2)],
            "frag_schemas": [os.path.join(root, fs1), os.path.join(root, fs2)] + multi}


def _qa(s):
    from xml.sax.saxutils import quoteattr
    return quoteattr(s)


POSITIONS = ("start", "middle", "end")
WHERE = {"start": "at the very start of", "middle": "inside", "end": "at the very end of", "pair": "around a digit inside"}
PAIRCHARS = [c for c in NAMECHARS if not c[0].isalnum()] + ["\u00e9"]     # the punctuation of the alphabet and one letter beyond ASCII


def sweep_specs():
    """every character of the alphabet at every position of a name, and every ordered pair of its punctuation characters
    around a digit inside a name ('x[1]y', 'x+1&y', 'x 1 y', ...)"""
    return [((c,), pos) for c in NAMECHARS for pos in POSITIONS] + [((c1, c2), "pair") for c1 in PAIRCHARS for c2 in PAIRCHARS]


def place(chars, pos, stem, ext=""):
    """the name stem+ext with the character at the very start, inside, or at the very end (after the extension); a pair inside"""
    if pos == "start":
        return chars[0] + stem + ext
    if pos == "middle":
        return stem[:1] + chars[0] + stem[1:] + ext
    if pos == "pair":
        return stem[:1] + chars[0] + "1" + chars[1] + stem[1:] + ext
    return stem + ext + chars[0]


def _w(path, text):
    with open(path, "w", encoding="utf-8") as f:
        f.write(text)


def build_sweep(rng, root):
    """the alphabet sweep: for every character of the file-name alphabet and every position in a name (very start, inside,
    very end) one directory named that way, holding files named that way: a configuration and a schema that are loaded as TOP
    resources (each refers to a plainly named sibling: the base against which references are joined is observed too), and a
    leaf configuration / a component / a base schema that are REFERRED TO from plainly named resources in the root, once per
    way of spelling a reference (spell()).  The tag of item i is unique, so what a load returns tells which files it read."""
    items = []
    for i, (c, pos) in enumerate(sweep_specs()):
        tag = "tag%d" % i
        dname = place(c, pos, "sd%d" % i)
        d = os.path.join(root, dname)
        os.makedirs(d)
        it = {"i": i, "char": "".join(c), "position": pos, "tag": tag, "dir": d,
              "conf": place(c, pos, "cf%d" % i, ".conf"), "schema": place(c, pos, "sc%d" % i, ".xml"),
              "leaf": place(c, pos, "lf%d" % i, ".conf"), "comp": place(c, pos, "ty%d" % i, ".xml"), "base": place(c, pos, "bs%d" % i, ".xml")}
        _w(os.path.join(d, it["conf"]), "k %s\n%%include part.conf\n" % tag)
        _w(os.path.join(d, "part.conf"), "inc %s\n" % tag)
        _w(os.path.join(d, it["schema"]), "<schema extends='base.xml'><key name='tag' default='%s'/></schema>" % tag)
        _w(os.path.join(d, "base.xml"), "<schema><key name='who' default='%s'/></schema>" % tag)
        _w(os.path.join(d, it["leaf"]), "k %s\n" % tag)
        _w(os.path.join(d, it["comp"]), "<schema><sectiontype name='ty%d'><key name='ik' default='%s'/></sectiontype></schema>" % (i, tag))
        _w(os.path.join(d, it["base"]), "<schema><key name='bk%d' default='%s'/></schema>" % (i, tag))
        items.append(it)
    # decoys of the plainly named siblings where a reference joined against the wrong base would look for them
    _w(os.path.join(root, "part.conf"), "inc WRONG-BASE\n")
    _w(os.path.join(root, "base.xml"), "<schema><key name='who' default='WRONG-BASE'/></schema>")
    referrers = {}
    for mode in REFMODES:
        refs = {k: [spell(os.path.basename(it["dir"]) + "/" + it[k], mode, rng, CARRIER[k]) for it in items] for k in ("leaf", "comp", "base")}
        referrers[mode] = {"refs": refs, "files": write_referrers(root, "all-" + mode, refs, items)}
    pieces = sum(add_piece_decoys(root, r, PIECE_CONF) for r in referrers["raw-blank"]["refs"]["leaf"]) + \
        sum(add_piece_decoys(root, r, PIECE_SCHEMA) for r in referrers["raw-blank"]["refs"]["comp"])
    return {"items": items, "referrers": referrers, "piece_decoys": pieces}


TARGET = {"include": "leaf", "import-src": "comp", "extends": "base"}
CARRIER = {"leaf": "include", "comp": "import-src", "base": "extends"}


def raw_blanks(refs):
    """how many of the references have a blank written raw"""
    return sum(1 for r in refs if " " in r)


def write_referrers(dirpath, stem, refs, items):
    """three plainly named resources in dirpath that refer to the given items: by %include, by <import src>, by extends"""
    inc, imp, ext = (os.path.join(dirpath, stem + e) for e in ("-inc.conf", "-imp.xml", "-ext.xml"))
    _w(inc, "".join("%%include %s\n" % r for r in refs["leaf"]))
    _w(imp, "<schema>%s</schema>" % "".join("<import src=%s/>" % _qa(r) for r in refs["comp"]))
    _w(ext, "<schema extends=%s/>" % _qa(" ".join(refs["base"])))
    return {"include": inc, "import-src": imp, "extends": ext}


NEIGHBOUR_CONF = "k NEIGHBOUR\ninc NEIGHBOUR\n"
NEIGHBOUR_SCHEMA = "<schema><key name='who' default='NEIGHBOUR'/><key name='tag' default='NEIGHBOUR'/><multikey name='k'/><key name='inc'/></schema>"


def add_neighbours(root):
    """a name with a blank at an end differs from its neighbour without that blank only by that blank: give every such file
    its neighbours (blanks at the ends of all components / of the whole relative path / of the first / of the last component
    removed), holding something else, unless the tree has a file of that name already"""
    made = 0
    for d, _, fs in list(os.walk(root)):
        for f in fs:
            pth = os.path.join(d, f)
            comps = os.path.relpath(pth, root).split(os.sep)
            if os.path.islink(pth) or all(c == c.strip() for c in comps):
                continue
            with open(pth, encoding="utf-8") as fh:
                text = NEIGHBOUR_SCHEMA if fh.read(7) == "<schema" else NEIGHBOUR_CONF
            variants = [[c.strip() for c in comps], os.path.relpath(pth, root).strip().split(os.sep),
                        [comps[0].strip()] + comps[1:], comps[:-1] + [comps[-1].strip()]]
            for v in variants:
                if v == comps or not all(v):
                    continue
                q = os.path.join(root, *v)
                try:
                    if not os.path.lexists(q):
                        os.makedirs(os.path.dirname(q), exist_ok=True)
                        _w(q, text)
                        made += 1
                except OSError:
                    pass
    return made


def _load(ZConfig, kind, way, arg, schema=None):
    """load a schema / a configuration through one of the entry points"""
    if kind == "schema":
        if way.startswith("fileobj"):
            with open(arg, encoding="utf-8") as f:
                return ZConfig.loadSchemaFile(f)
        return ZConfig.loadSchema(arg)
    if way.startswith("fileobj"):
        with open(arg, encoding="utf-8") as f:
            return ZConfig.loadConfigFile(schema, f)[0]
    return ZConfig.loadConfig(schema, arg)[0]


def _exc(e):
    return "EXC:%s:%s" % (type(e).__name__, str(e)[:120])


def _observe_refs(ZConfig, kind, way, arg, items, sch_k):
    """the tags reached through a referrer of the given kind, in the order of items (or the exception)"""
    try:
        if kind == "include":
            return list(_load(ZConfig, "config", way, arg, sch_k).k)
        sc = _load(ZConfig, "schema", way, arg)
        if kind == "import-src":
            return [sc.gettype("ty%d" % it["i"]).getinfo("ik").getdefault().value for it in items]
        return [sc.getinfo("bk%d" % it["i"]).getdefault().value for it in items]
    except Exception as e:
        return _exc(e)


def run_sweep(ctx, ZConfig, root, outside):
    sw = build_sweep(ctx.rng, root)
    ctx.count("sweep:neighbour-files", add_neighbours(root))
    ctx.count("sweep:raw-blank-piece-decoys", sw["piece_decoys"])
    sch_k = ZConfig.loadSchemaFile(io.StringIO("<schema><multikey name='k'/><key name='inc'/></schema>"))
    items = sw["items"]
    # (1) files named that way as TOP resources, through every entry point, from the root / their own directory / outside
    for it in items:
        for kind in ("config", "schema"):
            pth = os.path.join(it["dir"], it["conf" if kind == "config" else "schema"])
            want = [it["tag"], it["tag"]]
            for cwd in (root, it["dir"], outside) if it["position"] != "pair" else (root, it["dir"]):
                os.chdir(cwd)
                for way, arg in ways(pth, cwd):
                    ctx.evaluations += 1
                    ctx.count("sweep:top-resource:" + kind)
                    ctx.nontriv(("sweep", it["i"], kind, cwd == root, cwd == outside, way))
                    try:
                        r = _load(ZConfig, kind, way, arg, sch_k)
                        got = [r.k[0] if len(r.k) == 1 else list(r.k), r.inc] if kind == "config" else \
                              [r.getinfo("tag").getdefault().value, r.getinfo("who").getdefault().value]
                    except Exception as e:
                        got = _exc(e)
                    if got != want:
                        ctx.violate("the %s %r (%r %s the directory's and the file's name), loaded by %s %r from cwd %r: "
                                    "(own content, content of the sibling it refers to) = %r, expected %r" % (
                                        kind, os.path.relpath(pth, root), it["char"], WHERE[it["position"]], way, arg, cwd, got, want),
                                    {"char": it["char"], "position": it["position"], "kind": kind, "file": os.path.relpath(pth, root), "cwd": cwd, "way": way,
                                     "arg": arg, "got": got, "expected": want, "text": open(pth, encoding="utf-8").read(),
                                     "files-nearby": sorted(os.listdir(it["dir"])), "root": root,
                                     "directories-nearby": sorted(x for x in os.listdir(root) if x.strip() == os.path.basename(it["dir"]).strip())},
                                    signature="C18:name-sweep:%s:%s:%s" % (kind, way, "exc" if isinstance(got, str) else "wrong-resource"))
    # (2) files named that way as the TARGET of %include / <import src> / extends, per spelling of the reference
    want = [it["tag"] for it in items]
    for mode in REFMODES:
        ref = sw["referrers"][mode]
        for kind, pth in sorted(ref["files"].items()):
            # (the referrers are plainly named files in the root: every entry point from a directory that is not the root,
            # and the two that depend on the current directory from outside the tree as well)
            for cwd in (items[len(items) // 2]["dir"], outside):
                os.chdir(cwd)
                for way, arg in ways(pth, cwd):
                    if cwd == outside and way not in ("rel", "fileobj-rel"):
                        continue
                    ctx.evaluations += 1
                    ctx.count("sweep:reference:%s:%s" % (kind, mode), len(items))
                    ctx.count("sweep:reference-with-a-raw-blank:" + kind, raw_blanks(ref["refs"][TARGET[kind]]))
                    ctx.nontriv(("sweep-ref", mode, kind, cwd == root, cwd == outside, way))
                    got = _observe_refs(ZConfig, kind, way, arg, items, sch_k)
                    if got == want:
                        continue
                    # which reference is it?  each one alone, from a referrer of its own
                    culprit = None
                    for n, it in enumerate(items):
                        one = {k: [v[n]] for k, v in ref["refs"].items()}
                        single = write_referrers(root, "one-" + mode, one, [it])[kind]
                        g1 = _observe_refs(ZConfig, kind, way, dict(ways(single, cwd))[way], [it], sch_k)
                        if g1 != [it["tag"]]:
                            culprit = {"char": it["char"], "position": it["position"], "reference": one[{"include": "leaf", "import-src": "comp", "extends": "base"}[kind]][0],
                                       "names the file": os.path.relpath(os.path.join(it["dir"], it[{"include": "leaf", "import-src": "comp", "extends": "base"}[kind]]), root),
                                       "referrer": os.path.relpath(single, root), "referrer text": open(single, encoding="utf-8").read(), "got": g1, "expected": [it["tag"]]}
                            break
                    ctx.violate("%s references spelled %s, from a resource loaded by %s from cwd %r, do not reach the files of those names: %s" % (
                        kind, mode, way, cwd, ("%r gives %r" % (culprit["reference"], culprit["got"])) if culprit else repr(got)[:200]),
                        {"kind": kind, "spelling": mode, "cwd": cwd, "way": way, "arg": arg, "root": root, "culprit": culprit,
                         "got": got, "expected": want, "referrer text": open(pth, encoding="utf-8").read()[:4000]},
                        signature="C18:reference-sweep:%s:%s:%s" % (kind, mode, "exc" if isinstance(got, str) else "wrong-resource"))
                    break       # one report per (spelling, kind, cwd)
    return sw


def login_names(rng, extra=2):
    """login names of this machine that are file names over the alphabet: the current user, 'root', and a few others"""
    try:
        import pwd
        every = sorted({p.pw_name for p in pwd.getpwall()} | {pwd.getpwuid(os.getuid()).pw_name})
        me = pwd.getpwuid(os.getuid()).pw_name
    except Exception:
        return []
    every = [n for n in every if n and all(c.isalnum() or c in "-_." for c in n) and n.strip(".")]
    out = [n for n in (me, "root") if n in every]
    rest = [n for n in every if n not in out]
    rng.shuffle(rest)
    return list(dict.fromkeys(out + rest[:extra]))


def whole_names(rng):
    """file names over the alphabet that AS A WHOLE mean something to another layer that handles file names (a shell, a
    command line, os.path's conveniences, a pattern matcher) - and nothing at all to the property: they are ordinary names of
    ordinary files and directories.  (a) the tilde forms of shells / os.path.expanduser: '~', '~<login name>' (login names of
    this machine), '~+', '~-', '~~', '~<no login name>'; (b) every character of the alphabet alone (a blank too);
    (c) names of punctuation only and pattern-like / option-like names: '...', '--', '-x', '[]', '[a]', '[!a]', '&&', ';;', '+'..."""
    tilde = ["~"] + ["~" + n for n in login_names(rng)] + ["~+", "~-", "~~", "~zcv-no-such-login", "~ "]
    single = [c for c in NAMECHARS if c != "."]
    other = ["...", ". .", "--", "-x", "-", "[]", "[a]", "[!a]", "[~]", "&&", ";;", "++", "__", "-~", "~.conf", "~.xml", ".~"]
    return list(dict.fromkeys(tilde + single + other))


def build_whole(rng, root):
    """for every name N of whole_names(): below the plainly named container root/wn
         N/cf.conf, N/sc.xml      a configuration and a schema in a DIRECTORY called N (each refers to a plainly named sibling)
         N/N/N                    a configuration FILE called N, in a directory called N, in a directory called N (3 levels)
         N/s/N                    a schema file called N
         N/lf.conf, ty.xml, bs.xml  targets of %include / <import src> / extends from referrers in the container, per spelling
         N/N/ref-<spelling>.conf  a configuration whose %include argument is N and nothing else
    so that, over the current directories, N is the first, a middle and the last segment of a relative path, and the whole of it."""
    wn = os.path.join(root, "wn")
    os.makedirs(wn)
    items = []
    for i, name in enumerate(whole_names(rng)):
        tag = "wt%d" % i
        d = os.path.join(wn, name)
        dd, ds = os.path.join(d, name), os.path.join(d, "s")
        os.makedirs(dd)
        os.makedirs(ds)
        _w(os.path.join(d, "cf.conf"), "k %s\n%%include part.conf\n" % tag)
        _w(os.path.join(d, "part.conf"), "inc %s\n" % tag)
        _w(os.path.join(d, "sc.xml"), "<schema extends='base.xml'><key name='tag' default='%s'/></schema>" % tag)
        _w(os.path.join(d, "base.xml"), "<schema><key name='who' default='%s'/></schema>" % tag)
        _w(os.path.join(dd, name), "k %sd\n%%include part.conf\n" % tag)
        _w(os.path.join(dd, "part.conf"), "inc %sd\n" % tag)
        _w(os.path.join(ds, name), "<schema extends='base.xml'><key name='tag' default='%ss'/></schema>" % tag)
        _w(os.path.join(ds, "base.xml"), "<schema><key name='who' default='%ss'/></schema>" % tag)
        _w(os.path.join(d, "lf.conf"), "k %s\n" % tag)
        _w(os.path.join(d, "ty.xml"), "<schema><sectiontype name='ty%d'><key name='ik' default='%s'/></sectiontype></schema>" % (i, tag))
        _w(os.path.join(d, "bs.xml"), "<schema><key name='bk%d' default='%s'/></schema>" % (i, tag))
        selfrefs = {}
        for mode in REFMODES:
            selfrefs[mode] = os.path.join(dd, "ref-%s.conf" % mode)
            _w(selfrefs[mode], "k ref\n%%include %s\n" % spell(name, mode, rng))
            if " " in spell(name, "raw-blank"):
                add_piece_decoys(dd, spell(name, "raw-blank"), PIECE_CONF)
        items.append({"i": i, "name": name, "tag": tag, "dir": d, "deep": dd, "sdir": ds, "leaf": "lf.conf", "comp": "ty.xml", "base": "bs.xml",
                      "selfrefs": selfrefs})
    _w(os.path.join(wn, "part.conf"), "inc WRONG-BASE\n")
    _w(os.path.join(wn, "base.xml"), "<schema><key name='who' default='WRONG-BASE'/></schema>")
    referrers = {}
    for mode in REFMODES:
        refs = {k: [spell(it["name"] + "/" + it[k], mode, rng, CARRIER[k]) for it in items] for k in ("leaf", "comp", "base")}
        referrers[mode] = {"refs": refs, "files": write_referrers(wn, "all-" + mode, refs, items)}
    pieces = sum(add_piece_decoys(wn, r, PIECE_CONF) for r in referrers["raw-blank"]["refs"]["leaf"]) + \
        sum(add_piece_decoys(wn, r, PIECE_SCHEMA) for r in referrers["raw-blank"]["refs"]["comp"])
    return {"container": wn, "items": items, "referrers": referrers, "piece_decoys": pieces}


def run_whole(ctx, ZConfig, root, outside):
    """names that are special AS A WHOLE (whole_names) as directory and file names: every entry point, from current directories
    that make the name the first / a middle / the last segment of the relative path, or all of it; and as reference targets"""
    wh = build_whole(ctx.rng, root)
    wn, items = wh["container"], wh["items"]
    sch_k = ZConfig.loadSchemaFile(io.StringIO("<schema><multikey name='k'/><key name='inc'/></schema>"))
    ctx.count("whole-name:names", len(items))
    for it in items:
        d, dd, ds, tag = it["dir"], it["deep"], it["sdir"], it["tag"]
        tops = [("config", os.path.join(d, "cf.conf"), tag, (wn, root, outside, d), "a configuration in the directory"),
                ("schema", os.path.join(d, "sc.xml"), tag, (wn, root, d), "a schema in the directory"),
                ("config", os.path.join(dd, it["name"]), tag + "d", (wn, d, dd), "the configuration file"),
                ("schema", os.path.join(ds, it["name"]), tag + "s", (wn, d, ds), "the schema file")]
        for kind, pth, t, cwds, what in tops:
            want = [t, t]
            for cwd in cwds:
                os.chdir(cwd)
                rel = os.path.relpath(pth, cwd).split(os.sep)
                role = "whole-path" if rel == [it["name"]] else "first-segment" if rel[0] == it["name"] else \
                       "last-segment" if rel[-1] == it["name"] else "middle-segment" if it["name"] in rel else "not-in-relative-path"
                for way, arg in ways(pth, cwd):
                    ctx.evaluations += 1
                    ctx.count("whole-name:top-resource:%s:%s" % (kind, role))
                    ctx.nontriv(("whole", it["i"], kind, role, way, what))
                    try:
                        r = _load(ZConfig, kind, way, arg, sch_k)
                        got = [r.k[0] if len(r.k) == 1 else list(r.k), r.inc] if kind == "config" else \
                              [r.getinfo("tag").getdefault().value, r.getinfo("who").getdefault().value]
                    except Exception as e:
                        got = _exc(e)
                    if got != want:
                        ctx.violate("%s called %r (a name that is special as a whole to shells / path conveniences, and an ordinary name "
                                    "here): %r loaded by %s %r from cwd %r (the name is the %s of the relative path): (own content, "
                                    "content of the sibling it refers to) = %r, expected %r" % (
                                        what, it["name"], os.path.relpath(pth, root), way, arg, cwd, role, got, want),
                                    {"name": it["name"], "kind": kind, "file": os.path.relpath(pth, root), "cwd": cwd, "way": way, "arg": arg,
                                     "role of the name in the relative path": role, "got": got, "expected": want,
                                     "text": open(pth, encoding="utf-8").read(), "root": root, "files-nearby": sorted(os.listdir(os.path.dirname(pth)))},
                                    signature="C18:whole-name:%s:%s:%s" % (kind, way, "exc" if isinstance(got, str) else "wrong-resource"))
        # a reference that is the name and nothing else
        for mode, pth in sorted(it["selfrefs"].items()):
            want = [["ref", it["tag"] + "d"], it["tag"] + "d"]
            for cwd in (wn, dd):
                os.chdir(cwd)
                for way, arg in ways(pth, cwd):
                    # (the referrer itself is named without the name in the path-like entry points that depend on the current
                    # directory: what is observed here is the reference)
                    if way not in (("abs", "url") if cwd == wn else ("rel", "fileobj-rel")):
                        continue
                    ctx.evaluations += 1
                    ctx.count("whole-name:reference-is-the-name:" + mode)
                    if mode == "raw-blank" and " " in spell(it["name"], mode):
                        ctx.count("whole-name:reference-is-the-name:with-a-raw-blank")
                    ctx.nontriv(("whole-selfref", it["i"], mode, cwd == wn, way))
                    try:
                        r = _load(ZConfig, "config", way, arg, sch_k)
                        got = [list(r.k), r.inc]
                    except Exception as e:
                        got = _exc(e)
                    if got != want:
                        ctx.violate("%%include whose argument (spelled %s) is the whole file name %r, from %r loaded by %s from cwd %r: %r, expected %r" % (
                            mode, it["name"], os.path.relpath(pth, root), way, cwd, got, want),
                            {"name": it["name"], "spelling": mode, "file": os.path.relpath(pth, root), "cwd": cwd, "way": way, "arg": arg,
                             "got": got, "expected": want, "text": open(pth, encoding="utf-8").read(), "root": root},
                            signature="C18:whole-name-reference:include:%s:%s" % (mode, "exc" if isinstance(got, str) else "wrong-resource"))
    # directories of those names in %include / <import src> / extends references, per spelling
    want = [it["tag"] for it in items]
    target = TARGET
    for mode in REFMODES:
        ref = wh["referrers"][mode]
        for kind, pth in sorted(ref["files"].items()):
            for cwd in (wn, outside):
                os.chdir(cwd)
                for way, arg in ways(pth, cwd):
                    if cwd == outside and way not in ("rel", "fileobj-rel"):
                        continue
                    ctx.evaluations += 1
                    ctx.count("whole-name:reference:%s:%s" % (kind, mode), len(items))
                    ctx.count("whole-name:reference-with-a-raw-blank:" + kind, raw_blanks(ref["refs"][TARGET[kind]]))
                    ctx.nontriv(("whole-ref", mode, kind, cwd == outside, way))
                    got = _observe_refs(ZConfig, kind, way, arg, items, sch_k)
                    if got == want:
                        continue
                    culprit = None
                    for n, it in enumerate(items):
                        one = {k: [v[n]] for k, v in ref["refs"].items()}
                        single = write_referrers(wn, "one-" + mode, one, [it])[kind]
                        g1 = _observe_refs(ZConfig, kind, way, dict(ways(single, cwd))[way], [it], sch_k)
                        if g1 != [it["tag"]]:
                            culprit = {"name": it["name"], "reference": one[target[kind]][0],
                                       "names the file": os.path.relpath(os.path.join(it["dir"], it[target[kind]]), root),
                                       "referrer": os.path.relpath(single, root), "referrer text": open(single, encoding="utf-8").read(), "got": g1, "expected": [it["tag"]]}
                            break
                    ctx.violate("%s references (spelled %s) into directories with names that are special as a whole, from a resource loaded by %s "
                                "from cwd %r, do not reach the files of those names: %s" % (
                                    kind, mode, way, cwd, ("%r gives %r" % (culprit["reference"], culprit["got"])) if culprit else repr(got)[:200]),
                                {"kind": kind, "spelling": mode, "cwd": cwd, "way": way, "arg": arg, "root": root, "culprit": culprit,
                                 "got": got, "expected": want, "referrer text": open(pth, encoding="utf-8").read()[:4000]},
                                signature="C18:whole-name-reference:%s:%s:%s" % (kind, mode, "exc" if isinstance(got, str) else "wrong-resource"))
                    break
    return wh


def ways(path, cwd):
    rel = os.path.relpath(path, cwd)
    return [("abs", path), ("rel", rel), ("url", "file://" + urllib.request.pathname2url(path)), ("fileobj", path), ("fileobj-rel", rel)]


def _code_stream(ctx, zurl, strs):
    """real ZConfig.url.urlnormalize / urljoin / urldefrag vs the GENERATED code (translation of url.py's source by
    harness/zcv/pytrans.py, run by zcdrv2).  The urllib functions are parameters of the generated code: here they get the
    answer of the REAL urllib on the same arguments (value or exception class), so that this stream validates the translation
    of the wrappers and nothing else (the urllib models are compared with urllib by the 'urlpath' stream)."""
    import urllib.parse
    if not core.ensure_driver2(ctx.tie):
        ctx.notes.append("zcdrv2 (generated code) could not be built: the code-translation tie is broken; other streams unaffected")
        ctx.cov["generated_code_stream"] = "driver unavailable"
        return
    n = 0

    def run_real(f, *a):
        try:
            return ["ok", f(*a)]
        except Exception as e:
            return ["err", type(e).__name__]
    ans = core.driver_batch([[Atom("code"), "urlnormalize", s] for s in strs], exe=core.DRIVER2)
    for s, a in zip(strs, ans):
        n += 1
        if a != ["ok", ["s", zurl.urlnormalize(s)]]:
            ctx.disagree("generated-code:urlnormalize", s, zurl.urlnormalize(s), a)
    bases = ["file:///base/dir/x.conf", "file:/b/c", "FILE:/b/c", "file:", "", "http://h/a/b", "file://host/x", "/plain/path", "file:///x"]
    refs = strs[:: (1 if ctx.thorough() else 5)] + ["http://[x", "//[y", "file:/z", "../../q", "#f", "?q", "file:q", "/abs"]
    reqs, want = [], []
    for i, r in enumerate(refs):
        for b in (bases[i % len(bases)], bases[(i // len(bases)) % len(bases)]):
            given = run_real(urllib.parse.urljoin, b, r)
            reqs.append([Atom("urlwrap"), Atom("urljoin"), b, r, [Atom(given[0]), given[1] if given[0] == "ok" else Atom(given[1])]])
            real = run_real(zurl.urljoin, b, r)
            want.append(["ok", ["s", real[1]]] if real[0] == "ok" else ["err", real[1]])
    for u in refs + [b + "#frag" for b in bases] + ["file:/a#b", "FILE:/a#b#c", "x#", "#"]:
        given = run_real(lambda x: tuple(urllib.parse.urldefrag(x)), u)
        reqs.append([Atom("urlwrap"), Atom("urldefrag"), u, [Atom("ok"), given[1][0], given[1][1]] if given[0] == "ok" else [Atom("err"), Atom(given[1])]])
        real = run_real(lambda x: tuple(zurl.urldefrag(x)), u)
        want.append(["ok", ["tup", ["s", real[1][0]], ["s", real[1][1]]]] if real[0] == "ok" else ["err", real[1]])
    ans = core.driver_batch(reqs, exe=core.DRIVER2)
    for rq, w, a in zip(reqs, want, ans):
        n += 1
        if [a[0], a[1]] != w:
            ctx.disagree("generated-code:" + str(rq[1]), [str(x) for x in rq[2:4]], w, a)
    ctx.evaluations += n
    ctx.cov["generated_code_stream"] = {"functions": ["urlnormalize", "urljoin", "urldefrag"], "evaluations": n}


def run(ctx):
    import ZConfig
    import ZConfig.url as zurl
    from ZConfig.loader import BaseLoader, ConfigLoader, SchemaLoader
    obligations, discharged, names = core.standard_prelude(ctx, ["ZCV.Props.C18"])
    maxlen = 7 if ctx.thorough() else 5
    # (a) URL algebra
    strs = list(util.enum_strings(ALPHA, maxlen)) + ["file:/a", "FILE:/a", "File://a", "file:///a", "file:", "file:a", "http://x/y#f", "a#b",
                                                     "c:\\x", "C:/x", "ab:cd", "a:b", "1a:b", "a-b+c.d:e", "a_b:c", ":a", "", "é:a", "aé:b", "a1:"]
    ldr = SchemaLoader()
    ans = core.driver_batch([[Atom("url"), s] for s in strs]) if ctx.driver_ok else [None] * len(strs)
    for s, a in zip(strs, ans):
        ctx.evaluations += 1
        ip = bool(ldr.isPath(s))
        un = zurl.urlnormalize(s)
        if ":" in s or "/" in s:
            ctx.nontriv(s)
        if a is not None:
            mip, sip, mun, nf = a[0] == "t", a[1] == "t", a[2], a[3] == "t"
            if mip != ip or mun != un:
                ctx.disagree("url", s, [ip, un], [mip, mun])
            if sip != ip:
                ctx.violate("isPath(%r) = %r; a scheme of >= 2 characters before the first colon %s" % (s, ip, "is present" if not sip else "is absent"),
                            {"s": s, "impl": ip, "spec": sip}, signature="C18:isPath:%s" % ip)
        lc = un.lower()
        if lc.startswith("file:/") and not lc.startswith("file:///"):
            ctx.violate("urlnormalize(%r) = %r is not in the 'file:///' form" % (s, un), {"s": s, "impl": un}, signature="C18:urlnormalize:form")
        if zurl.urlnormalize(un) != un:
            ctx.violate("urlnormalize is not idempotent on %r" % s, {"s": s}, signature="C18:urlnormalize:idempotent")
        # wrappers against urllib: same join/defrag, then normal form
        try:
            d, frag = zurl.urldefrag(s)
            d0, f0 = urllib.parse.urldefrag(s)
            if frag != f0 or d != zurl.urlnormalize(d0):
                ctx.violate("urldefrag(%r) = %r" % (s, (d, frag)), {"s": s, "impl": [d, frag], "expected": [zurl.urlnormalize(d0), f0]}, signature="C18:urldefrag")
            j = zurl.urljoin("file:///base/dir/x.conf", s)
            j0 = urllib.parse.urljoin("file:///base/dir/x.conf", s)
            if j != j0 and not (j0.startswith("file:/") and not j0.startswith("file:///") and j == "file://" + j0[5:]):
                ctx.violate("urljoin(base, %r) = %r, urllib gives %r" % (s, j, j0), {"s": s, "impl": j, "urllib": j0}, signature="C18:urljoin")
        except ValueError:
            pass
    # (a') the general URL/path model ZCV/Model/UrlPath.lean (quote / unquote / urljoin / urldefrag and the ZConfig.url
    # wrappers) against urllib and ZConfig.url: the exhaustive strings above as references against a file: base, plus
    # random path names over the quantifier's alphabet (space, '#', '%', '?', ';', '[', non-ASCII ...)
    if ctx.driver_ok:
        bases = ["file:///base/dir/x.conf", "file:///b%20c/d/", "file:///x"]
        rnames = []
        pool = NAMECHARS + ["#", "%", "?", "/", "..", ".", "%41", "%zz", "\u00e9", "\u4e2d", ":", "\\"]
        for _ in range(6000 if ctx.thorough() else 1500):
            rnames.append("".join(ctx.rng.choice(pool) for _ in range(ctx.rng.randint(0, 7))))
        probes = [(bases[i % len(bases)], x) for i, x in enumerate(strs[:: (1 if ctx.thorough() else 7)] + rnames)]
        ans2 = core.driver_batch([[Atom("urlpath"), b, x] for b, x in probes])
        import urllib.request as UR
        for (b, x), a in zip(probes, ans2):
            ctx.evaluations += 1
            real = {}
            real["quote"] = UR.pathname2url(x)
            real["unquote"] = UR.url2pathname(x)
            real["pathToUrl"] = "file://" + UR.pathname2url(x)
            real["urlToPath"] = UR.url2pathname(x[7:])
            try:
                real["join"] = urllib.parse.urljoin(b, x)
            except ValueError:
                real["join"] = None
            try:
                d0, f0 = urllib.parse.urldefrag(x)
                real["defragUrl"], real["defragFrag"] = d0, f0
            except ValueError:
                real["defragUrl"] = real["defragFrag"] = None
            try:
                real["zjoin"] = zurl.urljoin(b, x)
            except ValueError:
                real["zjoin"] = None
            real["znormalize"] = zurl.urlnormalize(x)
            try:
                real["zdefragUrl"] = zurl.urldefrag(x)[0]
            except ValueError:
                real["zdefragUrl"] = None
            names_ = ["quote", "unquote", "pathToUrl", "urlToPath", "join", "defragUrl", "defragFrag", "zjoin", "znormalize", "zdefragUrl"]
            model = dict(zip(names_, a[:10]))
            jin, din = a[10] == "t", a[11] == "t"
            for k in names_:
                if real[k] is None:
                    # Python raised: the model's domain predicate must not claim the input
                    if (k in ("join", "zjoin") and jin) or (k in ("defragUrl", "defragFrag", "zdefragUrl") and din):
                        ctx.disagree("urlpath:" + k, [b, x], "ValueError", "in-domain")
                    continue
                if model[k] != real[k]:
                    ctx.disagree("urlpath:" + k, [b, x], real[k], model[k])
        ctx.count("urlpath-probes", len(probes))
    _code_stream(ctx, zurl, strs)
    # fragments are rejected by normalizeURL
    for s in ["file:///x/y.conf#frag", "http://h/x#a", "/tmp/zcv-nonexistent.conf#frag", "rel.conf#x"]:
        ctx.evaluations += 1
        try:
            ldr.normalizeURL(s)
            if not ldr.isPath(s):
                ctx.violate("normalizeURL(%r) accepted a fragment identifier" % s, {"s": s}, signature="C18:fragment-accepted")
        except ZConfig.ConfigurationError:
            pass
    # (b) scratch trees
    cwd0 = os.getcwd()
    base = "/dev/shm" if os.path.isdir("/dev/shm") else None
    ntrees = 60 if ctx.thorough() else 10
    nsweeps = 12 if ctx.thorough() else 2
    nwhole = 6 if ctx.thorough() else 1
    root0 = ctx.rng.randrange(len(ROOTNAMES))
    for ti in range(ntrees):
        top = tempfile.mkdtemp(prefix="zcv c18-é ", dir=base)
        root = os.path.join(top, ROOTNAMES[(ti + root0) % len(ROOTNAMES)])
        os.makedirs(root)
        try:
            refmode = REFMODES[ti % len(REFMODES)]
            ctx.count("tree:references-" + refmode)
            t = build_tree(ctx.rng, root, refmode)
            ctx.count("tree:references-with-a-raw-blank", t["raw_blank_refs"])
            ctx.count("tree:raw-blank-piece-decoys", t["piece_decoys"])
            if ti < nwhole:
                # names that are special as a whole ('~', '~<login name>', '-', '[]', ...): in the container root/wn
                run_whole(ctx, ZConfig, root, os.path.dirname(root))
            if ti < nsweeps:
                # the alphabet sweep lives in the same root (its directories are named sd<i> with the character added)
                run_sweep(ctx, ZConfig, root, os.path.dirname(root))
            else:
                ctx.count("tree:neighbour-files", add_neighbours(root))
            for pth in (t["schema"], t["config"], t["import_schema"], t["linked_config"]):
                nm = os.path.basename(pth)
                ctx.count("tree:top-resource-name:" + ("blank-at-an-end" if nm != nm.strip() else "no-blank-at-an-end"))
            sl_reused = SchemaLoader()
            cl_reused = {}
            results = []
            for cwd in t["dirs"]:
                os.chdir(cwd)
                for way, arg in ways(t["schema"], cwd):
                    ctx.evaluations += 1
                    ctx.nontriv((root, cwd, way, "schema"))
                    try:
                        if way.startswith("fileobj"):
                            with open(arg, encoding="utf-8") as f:
                                schema = ZConfig.loadSchemaFile(f)
                        else:
                            schema = ZConfig.loadSchema(arg)
                        # a loader object reused across chdir must give the same answer
                        if not way.startswith("fileobj"):
                            s2 = SchemaLoader().loadURL(arg) if way != "rel" else sl_reused.__class__().loadURL(arg)
                        who = schema.getinfo("who").getdefault().value
                    except Exception as e:
                        who = "EXC:%s" % type(e).__name__
                    if who != "right":
                        ctx.violate("schema loaded by %s from cwd %r: base schema resolved to %r" % (way, cwd, who),
                                    {"tree": _listing(root), "cwd": cwd, "way": way, "arg": arg, "got": who}, signature="C18:schema:%s:%s" % (way, "exc" if who.startswith("EXC") else "wrong-resource"))
                        continue
                    for cway, carg in ways(t["config"], cwd):
                        ctx.evaluations += 1
                        try:
                            if cway.startswith("fileobj"):
                                with open(carg, encoding="utf-8") as f:
                                    cfg, _ = ZConfig.loadConfigFile(schema, f)
                            elif cway == "rel" and way == "abs":
                                # one long-lived ConfigLoader per tree, used from every cwd
                                key = "cl"
                                if key not in cl_reused:
                                    cl_reused[key] = ConfigLoader(schema)
                                cfg, _ = cl_reused[key].loadURL(carg)
                            else:
                                cfg, _ = ZConfig.loadConfig(schema, carg)
                            got = list(cfg.k) + [cfg.inc]
                        except Exception as e:
                            got = "EXC:%s:%s" % (type(e).__name__, str(e)[:80])
                        if got != t["expect_k"] + ["done"]:
                            ctx.violate("configuration loaded by %s from cwd %r gives %r" % (cway, cwd, got),
                                        {"tree": _listing(root), "cwd": cwd, "way": cway, "arg": carg, "got": got, "expected": t["expect_k"],
                                         "references": t["include_refs"]},
                                        signature="C18:config:%s:%s" % (cway, "exc" if isinstance(got, str) else "wrong-resource"))
            # <import src> with percent-escapes: same schema through all four entry points
            for cwd in t["dirs"]:
                os.chdir(cwd)
                for way, arg in ways(t["import_schema"], cwd):
                    ctx.evaluations += 1
                    ctx.nontriv((root, cwd, way, "import-src"))
                    try:
                        if way.startswith("fileobj"):
                            with open(arg, encoding="utf-8") as f:
                                sc = ZConfig.loadSchemaFile(f)
                        else:
                            sc = ZConfig.loadSchema(arg)
                        got = sc.gettype("imported").getinfo("ik").getdefault().value
                    except Exception as e:
                        got = "EXC:%s:%s" % (type(e).__name__, str(e)[:60])
                    if got != "from-import":
                        ctx.violate("schema with an <import src> needing percent-escapes, loaded by %s from cwd %r: %r" % (way, cwd, got),
                                    {"tree": _listing(root), "cwd": cwd, "way": way, "arg": arg, "got": got},
                                    signature="C18:import-src:%s:%s" % (way, "exc" if got.startswith("EXC") else "wrong-resource"))
            # one loader object, the SAME relative path string from two directories: each time the file below the current directory
            rel_schema, rel_conf, dir_a, dir_b = t["same_rel"]
            sl2 = SchemaLoader()
            sch_k = ZConfig.loadSchemaFile(io.StringIO("<schema><multikey name='k'/></schema>"))
            cl2 = ConfigLoader(sch_k)
            for cwd, who_want, k_want in ((dir_a, "decoy", ["DECOY"]), (dir_b, "right", ["from-b"]), (dir_a, "decoy", ["DECOY"])):
                os.chdir(cwd)
                ctx.evaluations += 1
                try:
                    who = sl2.loadURL(rel_schema).getinfo("who").getdefault().value
                except Exception as e:
                    who = "EXC:%s" % type(e).__name__
                try:
                    kk = list(cl2.loadURL(rel_conf)[0].k)
                except Exception as e:
                    kk = "EXC:%s" % type(e).__name__
                if who != who_want or kk != k_want:
                    ctx.violate("a loader reused after chdir to %r resolved the relative paths %r / %r to %r / %r (expected %r / %r)" % (
                        cwd, rel_schema, rel_conf, who, kk, who_want, k_want),
                        {"tree": _listing(root), "cwd": cwd, "rel": [rel_schema, rel_conf]}, signature="C18:reused-loader:same-relative-path")
                    break
            # the symbolic link: same result through all four entry points
            for cwd in t["dirs"]:
                os.chdir(cwd)
                try:
                    sch0 = ZConfig.loadSchema(t["schema"])
                except Exception as e:
                    ctx.violate("the schema of the tree does not load by its absolute path from %r: %s: %s" % (cwd, type(e).__name__, str(e)[:200]),
                                {"tree": _listing(root), "cwd": cwd, "schema": t["schema"]}, signature="C18:schema-by-path:%s" % type(e).__name__)
                    break
                for cway, carg in ways(t["linked_config"], cwd):
                    ctx.evaluations += 1
                    ctx.nontriv((root, cwd, cway, "symlink"))
                    try:
                        if cway.startswith("fileobj"):
                            with open(carg, encoding="utf-8") as f:
                                cfg, _ = ZConfig.loadConfigFile(sch0, f)
                        else:
                            cfg, _ = ZConfig.loadConfig(sch0, carg)
                        got = list(cfg.k) + [cfg.inc]
                    except Exception as e:
                        got = "EXC:%s:%s" % (type(e).__name__, str(e)[:80])
                    if got != t["linked_expect"]:
                        ctx.violate("configuration named through a symbolic link, loaded by %s from cwd %r, gives %r" % (cway, cwd, got),
                                    {"tree": _listing(root), "cwd": cwd, "way": cway, "arg": carg, "got": got, "expected": t["linked_expect"]},
                                    signature="C18:symlink:%s:%s" % (cway, "exc" if isinstance(got, str) else "wrong-resource"))
            # a reference carrying a fragment identifier is rejected, whichever way the top resource is named
            good_schema = None
            for cwd in t["dirs"]:
                os.chdir(cwd)
                if good_schema is None:
                    try:
                        good_schema = ZConfig.loadSchema(t["schema"])
                    except Exception as e:
                        ctx.violate("the schema of the tree does not load by its absolute path from %r: %s: %s" % (cwd, type(e).__name__, str(e)[:200]),
                                    {"tree": _listing(root), "cwd": cwd, "schema": t["schema"]}, signature="C18:schema-by-path:%s" % type(e).__name__)
                        break
                for kind, paths in (("config", t["frag_configs"]), ("schema", t["frag_schemas"])):
                    for pth in paths:
                        for way, arg in ways(pth, cwd):
                            ctx.evaluations += 1
                            ctx.nontriv((root, cwd, way, "fragment", pth))
                            try:
                                if kind == "config":
                                    if way.startswith("fileobj"):
                                        with open(arg, encoding="utf-8") as f:
                                            ZConfig.loadConfigFile(good_schema, f)
                                    else:
                                        ZConfig.loadConfig(good_schema, arg)
                                else:
                                    if way.startswith("fileobj"):
                                        with open(arg, encoding="utf-8") as f:
                                            ZConfig.loadSchemaFile(f)
                                    else:
                                        SchemaLoader().loadURL(arg)
                                got = "accepted"
                            except ZConfig.ConfigurationError:
                                got = "rejected"
                            except Exception as e:
                                got = "EXC:%s" % type(e).__name__
                            ctx.count("fragment-ref:" + got)
                            if got != "rejected":
                                ctx.violate("a %s reference carrying a fragment identifier was %s (top resource named by %s, cwd %r)" % (kind, got, way, cwd),
                                            {"tree": _listing(root), "cwd": cwd, "way": way, "arg": arg, "text": open(pth, encoding="utf-8").read()},
                                            signature="C18:fragment-ref:%s:%s" % (kind, got))
            # reused SchemaLoader across chdir with a relative path
            for cwd in t["dirs"]:
                os.chdir(cwd)
                rel = os.path.relpath(t["schema"], cwd)
                ctx.evaluations += 1
                try:
                    who = sl_reused.loadURL(rel).getinfo("who").getdefault().value
                except Exception as e:
                    who = "EXC:%s" % type(e).__name__
                if who != "right":
                    ctx.violate("a SchemaLoader reused after chdir resolved the relative path %r from %r to %r" % (rel, cwd, who),
                                {"tree": _listing(root), "cwd": cwd, "rel": rel}, signature="C18:reused-loader")
            ctx.sample({"tree": _listing(root)[:8]}, cap=3)
        finally:
            os.chdir(cwd0)
            shutil.rmtree(top, ignore_errors=True)
    ctx.cov["exhaustive"] = True
    ctx.cov["enumeration"] = {"alphabet": ALPHA, "maxlen": maxlen, "strings": len(strs), "trees": ntrees}
    return core.finish(ctx, obligations, discharged, names, RULE,
                       "lake build ZCV.Props.C18 && lake env lean ZCV/Audit/C18.lean",
                       ["the operating system opens the path it is given (cwd, abspath, urlopen's file handler) - not provable, explored on real trees",
                         "urllib.parse.urljoin / urldefrag / pathname2url are trusted standard-library behaviour"])


def _listing(root):
    out = []
    for d, _, fs in os.walk(root):
        for f in fs:
            out.append(os.path.relpath(os.path.join(d, f), root))
    return sorted(out)
