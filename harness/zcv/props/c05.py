"""C05 — %define names form one case-insensitive, define-before-use, write-once namespace"""
import io
import itertools

from .. import cfgrun, cfgstream, core, schemafam as F

RULE = ("all sequences up to the tier's length over {define n v, use n, include-of-a-suffix} with 3 names in mixed case "
        "and values {literal, '', '$other', '$$other', '${other}x', '${OTHER}y', ' padded '} plus spellings of them that differ only in letter "
        "case ('Lit', '$$B'), uses written $name and ${Name}, up to 2 include levels; plus the re-definition matrix: every ordered "
        "pair (current value, new value) of those values and their case variants, by literal and through references, second "
        "definition in the same / an included / the including resource, a use before and after it; each run twice "
        "against one schema object; oracle = reference fold of the property statement (expand once with earlier "
        "definitions; redefinition accepted iff expanded value equal); non-trivial = at least one define and one use; "
        "distinct by sequence")

NAMES = ["a", "B", "Ab"]
BASE_VALUES = ["lit", "", "$b", "$$b", "${a}x", "${B}y", "  padded "]


def case_variants(v):
    """spellings of v that differ from it ONLY in the case of letters (a reference name in another case is the SAME
    reference, text in another case is another value: the reference fold decides which)"""
    out = []
    for w in (v.swapcase(), "".join(c.swapcase() if c.isalpha() and not v[:i].strip(" ${") else c for i, c in enumerate(v))):
        if w != v and w not in out:
            out.append(w)
    return out


# the sequences draw from the property's value set plus two near-equal spellings (text and escaped-$ text in another case)
VALUES = BASE_VALUES + ["Lit", "$$B"]
# the re-definition matrix uses every value with all its case variants
NEAR_VALUES = BASE_VALUES + [w for v in BASE_VALUES for w in case_variants(v)]


def ref_subst(defs, s):
    """reference $-substitution restricted to the value forms used here"""
    out = ""
    i = 0
    while i < len(s):
        c = s[i]
        if c != "$":
            out += c
            i += 1
            continue
        if s[i + 1:i + 2] == "$":
            out += "$"
            i += 2
            continue
        if s[i + 1:i + 2] == "{":
            j = s.index("}", i)
            name = s[i + 2:j]
            i = j + 1
        else:
            j = i + 1
            while j < len(s) and (s[j].isalnum() and s[j].isascii() or s[j] == "_"):
                j += 1
            name = s[i + 1:j]
            i = j
        v = defs.get(name.lower())
        if v is None:
            return None
        out += v
    return out


def ref_run(ops):
    """returns ('ok', [values of k]) or ('reject',) following the statement of C05"""
    defs = {}
    vals = []
    for op in flatten(ops):
        if op[0] == "define":
            n = op[1].lower()
            v = ref_subst(defs, op[2].strip())
            if v is None:
                return ("reject",)
            if not (n[:1].isalpha() and n[:1].isascii() or n[:1] == "_") or not all((c.isalnum() and c.isascii()) or c == "_" for c in n):
                return ("reject",)          # not a legal substitution name (the name itself is never $-expanded)
            if n in defs:
                if defs[n] != v:
                    return ("reject",)
            else:
                defs[n] = v
        else:
            v = ref_subst(defs, "$" + op[1])
            if v is None:
                return ("reject",)
            vals.append(v)
    return ("ok", vals)


def flatten(ops):
    for op in ops:
        if op[0] == "include":
            yield from flatten(op[1])
        else:
            yield op


def render(ops, files, prefix="f"):
    lines = []
    for op in ops:
        if op[0] == "define":
            lines.append("%define " + op[1] + (" " + op[2] if op[2] else ""))
        elif op[0] == "use":
            lines.append("k $" + op[1])
        elif op[0] == "useb":
            lines.append("k ${" + op[1] + "}")
        else:
            name = "%s%d.conf" % (prefix, len(files))
            files[name] = None
            files[name] = render(op[1], files, prefix)
            lines.append("%include " + name)
    return lines


def sequences(maxlen, rng, budget):
    atoms = [("define", n, v) for n in NAMES for v in VALUES] + [("use", n) for n in NAMES] + [("useb", n) for n in NAMES] + \
            [("define", "$a", "lit"), ("define", "${B}_z", "lit"), ("define", "a$$", "x"), ("define", "a-b", "x"),
             ("define", "a(b)", "x"), ("define", "a)", "x"), ("define", "B()", "lit"), ("define", "(a", "x")]
    # exhaustive up to length 2, then all sequences of the given length over a reduced atom set, then sampled
    for n in range(1, 3):
        yield from itertools.product(atoms, repeat=n)
    small = [("define", "a", "lit"), ("define", "A", "$$b"), ("define", "a", "$$B"), ("define", "a", "$b"), ("define", "b", "zz"),
             ("define", "B", ""), ("define", "a", "${a}x"), ("define", "Ab", "  padded "), ("use", "a"), ("use", "B"), ("useb", "aB")]
    for n in range(3, maxlen + 1):
        if len(small) ** n <= budget:
            yield from itertools.product(small, repeat=n)
        else:
            for _ in range(budget):
                yield tuple(rng.choice(atoms) for _ in range(n))


PLACEMENTS = ["same-resource", "second-in-included", "first-in-included", "second-two-levels-down"]
SPELLINGS = [("Ab", "ab"), ("ab", "AB"), ("Ab", "Ab")]


def redefinition_matrix(rng, full):
    """the write-once rule on every ordered pair (current value, new value): 'b' is defined as 'lit' or 'Lit' and 'a' as 'q'
    (so that '$b' / '${a}x' reach the values by reference), then a third name is defined with v1, used, defined again (other
    spelling of the name; same, included or including resource) with v2, and used again.  Accepted iff the two EXPANDED
    values are equal; pairs that differ only in letter case, only by a reference or not at all are all in the matrix.
    Yields (ops, class); quick tier: every pair once with placement/spelling/use form drawn, thorough: the full product."""
    for pb in ("lit", "Lit"):
        defs = {"b": pb, "a": "q"}
        prelude = [("define", "b", pb), ("define", "A", "q")]
        for v1 in NEAR_VALUES:
            for v2 in NEAR_VALUES:
                e1, e2 = ref_subst(defs, v1.strip()), ref_subst(defs, v2.strip())
                cls = "equal" if e1 == e2 else "case-only" if e1.lower() == e2.lower() else "different"
                if v1.strip() != v2.strip() and cls == "equal":
                    cls = "equal-by-reference"
                combos = [(p, sp) for p in range(len(PLACEMENTS)) for sp in SPELLINGS] if full else \
                         [(rng.randrange(len(PLACEMENTS)), rng.choice(SPELLINGS))]
                for p, (n1, n2) in combos:
                    u1, u2 = (("use", n2), ("useb", n1)) if rng.random() < 0.5 else (("useb", n2.upper()), ("use", n1.lower()))
                    d1, d2 = ("define", n1, v1), ("define", n2, v2)
                    if p == 0:
                        ops = prelude + [d1, u1, d2, u2]
                    elif p == 1:
                        ops = prelude + [d1, u1, ("include", [d2]), u2]
                    elif p == 2:
                        ops = prelude + [("include", [d1, u1]), d2, u2]
                    else:
                        ops = prelude + [d1, u1, ("include", [("include", [d2, u2])]), u2]
                    yield ops, "%s/%s" % (cls, PLACEMENTS[p])


def with_includes(rng, seq):
    """wrap a random suffix-free run of the sequence into an include (up to 2 levels)"""
    seq = list(seq)
    if len(seq) < 2 or rng.random() < 0.5:
        return seq
    i = rng.randint(0, len(seq) - 1)
    j = rng.randint(i + 1, len(seq))
    inner = seq[i:j]
    if len(inner) >= 2 and rng.random() < 0.4:
        a = rng.randint(0, len(inner) - 1)
        b = rng.randint(a + 1, len(inner))
        inner = inner[:a] + [("include", inner[a:b])] + inner[b:]
    return seq[:i] + [("include", inner)] + seq[j:]


def run(ctx):
    obligations, discharged, names = core.standard_prelude(ctx, ["ZCV.Props.C05"])
    # every name the sequences use also exists as an ENVIRONMENT variable, in every spelling: '$name' / '${name}' must not
    # fall back on it (only '$(NAME)' reads the environment, and no sequence uses that form)
    import os
    saved_env = dict(os.environ)
    for n_ in NAMES:
        for sp in {n_, n_.lower(), n_.upper(), n_.capitalize()}:
            os.environ[sp] = "FROM-ENVIRONMENT"
    try:
        return _run(ctx, obligations, discharged, names)
    finally:
        os.environ.clear()
        os.environ.update(saved_env)


def _run(ctx, obligations, discharged, names):
    sd = F.SchemaD([F.KeyD("k", "string", multi=True)])
    real = F.load_real(sd)
    elab = F.elaborate(sd)
    cfgstream.check_digest(ctx, sd, real, elab)
    maxlen = 6 if ctx.thorough() else 4
    budget = 60000 if ctx.thorough() else 4000
    cases = []
    for seq in sequences(maxlen, ctx.rng, budget):
        ops = with_includes(ctx.rng, seq)
        files = {}
        lines = render(ops, files)
        c = cfgstream.Case()
        c.sd, c.real, c.elab, c.hnames = sd, real, elab, []
        c.lines = lines
        c.files = {"m/" + k: v for k, v in files.items()} if files else None
        c.meta = {"main": "m/main.conf", "ops": ops}
        cases.append(c)
    n_sequences = len(cases)
    for ops, cls in redefinition_matrix(ctx.rng, ctx.thorough()):
        files = {}
        lines = render(ops, files)
        c = cfgstream.Case()
        c.sd, c.real, c.elab, c.hnames = sd, real, elab, []
        c.lines = lines
        c.files = {"m/" + k: v for k, v in files.items()} if files else None
        c.meta = {"main": "m/main.conf", "ops": ops, "class": "redefinition-matrix:" + cls}
        ctx.count("redefinition-matrix:" + cls.split("/")[0])
        cases.append(c)
    cfgstream.evaluate(ctx, cases)
    second = []
    for c in cases:
        exp = ref_run(c.meta["ops"])
        got = ("reject",) if c.out[0] == "cfg" else ("ok", list(c.cfg.k)) if c.out[0] == "ok" else tuple(c.out)
        ctx.count("expected:" + exp[0])
        if any(o[0] == "define" for o in flatten(c.meta["ops"])) and any(o[0] in ("use", "useb") for o in flatten(c.meta["ops"])):
            ctx.nontriv(tuple(c.lines) + tuple(sorted((c.files or {}).items()).__repr__()))
        if c.model is not None:
            m = ("reject",) if c.model[0] == "cfg" else ("ok",) if c.model[0] == "ok" else tuple(c.model[:2])
            if m[0] != got[0]:
                ctx.disagree("define", c.replay(), c.out, c.model[:6])
        if got != exp:
            redefine = sum(1 for o in flatten(c.meta["ops"]) if o[0] == "define") >= 2
            sig = "C05:%s-expected-%s" % (got[0], exp[0])
            if "class" in c.meta:
                sig += "/" + c.meta["class"].split("/")[0]
            ctx.violate("sequence %r%s: loader gives %r, the namespace rules give %r"
                        % (c.lines, " + " + repr(c.files) if c.files else "", got, exp),
                        dict(c.replay(), expected=exp, got=got, **({"class": c.meta["class"]} if "class" in c.meta else {})),
                        signature=sig)
        elif c.out[0] == "ok" and len(second) < 400:
            second.append(c)
    # definitions never carry over: the same text again, same schema object, same result
    cfgstream.evaluate(ctx, second)
    for c in second:
        exp = ref_run(c.meta["ops"])
        got = ("ok", list(c.cfg.k)) if c.out[0] == "ok" else ("reject",)
        if got != exp:
            ctx.violate("second load of %r against the same schema gives %r, first gave %r" % (c.lines, got, exp),
                        c.replay(), signature="C05:carry-over")
    # a use before any definition in a *new* load must fail even right after a load that defined the name
    for n in NAMES:
        a, _, _ = cfgrun.real_load(real, "%%define %s v\nk $%s\n" % (n, n))
        b, _, _ = cfgrun.real_load(real, "k $%s\n" % n)
        ctx.evaluations += 2
        if a[0] != "ok" or b[0] != "cfg":
            ctx.violate("definition of %r survived into the next load" % n, {"name": n, "first": a, "second": b},
                        signature="C05:carry-over")
    ctx.sample({"lines": cases[len(cases) // 2].lines, "files": cases[len(cases) // 2].files,
                "expected": ref_run(cases[len(cases) // 2].meta["ops"])})
    ctx.cov["exhaustive"] = True
    ctx.cov["enumeration"] = {"maxlen": maxlen, "sequences": n_sequences, "redefinition_matrix": len(cases) - n_sequences,
                              "matrix_values": len(NEAR_VALUES)}
    return core.finish(ctx, obligations, discharged, names, RULE,
                       "lake build ZCV.Props.C05 && lake env lean ZCV/Audit/C05.lean",
                       ["reference fold written from the property statement (harness/zcv/props/c05.py ref_run)"])
