"""C16 — the composite handler delivers every handled value exactly once, all or nothing"""
from .. import cfggen, cfgrun, cfgstream, core, schemafam as F

RULE = ("schema family with handler attributes on random subsets of items (schema, keys, multikeys, sections, "
        "multisections, all depths); accepted texts; handler maps complete / incomplete / with None / with case-variant "
        "duplicates; recording callables. Expected entries computed from the value tree and the text by the statement's "
        "post-order rule; loads with '%import' lines AND overrides (ovimport.py): handler log of the override load = that of the hand-edited text = the model's. Configurations with no entry at all (no handler attribute, or handlers only on items the text does "
        "not instantiate): maps with colliding names refused, all others accepted, nothing called. non-trivial = at least one "
        "handler entry, or a colliding map offered to an entry-less configuration; distinct by (schema, text)")

import zcvdt  # noqa: E402

from ..sexp import Atom


def unwrap(v):
    while isinstance(v, zcvdt.Wrapped):
        v = v.inner
    return v


def expected_entries(elab, tyname, items, value):
    """post-order: nested sections in closing (= file) order, then the container's own items in schema order"""
    children, kt = cfggen._children_of(elab, tyname)
    inner = unwrap(value)
    entries = []
    counters = {}
    for it in items:
        if it[0] != "sect":
            continue
        info = cfggen.claiming_child(elab, children, it[1].lower(), it[2].lower() if it[2] else None)
        if info is None:
            raise ValueError("unclaimed section in an accepted text")
        attr = info[2]
        v = getattr(inner, attr)
        if info[3]:
            i = counters.get(attr, 0)
            counters[attr] = i + 1
            v = v[i]
        entries.extend(expected_entries(elab, it[1].lower(), it[3], v))
    for key, info in children:
        h = info[-1]
        if h is not None:
            entries.append((h, getattr(inner, info[2])))
    return entries


def sparse_handler_cases(ctx):
    """'every subset of items' includes the empty subset and small ones: schemas without any handler attribute, and schemas
    with few of them (often only on items of section types that a text does not open) - loads with zero or very few entries"""
    n_s, n_t = (60, 12) if ctx.thorough() else (6, 5)
    out = []
    for ph in (0.0, 0.12):
        cs = cfgstream.gen_cases(ctx, n_s, n_t, handlers=True, nfaults=(0,), systematic=False, phandler=ph)
        ctx.count("sparse-handler-cases:phandler=%s" % ph, len(cs))
        out += cs
    return out


def zero_entry_maps(ctx, c, h):
    """Configurations whose composite handler has NO entry (handler attributes on the empty subset of items, or only on items
    of section types the text never opens): the statement's clauses about the map still hold - two supplied names that
    normalise to the same key are refused with a configuration error, every other map (empty, extra names, None values) is
    accepted, and no callable is ever called. Names: the schema's declared but uninstantiated handler names and free ones."""
    import ZConfig
    rng = ctx.rng
    ctx.count("zero-entry-configurations")
    ctx.count("zero-entry:" + ("handlers-declared-but-not-instantiated" if c.hnames else "no-handler-attribute"))
    pool = sorted({n.lower(): n for n in ["apply", "on-change", "h1", "top-level"] + list(c.hnames)}.values())   # no two collide
    # maps without colliding names (the empty one first): accepted, nothing to deliver
    plain = [[]]
    for _ in range(2):
        picked = rng.sample(pool, rng.randint(1, min(3, len(pool))))
        plain.append([(cfggen._case_variant(rng, n) if rng.random() < 0.5 else n, rng.random() < 0.25) for n in picked])
    for m_items in plain:
        rec = cfgrun.Recorder()
        m = {nm: (None if is_none else rec.fn(nm)) for nm, is_none in m_items}
        ctx.evaluations += 1
        try:
            h(m)
        except Exception as e:
            ctx.violate("a configuration without handler entries refused the handler map %r (no two names collide, no entry is "
                        "unmapped): %s" % (list(m), type(e).__name__), dict(c.replay(), map=list(m), handler_len=0),
                        signature="C16:zero-entries:map-refused")
            continue
        if rec.calls:
            ctx.violate("a configuration without handler entries called %r" % [n for n, _ in rec.calls],
                        dict(c.replay(), map=list(m), handler_len=0), signature="C16:zero-entries:called")
    # case-variant duplicates: both orders, callable and None, with and without the canonical spelling, alone and among others
    dup_maps = []
    for first_none in (False, True):
        dup = rng.choice(pool)
        spell = sorted({dup.lower(), dup.upper(), dup.capitalize(), dup[:-1] + dup[-1].upper(),
                        cfggen._case_variant(rng, dup), cfggen._case_variant(rng, dup)})
        if len(spell) < 2:
            continue
        a_, b_ = rng.sample(spell, 2)
        rec = cfgrun.Recorder()
        m = {a_: None if first_none else rec.fn(a_), b_: rec.fn(b_)}
        for n in pool:
            if n != dup and rng.random() < 0.4:
                m[n] = rec.fn(n)
        keys = list(m)
        rng.shuffle(keys)
        m = {k: m[k] for k in keys}
        dup_maps.append(m)
        ctx.evaluations += 1
        ctx.nontriv(("zero-entries-duplicate", id(c.sd), tuple(c.lines), first_none))
        try:
            h(m)
            ctx.violate("two handler names that normalise to the same key (%r, %r) were accepted by a configuration without "
                        "handler entries" % (a_, b_), dict(c.replay(), map=list(m), handler_len=0),
                        signature="C16:zero-entries:duplicate-accepted")
        except ZConfig.ConfigurationError:
            if rec.calls:
                ctx.violate("handlers were called before the duplicate names were refused", dict(c.replay(), map=list(m)),
                            signature="C16:partial-call")
        except Exception as e:
            ctx.violate("duplicate handler names raised %s" % type(e).__name__, dict(c.replay(), map=list(m)),
                        signature="C16:duplicate-raised")
    # the model of CompositeHandler.__call__ on an empty entry list (driver op hcall): same verdict
    if ctx.driver_ok:
        all_maps = [{nm: (None if is_none else 0) for nm, is_none in mi} for mi in plain] + dup_maps
        reqs = [[Atom("hcall"), [], [[nm, Atom("none") if v is None else i] for i, (nm, v) in enumerate(m.items())]]
                for m in all_maps]
        for m, ans in zip(all_maps, core.driver_batch(reqs)):
            log = []
            mm = {nm: (None if v is None else (lambda value, k=i: log.append(k))) for i, (nm, v) in enumerate(m.items())}
            try:
                h(mm)
                got = ["ok", list(log)]
            except ZConfig.ConfigurationError as e:
                got = ["err", "notunique" if "not unique" in str(e) else "undefined" if "undefined" in str(e) else "other", list(log)]
            except Exception as e:
                got = ["exc", type(e).__name__, list(log)]
            ctx.evaluations += 1
            ctx.count("hcall-zero-entries:" + ":".join(got[:2] if got[0] != "ok" else got[:1]))
            want = ["ok", [int(x) for x in ans[1]]] if ans[0] == "ok" else ["err", str(ans[1]), []]
            if got != want:
                ctx.disagree("handler-call", {"entries": [], "map": [[nm, None if v is None else i] for i, (nm, v) in enumerate(m.items())]},
                             got, [str(x) for x in ans])


def run(ctx):
    import ZConfig
    obligations, discharged, names = core.standard_prelude(ctx, ["ZCV.Props.C16"])
    n_s, n_t = (800, 30) if ctx.thorough() else (90, 16)
    rng = ctx.rng
    cases = cfgstream.gen_cases(ctx, n_s, n_t, handlers=True, nfaults=(0,), systematic=False)
    cases += sparse_handler_cases(ctx)
    cfgstream.evaluate(ctx, cases)
    for c in cases:
        if c.out[0] != "ok":
            ctx.count("not-accepted")
            continue
        try:
            exp = expected_entries(c.elab, None, c.meta["items"], c.cfg)
        except Exception as e:
            ctx.count("reference-failed:" + type(e).__name__)
            continue
        if c.elab[3] is not None:
            exp.append((c.elab[3], c.cfg))
        if exp:
            ctx.nontriv((id(c.sd), tuple(c.lines)))
        ctx.count("entries:%d" % min(len(exp), 10))
        if c.model is not None and c.model[0] == "ok":
            why = cfgrun.compare_load(c.model, c.out, c.cfg, c.handler, c.hnames)
            if why:
                ctx.disagree("handlers", c.replay(), why, "model")
        h = c.handler
        # fresh handler per experiment: reload
        def fresh():
            out, cfg, hh = cfgrun.real_load(c.real, "\n".join(c.lines) + "\n", cfgstream.URL)
            return cfg, hh
        if len(h) != len(exp):
            ctx.violate("len(handler) = %d, %d handler-bearing items are instantiated" % (len(h), len(exp)), c.replay(),
                        signature="C16:len")
            continue
        rec = cfgrun.Recorder()
        names_needed = sorted({n for n, _ in exp})
        try:
            h({cfggen._case_variant(rng, n): rec.fn(n) for n in names_needed})
        except Exception as e:
            ctx.violate("complete handler map raised %s" % type(e).__name__, c.replay(), signature="C16:complete-map-raised")
            continue
        got = rec.calls
        ok = len(got) == len(exp) and all(a[0] == b[0] and (a[1] is b[1] or a[1] == b[1]) for a, b in zip(got, exp))
        # the values handed over must be the ones the tree holds: compare against a reload's own tree by structure
        if not ok:
            ctx.violate("handler calls %r differ from the post-order of handled items %r" % ([g[0] for g in got], [e[0] for e in exp]),
                        dict(c.replay(), got=[(g[0], cfgrun.describe(g[1])) for g in got],
                             expected=[(e[0], cfgrun.describe(e[1])) for e in exp]), signature="C16:order-or-values")
            continue
        if not names_needed:
            zero_entry_maps(ctx, c, h)
            continue
        # None entries are skipped
        rec2 = cfgrun.Recorder()
        skip = rng.choice(names_needed)
        h({n: (None if n == skip else rec2.fn(n)) for n in names_needed})
        exp2 = [e for e in exp if e[0] != skip]
        if [g[0] for g in rec2.calls] != [e[0] for e in exp2]:
            ctx.violate("a handler mapped to None was not simply skipped", c.replay(), signature="C16:none-skip")
        # callables of every kind are called: also objects whose truth value is False (an empty list subclass with
        # __call__, a dispatcher whose __len__ is 0, __bool__ returning False) - only None means "skip"
        rec2b = cfgrun.Recorder()

        class FalsyList(list):
            def __init__(self, fn):
                super().__init__()
                self._fn = fn

            def __call__(self, v):
                return self._fn(v)

        class FalsyBool:
            def __init__(self, fn):
                self._fn = fn

            def __bool__(self):
                return False

            def __call__(self, v):
                return self._fn(v)
        wrappers = [FalsyList, FalsyBool, lambda f: f]
        h({n: wrappers[i % 3](rec2b.fn(n)) for i, n in enumerate(names_needed)})
        if [g[0] for g in rec2b.calls] != [e[0] for e in exp]:
            ctx.violate("a callable whose truth value is False was not called (only None entries may be skipped): called %r, expected %r"
                        % ([g[0] for g in rec2b.calls], [e[0] for e in exp]), c.replay(), signature="C16:falsy-callable-skipped")
        # incomplete map: error, nothing called
        rec3 = cfgrun.Recorder()
        missing = rng.choice(names_needed)
        try:
            h({n: rec3.fn(n) for n in names_needed if n != missing})
            ctx.violate("incomplete handler map accepted (missing %r)" % missing, c.replay(), signature="C16:incomplete-accepted")
        except ZConfig.ConfigurationError:
            if rec3.calls:
                ctx.violate("handlers were called before the incomplete map was refused", c.replay(), signature="C16:partial-call")
        except Exception as e:
            ctx.violate("incomplete handler map raised %s" % type(e).__name__, c.replay(), signature="C16:incomplete-raised")
        # case-variant duplicates (both orders, callable and None)
        for first_none in (False, True):
            rec4 = cfgrun.Recorder()
            m = {}
            dup = rng.choice(names_needed)
            # any two different spellings of one name: with or WITHOUT the canonical (lower-case) one among them
            spell = sorted({dup.lower(), dup.upper(), dup.capitalize(), dup[:-1] + dup[-1].upper(),
                            cfggen._case_variant(rng, dup), cfggen._case_variant(rng, dup)})
            if len(spell) < 2:
                continue
            a_, b_ = rng.sample(spell, 2)
            m[a_] = None if first_none else rec4.fn(dup)
            m[b_] = rec4.fn(dup)
            for n in names_needed:
                if n != dup:
                    m[n] = rec4.fn(n)
            try:
                h(m)
                ctx.violate("two handler names that normalise to the same key were accepted", dict(c.replay(), map=list(m)),
                            signature="C16:duplicate-accepted")
            except ZConfig.ConfigurationError:
                if rec4.calls:
                    ctx.violate("handlers were called before the duplicate names were refused", c.replay(), signature="C16:partial-call")
            except Exception as e:
                ctx.violate("duplicate handler names raised %s" % type(e).__name__, c.replay(), signature="C16:duplicate-raised")
            ctx.evaluations += 1
        # the model of CompositeHandler.__call__ (lean/ZCV/Lemmas/HandlersCall.lean, theorems C16_call_*), driver op hcall:
        # random maps - complete, incomplete, with None, with case variants and duplicates, with a name that is no basic key -
        # same verdict (ok / not unique / undefined / ValueError) and the same sequence of callables called
        if ctx.driver_ok:
            entry_names = [e[0] for e in exp]
            reqs, maps = [], []
            for _ in range(4):
                items = []
                for n in names_needed:
                    k = rng.random()
                    if k < 0.12:
                        continue
                    items.append((cfggen._case_variant(rng, n) if rng.random() < 0.5 else n, None if rng.random() < 0.15 else len(items)))
                    if rng.random() < 0.12:
                        items.append((cfggen._upper(n) if rng.random() < 0.5 else n.capitalize(), len(items)))
                if rng.random() < 0.1:
                    items.append((rng.choice(["not a key", "9x", "", "extra-name"]), len(items)))
                rng.shuffle(items)
                seen, uniq = set(), []
                for nm, k in items:          # a Python dict has distinct keys
                    if nm not in seen:
                        seen.add(nm)
                        uniq.append((nm, k))
                maps.append(uniq)
                reqs.append([Atom("hcall"), entry_names, [[nm, Atom("none") if k is None else k] for nm, k in uniq]])
            for uniq, ans in zip(maps, core.driver_batch(reqs)):
                log = []
                m = {nm: (None if k is None else (lambda v, k=k: log.append(k))) for nm, k in uniq}
                try:
                    h(m)
                    got = ["ok", list(log)]
                except ZConfig.ConfigurationError as e:
                    got = ["err", "notunique" if "not unique" in str(e) else "undefined" if "undefined" in str(e) else "other", list(log)]
                except ValueError:
                    got = ["err", "badname", list(log)]
                except Exception as e:
                    got = ["exc", type(e).__name__, list(log)]
                ctx.evaluations += 1
                ctx.count("hcall:" + ":".join(str(x) for x in got[:2] if not isinstance(x, list)))
                want = ["ok", [int(x) for x in ans[1]]] if ans[0] == "ok" else ["err", str(ans[1]), []]
                if got != want:
                    ctx.disagree("handler-call", {"entries": entry_names, "map": [[nm, k] for nm, k in uniq]}, got, [str(x) for x in ans])
    # the same through command-line overrides: a load with overrides must deliver exactly the handler entries (count,
    # order, values) that the hand-edited text delivers — sections addressed by an override included
    from . import c14
    from .. import ovgen
    n_ov = 0
    for c in cases:
        if c.out[0] != "ok" or not c.hnames or not any(it[0] == "sect" for it in c.meta["items"]):
            continue
        specs = ovgen.gen_overrides(rng, c.elab, c.meta["items"], rng.randint(1, 3), pbadval=0.0, pmissing=0.0, pweird=0.0)
        specs = [s for s in specs if "=" in s and "" not in s.split("=", 1)[0].split("/")
                 and s.split("=", 1)[1] == s.split("=", 1)[1].strip() and "\n" not in s and "/" in s.split("=", 1)[0]]
        if not specs:
            continue
        e = c14.edit(c.elab, c.meta["items"], specs)
        if e is None:
            continue
        oa, ca, ha = cfgrun.real_load(c.real, "\n".join(c.lines) + "\n", cfgstream.URL, specs)
        ob, cb, hb = cfgrun.real_load(c.real, "\n".join(cfggen.render_lines(rng, e, plain=True)) + "\n", cfgstream.URL)
        ctx.evaluations += 1
        if oa[0] != "ok" or ob[0] != "ok":
            continue      # C14's business
        n_ov += 1
        ctx.nontriv((id(c.sd), tuple(c.lines), tuple(specs)))
        logs = []
        for h in (ha, hb):
            rec = cfgrun.Recorder()
            try:
                h({n: rec.fn(n) for n in c.hnames})
                logs.append((len(h), [(n, cfgrun.describe(v)) for n, v in rec.calls]))
            except Exception as ex:
                logs.append((len(h), "EXC:" + type(ex).__name__))
        if logs[0] != logs[1]:
            ctx.violate("with overrides %r the composite handler has %d entries and delivers %r; the hand-edited text gives %d entries and %r"
                        % (specs, logs[0][0], [x[0] for x in logs[0][1]] if isinstance(logs[0][1], list) else logs[0][1],
                           logs[1][0], [x[0] for x in logs[1][1]] if isinstance(logs[1][1], list) else logs[1][1]),
                        dict(c.replay(), overrides=specs, with_overrides=logs[0], edited=logs[1]), signature="C16:overrides-lose-or-change-entries")
    ctx.count("override-loads-compared", n_ov)
    # one ConfigLoader object serving several loads, the first of which uses %import: every load must deliver the same
    # entries (the schema-level handler included) as a fresh loader does
    import io
    from ZConfig.loader import ConfigLoader
    from .. import pkggen, schemafam as F2
    pk = pkggen.PkgRoot()
    try:
        comp = pk.add_component([F2.TypeD("himp", [F2.KeyD("k", "string", handler="on-k")], implements="hab")])
        sch = ZConfig.loadSchemaFile(io.StringIO(
            "<schema handler='top-level'><abstracttype name='hab'/><multisection type='hab' name='*' attribute='items' handler='on-items'/>"
            "<key name='plain' handler='on-plain'/></schema>"))
        texts = ["%%import %s\nplain a\n<himp>\nk v\n</himp>\n" % comp, "plain b\n", "%%import %s\n<himp/>\n<himp x/>\n" % comp, "plain c\n"]
        ld = ConfigLoader(sch)
        hn = ["top-level", "on-items", "on-plain", "on-k"]
        for i, t in enumerate(texts):
            logs = []
            for loader in (ld, ConfigLoader(sch)):
                try:
                    cfg, h = loader.loadFile(io.StringIO(t), cfgstream.URL)
                    rec = cfgrun.Recorder()
                    h({n: rec.fn(n) for n in hn})
                    logs.append((len(h), [n for n, _ in rec.calls]))
                except Exception as e:
                    logs.append(("EXC", type(e).__name__))
            ctx.evaluations += 1
            ctx.nontriv(("reused-loader-handlers", i))
            if logs[0] != logs[1]:
                ctx.violate("load %d through a reused loader delivers %r, through a fresh loader %r" % (i + 1, logs[0], logs[1]),
                            {"texts": texts, "step": i + 1, "reused": logs[0], "fresh": logs[1]}, signature="C16:reused-loader-entries")
                break
    finally:
        pk.close()
    # '%import' lines, overrides and handlers TOGETHER (C16_handlers_postorder_general): the composite handler of the load with
    # overrides = that of the hand-edited text, and = the model's
    from .. import ovimport
    ovimport.run_stream(ctx, "C16")
    ok = [c for c in cases if c.out[0] == "ok"]
    if ok:
        ctx.sample({"lines": ok[0].lines, "handler_len": len(ok[0].handler)})
    return core.finish(ctx, obligations, discharged, names, RULE,
                       "lake build ZCV.Props.C16 && lake env lean ZCV/Audit/C16.lean",
                       ["slot selection for the reference post-order is cfggen.claiming_child, written from the property statement"])
