"""generators and shrinking helpers shared by the property checks"""
import itertools


def enum_strings(alphabet, maxlen, minlen=0):
    for n in range(minlen, maxlen + 1):
        for t in itertools.product(alphabet, repeat=n):
            yield "".join(t)


def shrink_seq(seq, fails_batch, join=None, max_rounds=200):
    """greedy delta-debugging on a sequence (str or list); fails_batch(list of candidates) -> list of bool"""
    cur = seq
    for _ in range(max_rounds):
        n = len(cur)
        if n <= 1:
            break
        cands = []
        size = n // 2
        while size >= 1:
            for i in range(0, n, size):
                cands.append(cur[:i] + cur[i + size:])
            size //= 2
        seen = set()
        uniq = []
        for c in cands:
            k = c if isinstance(c, str) else repr(c)
            if k not in seen and len(c) < n:
                seen.add(k)
                uniq.append(c)
        if not uniq:
            break
        res = fails_batch(uniq)
        nxt = None
        for c, f in zip(uniq, res):
            if f:
                nxt = c
                break
        if nxt is None:
            break
        cur = nxt
    return cur


def interesting_codepoints(rng, quick):
    """all code points below 0x3100 plus a deterministic sample of the rest (quick),
    or every code point except surrogates (thorough)"""
    if not quick:
        return [c for c in range(0x110000) if not 0xD800 <= c <= 0xDFFF]
    base = list(range(0x3100))
    rest = [c for c in range(0x3100, 0x110000) if not 0xD800 <= c <= 0xDFFF]
    return base + rng.sample(rest, 6000)
