"""Cutting balanced line ranges of a configuration text out into %include fragments (C06, C05, C08)."""


def depth_profile(lines):
    """net section-nesting effect of each line as the grammar sees it: +1 open, -1 close, 0 otherwise"""
    out = []
    for l in lines:
        s = l.strip()
        if s.startswith("</"):
            out.append(-1)
        elif s.startswith("<") and s.endswith(">") and not s[1:-1].endswith("/"):
            out.append(+1)
        else:
            out.append(0)
    return out


def balanced_ranges(lines):
    """all (i, j) with i<j such that lines[i:j] never closes what it did not open and leaves nothing open"""
    prof = depth_profile(lines)
    res = []
    n = len(lines)
    for i in range(n):
        d = 0
        for j in range(i, n):
            d += prof[j]
            if d < 0:
                break
            if d == 0:
                res.append((i, j + 1))
    return res


def unbalanced_ranges(lines):
    prof = depth_profile(lines)
    res = []
    n = len(lines)
    for i in range(n):
        d = 0
        low = 0
        for j in range(i, n):
            d += prof[j]
            low = min(low, d)
            if d != 0 or low < 0:
                res.append((i, j + 1))
    return res


def cut(rng, lines, ncuts, main_rel="m/main.conf"):
    """returns (main_lines, files{rel: lines}, placements) cutting up to ncuts balanced ranges (nested allowed)"""
    import posixpath
    files = {}
    docs = {main_rel: list(lines)}
    placements = []
    for k in range(ncuts):
        # choose a document to cut in (main or an earlier fragment => nested includes)
        rel = rng.choice(list(docs))
        body = docs[rel]
        where = rng.choice(["same", "sub", "parent"])
        # a range holding an %include line may only move to the same directory (its argument is relative to its resource)
        ranges = [r for r in balanced_ranges(body)
                  if where == "same" or not any("%include" in l for l in body[r[0]:r[1]])]
        if not ranges:
            continue
        i, j = rng.choice(ranges)
        name = "frag%d%s.conf" % (k, rng.choice(["", " x", "-é"]))
        base = posixpath.dirname(rel)
        # sometimes the fragment's name differs from its includer's ONLY in letter case (distinct resources, distinct URLs)
        twin = posixpath.basename(rel).swapcase()
        if where == "same" and rng.random() < 0.25 and twin != posixpath.basename(rel) and \
                posixpath.normpath(posixpath.join(base, twin)) not in docs:
            name = twin
        if where == "same":
            frel, arg = posixpath.join(base, name), name
        elif where == "sub":
            frel, arg = posixpath.join(base, "sub%d" % k, name), "sub%d/%s" % (k, name)
        else:
            if not base:
                continue
            else:
                frel, arg = posixpath.join(posixpath.dirname(base), name), "../" + name
        frel = posixpath.normpath(frel)
        import urllib.request
        docs[frel] = body[i:j]
        ind = body[i][: len(body[i]) - len(body[i].lstrip())] if i < len(body) else ""
        docs[rel] = body[:i] + [ind + "%include " + urllib.request.pathname2url(arg)] + body[j:]
        placements.append((rel, frel, where, i, j))
    main = docs.pop(main_rel)
    return main, docs, placements


def cut_via_define(rng, lines, main_rel="m/main.conf"):
    """one balanced range moved into a fragment that is included through a %define-d ABSOLUTE directory
    (`%include $zcvd/name`): a definition flowing into the include line.  '@ZCVROOT@' / '@ZCVROOTURL@' stand for the
    scratch directory and are filled in when the case is written out.  Returns (inline, main, files, placements)."""
    import posixpath
    ranges = [r for r in balanced_ranges(lines) if not any("%include" in l for l in lines[r[0]:r[1]])]
    if not ranges:
        return None
    i, j = rng.choice(ranges)
    kind = rng.choice(["define-path", "define-url"])
    # (a directory name with a space only through the URL form: as a bare path the joined reference keeps the raw
    #  space, which names the same file but is a different URL string than the harness' resolve table holds)
    sub = rng.choice(["", "inc d", "x/y"]) if kind == "define-url" else rng.choice(["", "incd", "x/y"])
    base = posixpath.dirname(main_rel)
    fdir = posixpath.join(base, sub) if sub else base
    name = "dfrag%s.conf" % rng.choice(["", " x"])
    import urllib.request
    if kind == "define-path":
        val = "@ZCVROOT@/" + fdir
        arg = rng.choice(["$zcvd/", "${ZCVD}/"]) + urllib.request.pathname2url(name)
    else:
        val = "@ZCVROOTURL@/" + urllib.request.pathname2url(fdir)
        arg = rng.choice(["$zcvd/", "${zcvD}/"]) + urllib.request.pathname2url(name)
    dline = "%define zcvd " + val
    ind = lines[i][: len(lines[i]) - len(lines[i].lstrip())]
    inline = [dline] + list(lines)
    main = [dline] + lines[:i] + [ind + "%include " + arg] + lines[j:]
    files = {posixpath.normpath(posixpath.join(fdir, name)): lines[i:j]}
    return inline, main, files, [(main_rel, list(files)[0], kind, i, j)]


def cut_shared(rng, lines, main_rel="m/main.conf"):
    """the SAME fragment reached twice without any cycle: the balanced range is duplicated in the inline text and both
    copies are replaced by an %include of one resource - directly (twice in one file) or through two wrapper fragments
    that each include it (a diamond).  Returns (inline, main, files, placements)."""
    import posixpath
    ranges = [r for r in balanced_ranges(lines) if not any("%include" in l for l in lines[r[0]:r[1]])]
    if not ranges:
        return None
    i, j = rng.choice(ranges)
    frag = lines[i:j]
    base = posixpath.dirname(main_rel)
    ind = lines[i][: len(lines[i]) - len(lines[i].lstrip())]
    inline = lines[:j] + frag + lines[j:]
    shape = rng.choice(["twice", "diamond", "twice-nested"])
    files = {posixpath.join(base, "shared.conf"): frag}
    if shape == "twice":
        main = lines[:i] + [ind + "%include shared.conf", ind + "%include shared.conf"] + lines[j:]
    elif shape == "diamond":
        files[posixpath.join(base, "w1.conf")] = ["%include shared.conf"]
        files[posixpath.join(base, "sub", "w2.conf")] = ["# second path", "%include ../shared.conf"]
        main = lines[:i] + [ind + "%include w1.conf", ind + "%include sub/w2.conf"] + lines[j:]
    else:
        files[posixpath.join(base, "w1.conf")] = ["%include shared.conf", "%include shared.conf"]
        main = lines[:i] + [ind + "%include w1.conf"] + lines[j:]
    return inline, main, files, [(main_rel, posixpath.join(base, "shared.conf"), "shared-" + shape, i, j)]


def cut_tracked(rng, lines, ncuts, main_rel="m/main.conf"):
    """like cut(), but also returns where every original line went: {original index: (relative path, 1-based line)}"""
    import posixpath
    import urllib.request
    docs = {main_rel: [(i, l) for i, l in enumerate(lines)]}
    placements = []
    for k in range(ncuts):
        rel = rng.choice(list(docs))
        body = docs[rel]
        texts = [t for _, t in body]
        where = rng.choice(["same", "sub", "parent"])
        ranges = [r for r in balanced_ranges(texts)
                  if where == "same" or not any("%include" in l for l in texts[r[0]:r[1]])]
        if not ranges:
            continue
        i, j = rng.choice(ranges)
        name = "tfrag%d%s.conf" % (k, rng.choice(["", " x"]))
        base = posixpath.dirname(rel)
        if where == "same":
            frel, arg = posixpath.join(base, name), name
        elif where == "sub":
            frel, arg = posixpath.join(base, "sub%d" % k, name), "sub%d/%s" % (k, name)
        else:
            if not base:
                continue
            frel, arg = posixpath.join(posixpath.dirname(base), name), "../" + name
        frel = posixpath.normpath(frel)
        docs[frel] = body[i:j]
        ind = texts[i][: len(texts[i]) - len(texts[i].lstrip())]
        docs[rel] = body[:i] + [(None, ind + "%include " + urllib.request.pathname2url(arg))] + body[j:]
        placements.append((rel, frel, where, i, j))
    where_is = {}
    for rel, body in docs.items():
        for n, (idx, _) in enumerate(body):
            if idx is not None:
                where_is[idx] = (rel, n + 1)
    main = [t for _, t in docs.pop(main_rel)]
    return main, {rel: [t for _, t in body] for rel, body in docs.items()}, placements, where_is
