"""Cutting balanced line ranges of a configuration text out into %include fragments (C06, C05, C08)."""


def depth_profile(lines):
    """net section-nesting effect of each line as the grammar sees it: +1 open, -1 close, 0 otherwise"""
    out = []
    for l in lines:
        s = l.strip()
        if s.startswith("</"):
            out.append(-1)
        elif s.startswith("<") and s.endswith(">") and not s[1:-1].endswith("/"):
            out.append(+1)
        else:
            out.append(0)
    return out


def balanced_ranges(lines):
    """all (i, j) with i<j such that lines[i:j] never closes what it did not open and leaves nothing open"""
    prof = depth_profile(lines)
    res = []
    n = len(lines)
    for i in range(n):
        d = 0
        for j in range(i, n):
            d += prof[j]
            if d < 0:
                break
            if d == 0:
                res.append((i, j + 1))
    return res


def unbalanced_ranges(lines):
    prof = depth_profile(lines)
    res = []
    n = len(lines)
    for i in range(n):
        d = 0
        low = 0
        for j in range(i, n):
            d += prof[j]
            low = min(low, d)
            if d != 0 or low < 0:
                res.append((i, j + 1))
    return res


def cut(rng, lines, ncuts, main_rel="m/main.conf"):
    """returns (main_lines, files{rel: lines}, placements) cutting up to ncuts balanced ranges (nested allowed)"""
    import posixpath
    files = {}
    docs = {main_rel: list(lines)}
    placements = []
    for k in range(ncuts):
        # choose a document to cut in (main or an earlier fragment => nested includes)
        rel = rng.choice(list(docs))
        body = docs[rel]
        where = rng.choice(["same", "sub", "parent"])
        # a range holding an %include line may only move to the same directory (its argument is relative to its resource)
        ranges = [r for r in balanced_ranges(body)
                  if where == "same" or not any("%include" in l for l in body[r[0]:r[1]])]
        if not ranges:
            continue
        i, j = rng.choice(ranges)
        name = "frag%d%s.conf" % (k, rng.choice(["", " x", "-é"]))
        base = posixpath.dirname(rel)
        if where == "same":
            frel, arg = posixpath.join(base, name), name
        elif where == "sub":
            frel, arg = posixpath.join(base, "sub%d" % k, name), "sub%d/%s" % (k, name)
        else:
            if not base:
                continue
            else:
                frel, arg = posixpath.join(posixpath.dirname(base), name), "../" + name
        frel = posixpath.normpath(frel)
        import urllib.request
        docs[frel] = body[i:j]
        ind = body[i][: len(body[i]) - len(body[i].lstrip())] if i < len(body) else ""
        docs[rel] = body[:i] + [ind + "%include " + urllib.request.pathname2url(arg)] + body[j:]
        placements.append((rel, frel, where, i, j))
    main = docs.pop(main_rel)
    return main, docs, placements
