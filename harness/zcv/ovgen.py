"""Override-specifier generators (C07, C14) over an item tree produced by cfggen.gen_items"""
from . import cfggen


def kv_paths(items, prefix=()):
    """all (path-of-sections, kv item, container type) in the tree; a path element is the section item"""
    out = []
    for it in items:
        if it[0] == "kv":
            out.append((prefix, it))
        elif it[0] == "sect":
            out.extend(kv_paths(it[3], prefix + (it,)))
    return out


def sect_paths(items, prefix=()):
    out = []
    for it in items:
        if it[0] == "sect":
            out.append(prefix + (it,))
            out.extend(sect_paths(it[3], prefix + (it,)))
    return out


def component(rng, sect):
    """address a section by name or by type, in mixed case"""
    ty, nm = sect[1], sect[2]
    c = nm if (nm and rng.random() < 0.6) else ty
    return cfggen._case_variant(rng, c) if rng.random() < 0.4 else c


def gen_overrides(rng, elab, items, n, pbadval=0.25, pmissing=0.2, pweird=0.1):
    specs = []
    kvs = kv_paths(items)
    sps = sect_paths(items)
    for _ in range(n):
        r = rng.random()
        if r < pweird:
            specs.append(rng.choice(["novalue", "a//b=1", "/a=1", "a/=1", "=1", "a b=1", "1abc/k=3", "-x=1", "a/1abc=2",
                                     "x/y/z/w=1", "é=1", "a=", "A.B=c=d"]))
            continue
        if r < pweird + pmissing:
            # missing section or missing key
            if sps and rng.random() < 0.5:
                p = rng.choice(sps)
                comps = [component(rng, s) for s in p]
                if rng.random() < 0.5:
                    comps[-1] = "nosuchsect"
                specs.append("/".join(comps + ["nosuchkey"]) + "=v")
            else:
                specs.append(rng.choice(["nosuchkey=v", "nosuchsect/k=v"]))
            continue
        if not kvs:
            specs.append("nosuchkey=v")
            continue
        path, k = rng.choice(kvs)
        cont = path[-1][1].lower() if path else None
        children, kt = cfggen._children_of(elab, cont)
        dt = None
        for key, info in children or []:
            if info[0] == "key" and (info[1] == cfggen._norm(kt or "basic-key", k[1])):
                dt = info[5]
        if dt is None:
            for key, info in children or []:
                if info[0] == "key" and info[1] == "+":
                    dt = info[5]
        if dt is None:
            dt = "string"
        if rng.random() < pbadval and dt in cfggen.BAD:
            val = rng.choice(cfggen.BAD[dt])
        else:
            val = rng.choice(cfggen.GOOD.get(dt, ["x"]))
        key = cfggen._maybe_case(rng, kt or "basic-key", k[1])
        specs.append("/".join([component(rng, s) for s in path] + [key]) + "=" + val)
    return specs
