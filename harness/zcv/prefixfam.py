"""The generated family of PREFIXED schemas (C11): dotted-name prefixes on <schema>, <sectiontype> and <component>
(absolute and relative, composing outward) TOGETHER WITH the other composition features - sectiontype `extends` (chains,
bases defined under another prefix than the place where the derived type is written, bases imported from a component
with its own prefix) and component imports (package named absolutely or relative to the prefix in force).

A document is described abstractly (PDoc); three renderings are produced from the description:

  composed      as written: prefix attributes, relative names ('.up', '.sub.up'), <import package=…>, extends
  expanded      what the property says it means: every relative name replaced by  nearest enclosing prefix + name  (the
                prefix of an element = its own prefix attribute if absolute, the enclosing element's prefix + its own if
                relative, the enclosing element's if it has none; a component starts afresh), no prefix attributes, the types
                of each imported component written in place once; `extends` kept
  inlined       `expanded` with every `extends` written out as well (base keys first, key type / datatype inherited
                unless overridden)

The datatype packages the names point to are written by `make_dt_packages`: every module has the same function NAMES with
module-specific BEHAVIOUR (the converted value carries the module's dotted name), so resolving a name against the wrong
prefix changes the value tree of some text."""
from xml.sax.saxutils import escape, quoteattr

import os

DT_MODULE = '''
def up(v):
    return "%(n)s:" + v.upper()

def low(v):
    if v != v.lower():
        raise ValueError("%(n)s.low wants lower case")
    return "%(n)s;" + v

def kt(v):
    return v.lower().replace("-", "_%(i)d_")

def wrapsect(s):
    return ("%(n)s", [getattr(s, a) for a in s.getSectionAttributes()])
'''

ONLY = '''
def only(v):
    return "%(n)s!" + v
'''


def make_dt_packages(root, stem):
    """stem, stem.sub, stem.sub.deep, stem+'other': each with up()/low()/kt()/wrapsect() tagged by the module's dotted name;
    only() exists in stem.sub and stem+'other' alone.  Returns {module: set of function names}"""
    names = [stem, stem + ".sub", stem + ".sub.deep", stem + "other"]
    have = {}
    for i, n in enumerate(names):
        d = os.path.join(root, *n.split("."))
        os.makedirs(d, exist_ok=True)
        body = DT_MODULE % {"n": n, "i": i}
        have[n] = {"up", "low", "kt", "wrapsect"}
        if n.endswith(".sub") or n.endswith("other"):
            body += ONLY % {"n": n}
            have[n].add("only")
        with open(os.path.join(d, "__init__.py"), "w") as f:
            f.write(body)
    return have


# ------------------------------------------------------------------ descriptions
class PKey:
    def __init__(self, name, dt=None, default=None, multi=False, attr=None):
        self.name, self.dt, self.default, self.multi, self.attr = name, dt, default, multi, attr


class PType:
    def __init__(self, name, prefix=None, extends=None, datatype=None, keytype=None, keys=()):
        self.name, self.prefix, self.extends, self.datatype, self.keytype = name, prefix, extends, datatype, keytype
        self.keys = list(keys)


class PComp:
    def __init__(self, pkg, file, prefix, types):
        self.pkg, self.file, self.prefix, self.types = pkg, file, prefix, list(types)
        self.imports = []      # [(package as written, PComp)]: components this component imports itself (before its types)
        self.decoys = []       # packages holding a DIFFERENT component under the same file name (see decoy_packages)


class PDoc:
    def __init__(self, prefix=None):
        self.prefix = prefix
        self.imports = []      # [(package as written, PComp)]  (the same PComp may be imported more than once)
        self.types = []
        self.sects = []        # [(type name, attribute)]
        self.keys = []


def compose(eff, p):
    """effective prefix of an element with prefix attribute p inside an element whose effective prefix is eff"""
    if not p:
        return eff
    return eff + p if p.startswith(".") else p


def resolve(eff, name):
    """the property's reading of a datatype / package name written under effective prefix eff"""
    if name is not None and name.startswith("."):
        return eff + name
    return name


def all_components(doc):
    """every component reachable from the document (through the imports of components too), each once, in the order the
    property says their types are defined: a component's own imports before its types"""
    out, seen = [], set()

    def visit(c):
        if id(c) in seen:
            return
        seen.add(id(c))
        for _, c2 in c.imports:
            visit(c2)
        out.append(c)
    for _, c in doc.imports:
        visit(c)
    return out


def decoy_packages(root, mods, right, written):
    """the packages a component import could be taken for by a loader that resolves the name differently from 'nearest
    enclosing prefix + name': the other packages of the tree, and - for a name written relative to the prefix - that name
    under every OTHER package of the tree (created here, empty, when they do not exist).  Returns their names."""
    out = [m for m in mods if m != right]
    if written.startswith("."):
        for m in mods:
            q = m + written
            if q != right and q not in out:
                d = root
                for part in q.split("."):
                    d = os.path.join(d, part)
                    if not os.path.isdir(d):
                        os.makedirs(d)
                    if not os.path.exists(os.path.join(d, "__init__.py")):
                        with open(os.path.join(d, "__init__.py"), "w") as f:
                            f.write("# decoy package\n")
                out.append(q)
    return out


# ------------------------------------------------------------------ generation
class Gen:
    def __init__(self, rng, have, serial):
        self.rng, self.have, self.serial = rng, have, serial
        self.mods = list(have)
        self.nk = 0
        self.nt = 0
        self.info = {}       # type name -> {"userkt": bool, "wild": bool, "eff": prefix it was defined under}
        self.stats = {}

    def stat(self, k):
        self.stats[k] = self.stats.get(k, 0) + 1

    def pick_prefix(self, eff, lean_none):
        """a prefix attribute for an element written under eff: none, absolute, or relative (leading to an existing module)"""
        r = self.rng.random()
        if r < lean_none:
            return None
        rel = [m[len(eff):] for m in self.mods if eff and m.startswith(eff + ".")]
        if rel and self.rng.random() < 0.5:
            return self.rng.choice(rel)
        return self.rng.choice(self.mods)

    def pick_name(self, eff, fn):
        """a name for function fn as it may be written under eff: relative to eff (directly or through sub-packages) or absolute"""
        rng = self.rng
        rel = []
        if eff:
            for m in self.mods:
                if fn in self.have[m]:
                    if m == eff:
                        rel += ["." + fn] * 3
                    elif m.startswith(eff + "."):
                        rel.append(m[len(eff):] + "." + fn)
            if fn == "only" and not rel:
                rel.append("." + fn)          # a relative name that does not exist under this prefix
        if rel and rng.random() < 0.8:
            return rng.choice(rel)
        return rng.choice([m for m in self.mods if fn in self.have[m]]) + "." + fn

    def gen_type(self, eff, known):
        rng = self.rng
        self.nt += 1
        t = PType("t%d" % self.nt)
        base = None
        if known and rng.random() < 0.65:
            t.extends = rng.choice(known)
            base = self.info[t.extends]
        t.prefix = self.pick_prefix(eff, 0.6 if base else 0.3)
        teff = compose(eff, t.prefix)
        if rng.random() < 0.5:
            t.datatype = self.pick_name(teff, "wrapsect")
        wild = bool(base and base["wild"])
        userkt = bool(base and base["userkt"])
        if rng.random() < 0.2:
            t.keytype = self.pick_name(teff, "kt")
            userkt = True
        # the Lean model of the schema loader knows the stock key types only: under a generated key type a type adds
        # wildcard keys alone (their names are not converted); inherited fixed names are lower-case words, fixed
        # points of every key type of the family
        if not userkt:
            for _ in range(rng.choice((1, 1, 2))):
                self.nk += 1
                fn = rng.choice(("up", "up", "up", "low", "low", "low", None, None, "integer", "integer", "only"))
                k = PKey("k%d" % self.nk, multi=rng.random() < 0.2)
                if fn == "integer":
                    k.dt = "integer"
                    dflt = rng.choice((None, "7"))
                else:
                    k.dt = self.pick_name(teff, fn) if fn else None
                    dflt = rng.choice((None, "dv%d" % self.nk, "Dv%d" % self.nk))
                k.default = ([dflt] if dflt is not None else []) if k.multi else dflt
                t.keys.append(k)
        if not wild and rng.random() < (0.7 if userkt else 0.2):
            self.nk += 1
            t.keys.append(PKey("+", dt=self.pick_name(teff, rng.choice(("up", "low"))), multi=rng.random() < 0.3, attr="m%d" % self.nk))
            wild = True
        self.info[t.name] = {"userkt": userkt, "wild": wild, "eff": teff}
        if base is not None:
            relative = any(n is not None and n.startswith(".") for n in [t.datatype, t.keytype] + [k.dt for k in t.keys])
            if base["eff"] != teff:
                self.stat("derived:base-under-another-prefix")
                if t.prefix is None and relative:
                    self.stat("derived:no-own-prefix,base-under-another-prefix,relative-names")
            elif relative:
                self.stat("derived:base-under-the-same-prefix,relative-names")
        return t

    def gen_doc(self):
        rng = self.rng
        doc = PDoc(rng.choice(self.mods) if rng.random() < 0.8 else None)
        eff = doc.prefix or ""
        known = []
        comps = []
        for j in range(rng.choice((0, 1, 1, 2))):
            pkg = rng.choice(self.mods)
            c = PComp(pkg, "c%d_%d.xml" % (self.serial, j), rng.choice(self.mods) if rng.random() < 0.8 else None, [])
            ceff = c.prefix or ""
            # a component may extend the types of a component imported before it (the schema imports that one first)
            for _ in range(rng.choice((1, 1, 2))):
                t = self.gen_type(ceff, list(known))
                c.types.append(t)
                known.append(t.name)
            comps.append(c)
            written = pkg
            if eff and pkg.startswith(eff + ".") and rng.random() < 0.6:
                written = pkg[len(eff):]
                self.stat("import:package-relative-to-prefix")
            doc.imports.append((written, c))
            if c.prefix != doc.prefix:
                self.stat("import:component-under-another-prefix")
        if comps and rng.random() < 0.3:
            c = rng.choice(comps)
            doc.imports.append((c.pkg, c))          # the same component once more
        for _ in range(rng.choice((1, 2, 2, 3, 4))):
            t = self.gen_type(eff, list(known))
            doc.types.append(t)
            known.append(t.name)
        doc.sects = [(n, "s_" + n) for n in known]
        for _ in range(rng.choice((0, 1, 1, 2))):
            self.nk += 1
            fn = rng.choice(("up", "low"))
            doc.keys.append(PKey("k%d" % self.nk, dt=self.pick_name(eff, fn), default=rng.choice((None, "top%d" % self.nk))))
        return doc


    def gen_doc_nested(self, root):
        """a document whose COMPONENTS import components themselves: the importing component lives in one package, has (mostly)
        another prefix, and names the package of the component it imports absolutely or relative to ITS prefix (which is not
        the prefix of the schema, and mostly not the package it was loaded from).  The imported component is reached through
        that path alone, or also directly from the schema (before or after: a diamond).  Every other package the written name
        could be taken for holds a decoy component of the same file name whose types have the same names and other contents."""
        rng = self.rng
        doc = PDoc(rng.choice(self.mods) if rng.random() < 0.8 else None)
        eff = doc.prefix or ""
        below = [m for m in self.mods if any(m.startswith(q + ".") for q in self.mods)]
        comps, how = [], {}
        # the import graph first: component j imports an earlier one (chains, two importers of one component)
        for j in range(rng.choice((2, 2, 3))):
            inner = rng.choice(comps) if comps and (j == 1 or rng.random() < 0.7) else None
            pkg = rng.choice(below) if below and rng.random() < 0.6 else rng.choice(self.mods)
            prefix = rng.choice(self.mods) if rng.random() < 0.8 else None
            if inner is not None:
                above = [m for m in self.mods if inner.pkg.startswith(m + ".")]
                if above and rng.random() < 0.75:
                    prefix = rng.choice(above)
            c = PComp(pkg, "n%d_%d.xml" % (self.serial, j), prefix, [])
            ceff = c.prefix or ""
            if inner is not None:
                written = inner.pkg
                if ceff and inner.pkg.startswith(ceff + ".") and rng.random() < 0.8:
                    written = inner.pkg[len(ceff):]
                    self.stat("nested-import:package-relative-to-component-prefix")
                    if ceff != c.pkg:
                        self.stat("nested-import:package-relative-to-component-prefix,prefix-is-not-own-package")
                    if ceff != eff:
                        self.stat("nested-import:package-relative-to-component-prefix,prefix-is-not-schema-prefix")
                else:
                    self.stat("nested-import:package-absolute")
                c.imports.append((written, inner))
                for q in decoy_packages(root, self.mods, inner.pkg, written):
                    if q not in inner.decoys:
                        inner.decoys.append(q)
                if rng.random() < 0.2:
                    c.imports.append((inner.pkg, inner))       # once more, the name written out
                if id(inner) not in how:
                    how[id(inner)] = rng.choice(("through-component-only", "through-component-only", "directly-first", "directly-afterwards"))
                    self.stat("nested-import:imported-component-" + how[id(inner)])
            comps.append(c)
        # what the schema imports itself: the components nobody imports, and some of the others before / after their importers
        def direct(c):
            written = c.pkg
            if eff and c.pkg.startswith(eff + ".") and rng.random() < 0.6:
                self.stat("import:package-relative-to-prefix")
                written = c.pkg[len(eff):]
            for q in decoy_packages(root, self.mods, c.pkg, written):
                if q not in c.decoys:
                    c.decoys.append(q)
            return (written, c)
        for c in comps:
            if how.get(id(c), "directly-first") == "directly-first":
                doc.imports.append(direct(c))
        for c in comps:
            if how.get(id(c)) == "directly-afterwards":
                doc.imports.append(direct(c))
        # the types, component by component in the order the components are read (a type extends types defined before it)
        known = []
        for c in all_components(doc):
            for _ in range(rng.choice((1, 1, 2))):
                t = self.gen_type(c.prefix or "", list(known))
                c.types.append(t)
                known.append(t.name)
            if c.prefix != doc.prefix:
                self.stat("import:component-under-another-prefix")
        for _ in range(rng.choice((1, 2, 2))):
            t = self.gen_type(eff, list(known))
            doc.types.append(t)
            known.append(t.name)
        doc.sects = [(n, "s_" + n) for n in known]
        return doc


# ------------------------------------------------------------------ rendering
def _attrs(pairs):
    return "".join(" %s=%s" % (k, quoteattr(v)) for k, v in pairs if v is not None)


def _render_key(k, eff, out, ind):
    """eff None: as written; else names resolved against eff"""
    dt = k.dt if eff is None else resolve(eff, k.dt)
    tag = "multikey" if k.multi else "key"
    a = _attrs([("name", k.name), ("attribute", k.attr), ("datatype", dt),
                ("default", k.default if not k.multi else None)])
    if k.multi and k.default:
        out.append("%s<%s%s>%s</%s>" % (ind, tag, a, "".join("<default>%s</default>" % escape(v) for v in k.default), tag))
    else:
        out.append("%s<%s%s/>" % (ind, tag, a))


def _render_type_written(t, out, ind):
    out.append("%s<sectiontype%s>" % (ind, _attrs([("name", t.name), ("prefix", t.prefix), ("extends", t.extends),
                                                     ("keytype", t.keytype), ("datatype", t.datatype)])))
    for k in t.keys:
        _render_key(k, None, out, ind + "  ")
    out.append("%s</sectiontype>" % ind)


def render_component(c):
    out = ["<component%s>" % _attrs([("prefix", c.prefix)])]
    for written, c2 in c.imports:
        out.append("  <import%s/>" % _attrs([("package", written), ("file", c2.file)]))
    for t in c.types:
        _render_type_written(t, out, "  ")
    out.append("</component>")
    return "\n".join(out) + "\n"


def _render_tail(doc, eff, out):
    for n, a in doc.sects:
        out.append("  <section%s/>" % _attrs([("type", n), ("name", "*"), ("attribute", a)]))
    for k in doc.keys:
        _render_key(k, eff, out, "  ")


def render_composed(doc):
    out = ["<schema%s>" % _attrs([("prefix", doc.prefix)])]
    for written, c in doc.imports:
        out.append("  <import%s/>" % _attrs([("package", written), ("file", c.file)]))
    for t in doc.types:
        _render_type_written(t, out, "  ")
    _render_tail(doc, None, out)
    out.append("</schema>")
    return "\n".join(out) + "\n"


def flat_types(doc):
    """[(type, effective prefix of the element enclosing it)] in definition order, every component once"""
    out = []
    for c in all_components(doc):
        out.extend((t, c.prefix or "") for t in c.types)
    out.extend((t, doc.prefix or "") for t in doc.types)
    return out


def render_expanded(doc, inline_extends=False):
    eff0 = doc.prefix or ""
    out = ["<schema>"]
    done = {}      # name -> (keytype, datatype, [(key, effective prefix it was written under)])
    for t, eff in flat_types(doc):
        teff = compose(eff, t.prefix)
        kt, dt = resolve(teff, t.keytype), resolve(teff, t.datatype)
        keys = [(k, teff) for k in t.keys]
        ext = t.extends
        if t.extends:
            bkt, bdt, bkeys = done[t.extends]
            full = (kt or bkt, dt or bdt, bkeys + keys)
        else:
            full = (kt, dt, keys)
        done[t.name] = full
        if inline_extends:
            kt, dt, keys = full
            ext = None
        out.append("  <sectiontype%s>" % _attrs([("name", t.name), ("extends", ext), ("keytype", kt), ("datatype", dt)]))
        for k, keff in keys:
            _render_key(k, keff, out, "    ")
        out.append("  </sectiontype>")
    _render_tail(doc, eff0, out)
    out.append("</schema>")
    return "\n".join(out) + "\n", done


def render_decoy(c):
    """a component with the same type names as c and other contents: no datatypes, every key with another default, one key more"""
    out = ["<component>"]
    for t in c.types:
        out.append("  <sectiontype%s>" % _attrs([("name", t.name)]))
        for k in t.keys:
            if k.name != "+":
                _render_key(PKey(k.name, default=["decoy"] if k.multi else "decoy", multi=k.multi, attr=k.attr), None, out, "    ")
        out.append("    <key name='decoy' default='decoy'/>")
        out.append("  </sectiontype>")
    out.append("</component>")
    return "\n".join(out) + "\n"


def write_components(root, doc, overwrite=False):
    for c in all_components(doc):
        p = os.path.join(root, *c.pkg.split("."), c.file)
        if overwrite or not os.path.exists(p):
            with open(p, "w") as f:
                f.write(render_component(c))
        for q in c.decoys:
            p = os.path.join(root, *q.split("."), c.file)
            if overwrite or not os.path.exists(p):
                with open(p, "w") as f:
                    f.write(render_decoy(c))


# ------------------------------------------------------------------ texts
def texts_for(doc, done):
    """directed configuration texts: defaults alone; per section type every key (own and inherited) given a lower-case and a
    mixed-case value (the `low` conversions refuse the latter), a non-number for the integer keys, words with '-' under wildcard keys"""
    texts = ["", "".join("<%s/>\n" % n for n, _ in doc.sects)]
    for k in doc.keys:
        texts.append("%s val\n" % k.name)
        texts.append("%s VaL\n" % k.name)
    for n, _ in doc.sects:
        keys = [k for k, _ in done[n][2]]
        for variant in ("lower", "mixed", "each"):
            lines = []
            for k in keys:
                if k.name == "+":
                    lines += ["a-b one" if variant != "mixed" else "a-B One", "Zz two"]
                elif k.dt == "integer":
                    lines.append("%s %s" % (k.name, "12" if variant != "mixed" else "x"))
                else:
                    lines.append("%s %s" % (k.name, "val" if variant != "mixed" else "VaL"))
                    if k.multi:
                        lines.append("%s more" % k.name)
            if variant == "each":
                for ln in lines:
                    texts.append("<%s>\n  %s\n</%s>\n" % (n, ln, n))
            elif lines:
                texts.append("<%s>\n%s</%s>\n" % (n, "".join("  %s\n" % ln for ln in lines), n))
    return texts
