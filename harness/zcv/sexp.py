"""S-expression codec matching lean/ZCV/SExp.lean"""
import re

_PLAIN = re.compile(r'[ !#-\[\]-~]*\Z')      # printable ASCII without '"' and '\\': written as is
_STR_RX = re.compile(r'"([^"\\]*)"')          # a string literal without escapes


class Atom(str):
    pass


def enc(x):
    if isinstance(x, Atom):
        return str(x)
    if isinstance(x, bool):
        return "t" if x else "f"
    if x is None:
        return "none"
    if isinstance(x, int):
        return str(x)
    if isinstance(x, str):
        if _PLAIN.match(x):
            return '"' + x + '"'
        out = ['"']
        for c in x:
            o = ord(c)
            if c == '"':
                out.append('\\"')
            elif c == "\\":
                out.append("\\\\")
            elif o < 32 or o > 126:
                out.append("\\u{%x}" % o)
            else:
                out.append(c)
        out.append('"')
        return "".join(out)
    if isinstance(x, (list, tuple)):
        return "(" + " ".join(enc(y) for y in x) + ")"
    raise TypeError(type(x))


def dec(s):
    v, i = _one(s, 0)
    return v


def _one(s, i):
    n = len(s)
    while i < n and s[i] == " ":
        i += 1
    if s[i] == "(":
        i += 1
        xs = []
        while True:
            while s[i] == " ":
                i += 1
            if s[i] == ")":
                return xs, i + 1
            v, i = _one(s, i)
            xs.append(v)
    if s[i] == '"':
        m = _STR_RX.match(s, i)
        if m:
            return m.group(1), m.end()
        i += 1
        out = []
        while s[i] != '"':
            if s[i] == "\\":
                if s[i + 1] == "u":
                    j = s.index("}", i)
                    out.append(chr(int(s[i + 3:j], 16)))
                    i = j + 1
                else:
                    out.append(s[i + 1])
                    i += 2
            else:
                out.append(s[i])
                i += 1
        return "".join(out), i + 1
    j = i
    while j < n and s[j] not in " ()":
        j += 1
    return Atom(s[i:j]), j
