"""Translator: live ZConfig data and code -> Lean (ZCV/Gen/*.lean).

Regenerated on every run from /repo's working tree (ZCV_REPO).  DATA: everything the model's data depends on is read
from the imported modules (compiled patterns, tables, bounds) or from the AST of the function that holds a literal.
CODE: `CodeDatatypes` / `CodeSubstitution` / `CodeCmdline` / `CodeUrl` / `CodeCfgparser` are the translation of the Python source of the
small pure string functions (datatypes.py, substitution.py, cmdline.py, url.py; the pure prefixes of two cfgparser.py methods) into Lean definitions by `pytrans.py` (a typed compiler for a subset of Python, see its
docstring and DESIGN §13); `ZCV/Lemmas/CodeEq*.lean` prove them equal to the hand-written models.
Anything outside the supported subset raises Untranslatable, which the checks treat as a broken tie (DESIGN §4),
never as a pass; the file concerned is then left as it was.
"""
import ast
import inspect
import os
import re
import sys
import textwrap
import unicodedata

import re._parser as P
import re._constants as C

REPO = os.environ.get("ZCV_REPO", "/repo")


class Untranslatable(Exception):
    pass


# ---------------------------------------------------------------- regex -> RE
def _cls(av):
    neg = False
    items = []
    for op, a in av:
        if op is C.NEGATE:
            neg = True
        elif op is C.LITERAL:
            items.append(f".range {a} {a}")
        elif op is C.RANGE:
            items.append(f".range {a[0]} {a[1]}")
        elif op is C.CATEGORY:
            if a is C.CATEGORY_SPACE:
                items.append(".space")
            elif a is C.CATEGORY_DIGIT:
                items.append(".digit")
            else:
                raise Untranslatable(f"category {a}")
        else:
            raise Untranslatable(f"class item {op}")
    # canonical order inside a class: ranges sorted by code point (semantically the same set), categories last
    def key(it):
        if it.startswith(".range"):
            a, b = it.split()[1:]
            return (0, int(a), int(b))
        return (1, 0, 0, it)
    items = sorted(set(items), key=key)
    # ... and adjacent or overlapping ranges merged: [a-cd-z] is [a-z]
    merged = []
    for it in items:
        if it.startswith(".range") and merged and merged[-1].startswith(".range"):
            a, b = map(int, it.split()[1:])
            pa, pb = map(int, merged[-1].split()[1:])
            if a <= pb + 1:
                merged[-1] = f".range {pa} {max(pb, b)}"
                continue
        merged.append(it)
    return f"(.cls ⟨{str(neg).lower()}, [{', '.join(merged)}]⟩)"


def _seq(parts):
    if not parts:
        return ".eps"
    r = parts[-1]
    for p in reversed(parts[:-1]):
        r = f"(.seq {p} {r})"
    return r


def _tr(sub):
    out = []
    for op, av in sub:
        if op is C.LITERAL:
            out.append(f"(.cls ⟨false, [.range {av} {av}]⟩)")
        elif op is C.NOT_LITERAL:
            out.append(f"(.cls ⟨true, [.range {av} {av}]⟩)")
        elif op is C.IN:
            out.append(_cls(av))
        elif op is C.ANY:
            out.append(".any")
        elif op is C.AT:
            if av is C.AT_END:
                out.append(".eol")
            elif av is C.AT_BEGINNING:
                out.append(".bol")
            else:
                raise Untranslatable(f"anchor {av}")
        elif op is C.SUBPATTERN:
            g, af, df, body = av
            if af or df:
                raise Untranslatable("inline flags")
            b = _tr(body)
            out.append(f"(.cap {g} {b})" if g is not None else b)
        elif op is C.BRANCH:
            alts = [_tr(a) for a in av[1]]
            r = alts[-1]
            for a in reversed(alts[:-1]):
                r = f"(.alt {a} {r})"
            out.append(r)
        elif op is C.MAX_REPEAT:
            lo, hi, body = av
            b = _tr(body)
            if (lo, hi) == (0, 1):
                out.append(f"(.opt {b})")
            elif lo == 0 and hi is C.MAXREPEAT:
                out.append(f"(.star {b})")
            elif lo == 1 and hi is C.MAXREPEAT:
                out.append(f"(.seq {b} (.star {b}))")
            else:
                raise Untranslatable(f"repeat {lo},{hi}")
        else:
            raise Untranslatable(f"op {op}")
    return _seq(out)


def regex_to_lean(pat):
    """pat: compiled pattern.  Only default flags (re.UNICODE) are supported."""
    if not isinstance(pat, re.Pattern):
        raise Untranslatable("not a compiled pattern: %r" % (pat,))
    if pat.flags & ~re.UNICODE:
        raise Untranslatable("flags %r" % pat.flags)
    if not isinstance(pat.pattern, str):
        raise Untranslatable("bytes pattern")
    return _tr(P.parse(pat.pattern)), dict(pat.groupindex)


# ---------------------------------------------------------------- helpers
def lstr(s):
    """Lean Str literal (List Char) from a python str"""
    return "[" + ", ".join("Char.ofNat %d" % ord(c) for c in s) + "]"


def lstrlist(xs):
    return "[" + ", ".join(lstr(x) for x in xs) + "]"


def _func_ast(fn):
    src = textwrap.dedent(inspect.getsource(fn))
    return ast.parse(src)


def tuple_literals_in(fn):
    """all tuple-of-string literals used on the right of `in` / `not in` in fn"""
    out = []
    for node in ast.walk(_func_ast(fn)):
        if isinstance(node, ast.Compare):
            for op, comp in zip(node.ops, node.comparators):
                if isinstance(op, (ast.In, ast.NotIn)) and isinstance(comp, ast.Tuple):
                    try:
                        vals = [ast.literal_eval(e) for e in comp.elts]
                    except Exception:
                        raise Untranslatable("non-literal tuple in %s" % fn.__name__)
                    if all(isinstance(v, str) for v in vals):
                        out.append(vals)
    return out


def header(mod):
    return ("-- GENERATED by harness/zcv/extract.py from %s — do not edit\n"
            "import ZCV.Model.Regex\nnamespace ZCV.Gen\nopen ZCV.Rx\n\n" % mod)


# ---------------------------------------------------------------- Unicode
def gen_unicode():
    sp = [c for c in range(0x110000) if chr(c).isspace()]
    sp2 = [c for c in range(0x110000) if re.match(r"\s", chr(c))]
    if sp != sp2:
        raise Untranslatable("str.isspace and \\s disagree")
    nd = [c for c in range(0x110000) if unicodedata.category(chr(c)) == "Nd"]
    d2 = [c for c in range(0x110000) if re.match(r"\d", chr(c))]
    if nd != d2:
        raise Untranslatable("Nd and \\d disagree")
    # The white space int(str) / float(str) skip is NOT str.isspace: non-ASCII white space is mapped to ' '
    # (_PyUnicode_TransformDecimalAndSpaceToASCII), ASCII is left alone and the parsers skip C isspace only, so
    # U+001C..U+001F are isspace and not skipped.  Computed here, never assumed: the skipped set of each
    # constructor, on both sides of a literal; it must be `isspace` minus a (small) set, which is emitted.
    ndset = set(nd)

    def skipped(f):
        out = []
        for c in range(0x110000):
            if 0xD800 <= c <= 0xDFFF:
                continue
            ch = chr(c)

            def one(s):
                try:
                    return f(s) == 1
                except ValueError:
                    return False
            both = one(ch + ch + "1" + ch + ch)
            lead, trail = one(ch + "1"), one("1" + ch)
            if both:
                if not (lead and trail):
                    raise Untranslatable("%s skips U+%04X on both sides only" % (f.__name__, c))
                out.append(c)
            elif (lead or trail) and not (c in ndset or ch in "+."):
                # '+1', '01', '1.' are literals; anything else accepted on one side only is outside the picture
                raise Untranslatable("%s skips U+%04X on one side only" % (f.__name__, c))
        return out
    isk, fsk = skipped(int), skipped(float)
    if isk != fsk:
        raise Untranslatable("int() and float() skip different white space: %r" % sorted(set(isk) ^ set(fsk)))
    if not set(isk) <= set(sp):
        raise Untranslatable("int() skips characters that are not isspace: %r" % sorted(set(isk) - set(sp)))
    excl = sorted(set(sp) - set(isk))
    if len(excl) > 16:
        raise Untranslatable("int() white space is not isspace minus a small set (%d exclusions)" % len(excl))
    for c in excl:      # the excluded characters are rejected wherever they stand
        for f in (int, float):
            for s in (chr(c) + "1", "1" + chr(c), " " + chr(c) + "1", "1" + chr(c) + " ", "+" + chr(c) + "1",
                      "1" + chr(c) + "1", chr(c)):
                try:
                    f(s)
                except ValueError:
                    continue
                raise Untranslatable("%s accepts %r" % (f.__name__, s))
    rs = []
    for c in nd:
        if rs and rs[-1][1] == c - 1:
            rs[-1][1] = c
        else:
            rs.append([c, c])
    for a, b in rs:
        if (b - a + 1) % 10:
            raise Untranslatable("digit range not whole decades")
        for c in range(a, b + 1):
            if unicodedata.digit(chr(c)) != (c - a) % 10 or int(chr(c)) != (c - a) % 10:
                raise Untranslatable("digit value")
    low = {}
    for c in range(128, 0x110000):
        if 0xD800 <= c <= 0xDFFF:
            continue
        l = chr(c).lower()
        if l != chr(c) and len(l) == 1:
            low[c] = ord(l)
    # compress into (start, count, step, delta), exact
    ents = []
    todo = sorted(low)
    done = set()
    for a in todo:
        if a in done:
            continue
        d = low[a] - a
        best = (1, 1)
        for step in (1, 2):
            cnt = 0
            c = a
            while c in low and c not in done and low[c] - c == d:
                cnt += 1
                c += step
            if cnt > best[0]:
                best = (cnt, step)
        cnt, step = best
        ents.append((a, cnt, step, d))
        for k in range(cnt):
            done.add(a + k * step)
    # self-check: reconstruct exactly (first matching entry wins in Lean)
    def look(n):
        for a, cnt, step, d in ents:
            if a <= n < a + cnt * step and (n - a) % step == 0:
                return n + d
        return n
    for c in range(128, 0x110000):
        if 0xD800 <= c <= 0xDFFF:
            continue
        if look(c) != low.get(c, c):
            raise Untranslatable("lower table compression wrong at %x" % c)
    # lower-casing through the table is idempotent (hypothesis `hlow` of the text-level theorems)
    for c in range(0x110000):
        if 0xD800 <= c <= 0xDFFF or c == 0x130:
            continue
        l1 = look(c) if c >= 128 else (c + 32 if 65 <= c <= 90 else c)
        l2 = look(l1) if l1 >= 128 else (l1 + 32 if 65 <= l1 <= 90 else l1)
        if l1 != l2:
            raise Untranslatable("lower table not idempotent at %x" % c)
    out = ["-- GENERATED by harness/zcv/extract.py from the running interpreter — do not edit",
           "namespace ZCV.Gen", "",
           "/-- code points with `str.isspace()` (= `\\s`), checked over all of Unicode -/",
           "def spaceTbl : List Nat := [%s]" % ", ".join(map(str, sp)), "",
           "/-- the `isspace` code points that `int(str)` / `float(str)` do NOT skip around a literal (computed: the set",
           "    both constructors skip, on either side, is `spaceTbl` minus exactly these) -/",
           "def intSpaceExcluded : List Nat := [%s]" % ", ".join(map(str, excl)), "",
           "/-- `\\d` / category Nd as inclusive ranges; digit value = (c - lo) % 10 -/",
           "def digitRanges : List (Nat × Nat) := [%s]" % ", ".join("(%d, %d)" % (a, b) for a, b in rs), "",
           "/-- one-to-one `str.lower` outside ASCII: (first, count, step, delta) -/",
           "def lowerTbl : List (Nat × Nat × Nat × Int) := [%s]" % ", ".join(
               "(%d, %d, %d, %d)" % e for e in ents), "",
           "end ZCV.Gen", ""]
    return "\n".join(out)


# ---------------------------------------------------------------- per module
def _import_repo():
    src = os.path.join(REPO, "src")
    if sys.path[0] != src:
        sys.path.insert(0, src)
    import ZConfig  # noqa
    if not os.path.realpath(ZConfig.__file__).startswith(os.path.realpath(src)):
        raise Untranslatable("ZConfig imported from %s, not %s" % (ZConfig.__file__, src))


def _rx_def(name, pat, doc=None):
    term, groups = regex_to_lean(pat)
    s = ""
    s += "/-- live pattern: `%s` -/\n" % pat.pattern.replace("-/", "- /")
    s += "def %s : RE :=\n  %s\n" % (name, term)
    for g, i in sorted(groups.items(), key=lambda kv: kv[1]):
        s += "def %s_%s : Nat := %d\n" % (name, g, i)
    return s + "\n"


def gen_cfgparser():
    import ZConfig.cfgparser as c
    out = header("src/ZConfig/cfgparser.py")
    out += _rx_def("keyvalueRx", c._keyvalue_rx)
    out += _rx_def("sectionStartRx", c._section_start_rx)
    for need in ("key", "value"):
        if need not in c._keyvalue_rx.groupindex:
            raise Untranslatable("_keyvalue_rx lost group " + need)
    for need in ("type", "name"):
        if need not in c._section_start_rx.groupindex:
            raise Untranslatable("_section_start_rx lost group " + need)
    tl = tuple_literals_in(c.ZConfigParser.handle_directive)
    if len(tl) != 1:
        raise Untranslatable("directive tuple not found")
    out += "/-- directive names accepted by `handle_directive` -/\n"
    out += "def directives : List Str := %s\n\n" % lstrlist(sorted(tl[0]))
    out += "end ZCV.Gen\n"
    return out


def gen_substitution():
    import ZConfig.substitution as s
    pat = getattr(s._name_match, "__self__", None)
    out = header("src/ZConfig/substitution.py")
    out += _rx_def("nameRx", pat)
    out += "end ZCV.Gen\n"
    return out


def gen_datatypes():
    import ZConfig.datatypes as d
    st = d.stock_datatypes
    out = header("src/ZConfig/datatypes.py")
    for lean, key in (("basicKeyRx", "basic-key"), ("identifierRx", "identifier"),
                      ("dottedNameRx", "dotted-name"), ("dottedSuffixRx", "dotted-suffix"),
                      ("ipaddrRx", "ipaddr-or-hostname")):
        obj = st[key]
        out += _rx_def(lean, getattr(obj, "_rx", None))
    tl = tuple_literals_in(d.asBoolean)
    if len(tl) != 2:
        raise Untranslatable("boolean word tuples not found")
    out += "def boolTrue : List Str := %s\n" % lstrlist(sorted(tl[0]))
    out += "def boolFalse : List Str := %s\n\n" % lstrlist(sorted(tl[1]))
    pn = d.port_number.__self__
    if pn._conversion is not d.integer:
        raise Untranslatable("port_number conversion changed")
    out += "def portMin : Option Int := %s\n" % ("none" if pn._min is None else "some %d" % pn._min)
    out += "def portMax : Option Int := %s\n\n" % ("none" if pn._max is None else "some %d" % pn._max)
    for lean, key in (("byteSize", "byte-size"), ("timeInterval", "time-interval")):
        sm = st[key]
        items = sorted(sm._d.items())      # (first match by equal-length suffix: order is irrelevant)
        if not all(isinstance(k, str) and isinstance(v, int) for k, v in items):
            raise Untranslatable("suffix table types")
        out += "def %sTbl : List (Str × Int) := [%s]\n" % (
            lean, ", ".join("(%s, %d)" % (lstr(k), v) for k, v in items))
        out += "def %sKeysz : Nat := %d\n" % (lean, sm._keysz)
        out += "def %sDefault : Int := %d\n\n" % (lean, sm._default)
    for lean, key in (("inetHost", "inet-address"), ("inetBindingHost", "inet-binding-address"),
                      ("inetConnectionHost", "inet-connection-address")):
        out += "def %s : Str := %s\n" % (lean, lstr(st[key].DEFAULT_HOST))
    out += "\ndef stockNames : List Str := %s\n\n" % lstrlist(list(st.keys()))
    out += "end ZCV.Gen\n"
    return out


def gen_loader():
    import ZConfig.loader as l
    out = header("src/ZConfig/loader.py")
    out += _rx_def("pathsepRx", l.BaseLoader._pathsep_rx)
    out += "end ZCV.Gen\n"
    return out


def gen_logger():
    import ZConfig.components.logger.datatypes as ld
    import ZConfig.components.logger.handlers as lh
    tbl = ld._logging_levels
    if not all(isinstance(k, str) and isinstance(v, int) for k, v in tbl.items()):
        raise Untranslatable("_logging_levels types")
    # numeric bounds from the AST of logging_level:  `v < LO or v > HI`
    lo = hi = None
    for node in ast.walk(_func_ast(ld.logging_level)):
        if isinstance(node, ast.Compare) and len(node.ops) == 1 and isinstance(node.comparators[0], ast.Constant):
            c = node.comparators[0].value
            if isinstance(node.ops[0], ast.Lt):
                lo = c
            elif isinstance(node.ops[0], ast.Gt):
                hi = c
            elif isinstance(node.ops[0], (ast.LtE, ast.GtE)):
                raise Untranslatable("logging_level bound uses <= / >=")
    if lo is None or hi is None:
        raise Untranslatable("logging_level bounds not found")
    out = header("src/ZConfig/components/logger/datatypes.py, handlers.py")
    out += "def loggingLevels : List (Str × Int) := [%s]\n" % ", ".join("(%s, %d)" % (lstr(k), v) for k, v in sorted(tbl.items()))
    out += "def levelLo : Int := %d\ndef levelHi : Int := %d\n\n" % (lo, hi)
    out += "def syslogFacilities : List Str := %s\n\n" % lstrlist(sorted(lh._syslog_facilities.keys()))
    out += "end ZCV.Gen\n"
    return out


def gen_schema():
    import ZConfig.schema as sc
    bp = sc.BaseParser
    ap = bp._allowed_parents
    if not (isinstance(ap, dict) and all(isinstance(k, str) and isinstance(v, (list, tuple)) and
                                         all(isinstance(x, str) for x in v) for k, v in ap.items())):
        raise Untranslatable("_allowed_parents shape")
    for t in (bp._cdata_tags, bp._handled_tags, sc.SchemaParser._handled_tags, sc.ComponentParser._handled_tags):
        if not (isinstance(t, tuple) and all(isinstance(x, str) for x in t)):
            raise Untranslatable("tag tuple shape")
    out = header("src/ZConfig/schema.py")
    out += "/-- `BaseParser._allowed_parents` -/\n"
    out += "def allowedParents : List (Str × List Str) := [%s]\n\n" % ", ".join(
        "(%s, %s)" % (lstr(k), lstrlist(sorted(v))) for k, v in sorted(ap.items()))
    out += "def cdataTags : List Str := %s\n" % lstrlist(list(bp._cdata_tags))
    out += "def handledTags : List Str := %s\n" % lstrlist(list(bp._handled_tags))
    out += "def schemaHandledTags : List Str := %s\n" % lstrlist(list(sc.SchemaParser._handled_tags))
    out += "def componentHandledTags : List Str := %s\n" % lstrlist(list(sc.ComponentParser._handled_tags))
    out += "def schemaTopLevel : Str := %s\n" % lstr(sc.SchemaParser._top_level)
    out += "def componentTopLevel : Str := %s\n\n" % lstr(sc.ComponentParser._top_level)
    # names get_name_info treats as wildcards, and the reserved attribute prefix
    tl = tuple_literals_in(bp.get_name_info)
    if len(tl) != 1:
        raise Untranslatable("wildcard-name tuple of get_name_info not found")
    out += "/-- the names `get_name_info` treats as 'any name' -/\n"
    out += "def anyNames : List Str := %s\n" % lstrlist(tl[0])
    pref = [n.args[0].value for n in ast.walk(_func_ast(bp.get_name_info))
            if isinstance(n, ast.Call) and isinstance(n.func, ast.Attribute) and n.func.attr == "startswith"
            and n.args and isinstance(n.args[0], ast.Constant)]
    if len(pref) != 1:
        raise Untranslatable("reserved attribute prefix not found")
    out += "def reservedAttrPrefix : Str := %s\n" % lstr(pref[0])
    tl = tuple_literals_in(bp.start_multisection)
    if len(tl) != 1:
        raise Untranslatable("multisection name tuple not found")
    out += "def multisectionNames : List Str := %s\n\n" % lstrlist(tl[0])
    out += "end ZCV.Gen\n"
    return out


def gen_code_datatypes():
    from . import pytrans
    return pytrans.gen_code_datatypes()


def gen_code_substitution():
    from . import pytrans
    return pytrans.gen_code_substitution()


def gen_code_cmdline():
    from . import pytrans
    return pytrans.gen_code_cmdline()


def gen_code_url():
    from . import pytrans
    return pytrans.gen_code_url()


def gen_code_cfgparser():
    from . import pytrans
    return pytrans.gen_code_cfgparser()


GENERATORS = {
    "Schema": gen_schema,
    "Logger": gen_logger,
    "Unicode": gen_unicode,
    "Cfgparser": gen_cfgparser,
    "Substitution": gen_substitution,
    "Datatypes": gen_datatypes,
    "Loader": gen_loader,
    "CodeDatatypes": gen_code_datatypes,
    "CodeSubstitution": gen_code_substitution,
    "CodeCmdline": gen_code_cmdline,
    "CodeUrl": gen_code_url,
    "CodeCfgparser": gen_code_cfgparser,
}


def regenerate(outdir, only=None):
    """write changed files only; returns dict name -> 'same'|'changed'|('error', msg)"""
    _import_repo()
    res = {}
    os.makedirs(outdir, exist_ok=True)
    for name, fn in GENERATORS.items():
        if only and name not in only:
            continue
        path = os.path.join(outdir, name + ".lean")
        try:
            text = fn()
        except Untranslatable as e:
            res[name] = ("error", "untranslatable: %s" % e)
            continue
        except Exception as e:  # moved table, missing attribute...
            res[name] = ("error", "%s: %s" % (type(e).__name__, e))
            continue
        old = open(path).read() if os.path.exists(path) else None
        if old != text:
            with open(path, "w") as f:
                f.write(text)
            res[name] = "changed"
        else:
            res[name] = "same"
    return res


if __name__ == "__main__":
    # run through the package module, so that pytrans and this code share one `Untranslatable` class
    from harness.zcv import extract as _self
    here = os.path.dirname(os.path.abspath(__file__))
    out = os.path.join(here, "..", "..", "lean", "ZCV", "Gen")
    print(_self.regenerate(os.path.normpath(out)))
