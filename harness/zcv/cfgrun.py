"""Run the real loader and the model on the same case and compare on property-level observables."""
import io
import math
import os
import sys

from . import core
from .sexp import Atom
from .schemafam import DEFAULT_LINE

DT_PATH = os.path.join(core.VERIF, "harness", "dtpkg")
if DT_PATH not in sys.path:
    sys.path.insert(0, DT_PATH)

import ZConfig  # noqa: E402
import zcvdt  # noqa: E402


def classify_exc(e):
    """exception -> canonical outcome"""
    if isinstance(e, KeyError) and e.args == ("zcvdt",):
        return ["dtexc", "KeyError"]
    if not isinstance(e, ZConfig.ConfigurationError):
        return ["internal", type(e).__name__]
    if isinstance(e, ZConfig.SubstitutionReplacementError):
        k = "replacement"
    elif isinstance(e, ZConfig.ConfigurationSyntaxError):
        k = "syntax"
    elif isinstance(e, ZConfig.DataConversionError):
        k = "conversion"
    elif isinstance(e, ZConfig.SubstitutionSyntaxError):
        k = "subst-syntax"
    elif isinstance(e, ZConfig.SchemaResourceError):
        k = "schema-resource"
    elif isinstance(e, ZConfig.SchemaError):
        k = "schema"
    else:
        k = "plain"
    line = getattr(e, "lineno", None)
    url = getattr(e, "url", None)
    val = getattr(e, "value", None)
    return ["cfg", k, line, url or None, val if isinstance(val, str) else None]


def canon_model(a):
    """driver answer -> same shape as classify_exc / ("ok", val, handlers, abstract)"""
    if a[0] == "ok":
        return ["ok", a[1], a[2], a[3]]
    if a[0] == "cfg":
        line = None if a[2] == "none" else int(a[2])
        url = None if a[3] == "none" else a[3]
        val = None if a[5] == "none" else a[5]
        return ["cfg", str(a[1]), line, url, val, a[4]]
    if a[0] == "internal":
        return ["internal", str(a[1])]
    if a[0] == "dtexc":
        return ["dtexc", a[1]]
    return ["bad", a]


def _all_match(pairs):
    # (a plain loop, not all(<generator>): a generator driven by a built-in costs interpreter-internal stack per level, which
    #  bounds how deeply nested a value tree can be compared whatever the recursion limit is set to)
    for a, b in pairs:
        if not match_val(a, b):
            return False
    return True


def match_val(m, v):
    """does the python value v equal the model value m (decoded s-expression)?"""
    if m == "none":
        return v is None
    h = m[0]
    if h == "s":
        return isinstance(v, str) and v == m[1]
    if h == "i":
        return isinstance(v, int) and not isinstance(v, bool) and v == int(m[1])
    if h == "b":
        return isinstance(v, bool) and v == (m[1] == "t")
    if h == "f":
        if not isinstance(v, float):
            return False
        try:
            f = float(m[1])
        except ValueError:
            return False
        return (math.isnan(f) and math.isnan(v)) or f == v
    if h == "list":
        return isinstance(v, list) and len(v) == len(m) - 1 and _all_match(zip(m[1:], v))
    if h == "tup":
        if isinstance(v, tuple):
            return len(v) == len(m) - 1 and _all_match(zip(m[1:], v))
        fam = getattr(v, "family", None)   # SocketAddress objects
        if fam is not None and len(m) == 3:
            return match_val(m[1], getattr(fam, "name", str(fam))) and match_val(m[2], v.address)
        return False
    if h == "map":
        if not isinstance(v, dict) or len(v) != len(m) - 1:
            return False
        return _all_match([(x, v[k]) if k in v else (["s", ""], None) for k, x in m[1:]])
    if h == "wrap":
        return isinstance(v, zcvdt.Wrapped) and v.tag == m[1] and match_val(m[2], v.inner)
    if h == "sect":
        if not hasattr(v, "getSectionAttributes"):
            return False
        name = None if m[2] == "none" else m[2]
        tyname = v.getSectionType()
        if (tyname or "") != m[1] or v.getSectionName() != name:
            return False
        attrs = v.getSectionAttributes()
        if list(attrs) != [a for a, _ in m[3]]:
            return False
        return _all_match([(x, getattr(v, a)) for a, x in m[3]])
    return False


def describe(v, depth=0):
    """printable rendering of a real value (for replays)"""
    if hasattr(v, "getSectionAttributes"):
        return {"<sect>": [v.getSectionType(), v.getSectionName()],
                "attrs": {a: describe(getattr(v, a), depth + 1) for a in v.getSectionAttributes()}}
    if isinstance(v, zcvdt.Wrapped):
        return {"<wrap>": v.tag, "inner": describe(v.inner, depth + 1)}
    if isinstance(v, (list, tuple)):
        return [describe(x, depth + 1) for x in v]
    if isinstance(v, dict):
        return {str(k): describe(x, depth + 1) for k, x in v.items()}
    if hasattr(v, "family"):
        return ["sockaddr", str(v.family), describe(v.address)]
    return v if isinstance(v, (str, int, float, bool, type(None))) else repr(v)


class Recorder:
    def __init__(self):
        self.calls = []

    def fn(self, name):
        def f(value):
            self.calls.append((name, value))
        return f


def handler_names(elab):
    names = []

    def walk(children):
        for key, info in children:
            h = info[-1]
            if h is not None and h not in names:
                names.append(h)
    walk(elab[2][4])
    for n, te in elab[1]:
        if te[0] == "concrete":
            walk(te[1][4])
    if elab[3] is not None and elab[3] not in names:
        names.append(elab[3])
    return names


_reused_loaders = {}


def real_load(schema, text, url="file:///zcvroot/main.conf", overrides=(), hnames=(), reuse=None):
    """returns (outcome, config or None, handler).
    Loads without overrides go, every other time, through ONE long-lived ConfigLoader per schema object (loader objects are
    documented as reusable: the outcome must not depend on what the loader served before, failed loads included); the
    others use the module-level entry point (a fresh loader).  Loads with overrides alternate between the module-level entry point
    and one ExtendedConfigLoader that performs the load twice."""
    try:
        if reuse is None:
            _reused_loaders["n"] = _reused_loaders.get("n", 0) + 1
            reuse = (_reused_loaders["n"] % 2 == 0)
        if reuse and not overrides:
            ld = _reused_loaders.get(id(schema))
            if ld is None or ld[0] is not schema:
                from ZConfig.loader import ConfigLoader
                ld = (schema, ConfigLoader(schema))
                if len(_reused_loaders) > 400:
                    _reused_loaders.clear()
                _reused_loaders[id(schema)] = ld
            cfg, handler = ld[1].loadFile(io.StringIO(text), url)
        elif reuse and overrides:
            # one ExtendedConfigLoader, options added once, used for two loads of the same text: the overrides belong to the
            # loader, every load it performs gets them (the second load's result is the one compared)
            from ZConfig.cmdline import ExtendedConfigLoader
            ld2 = ExtendedConfigLoader(schema)
            for spec in overrides:
                ld2.addOption(spec)
            try:
                ld2.loadFile(io.StringIO(text), url)
            except Exception:
                pass
            cfg, handler = ld2.loadFile(io.StringIO(text), url)
        else:
            cfg, handler = ZConfig.loadConfigFile(schema, io.StringIO(text), url, overrides=list(overrides))
    except Exception as e:
        return classify_exc(e), None, None
    return ["ok"], cfg, handler


def real_load_path(schema, path, overrides=()):
    try:
        cfg, handler = ZConfig.loadConfig(schema, path, overrides=list(overrides))
    except Exception as e:
        return classify_exc(e), None, None
    return ["ok"], cfg, handler


def real_load_entry(schema, path, overrides=(), entry="abs", main_rel="main.conf"):
    """the same resource named in one of the four ways of C18: absolute path, path relative to the current directory,
    file: URL, open file object (opened by absolute or by relative path).
    The file objects are opened with newline=LF: their lines end at LF and nowhere else and nothing is translated - the way
    the library itself reads a resource it opens (newline="" would leave the text untranslated but END lines at a lone CR too,
    i.e. hand the parser different lines than the text holds; how a caller's file object splits lines is the caller's business)"""
    import urllib.request
    if entry == "abs":
        return real_load_path(schema, path, overrides)
    root = path[: -len(main_rel)] if path.endswith(main_rel) else os.path.dirname(path)
    cwd0 = os.getcwd()
    try:
        if entry in ("rel", "fileobj-rel"):
            os.chdir(root or "/")
            arg = os.path.relpath(path, root or "/")
        else:
            arg = path
        try:
            if entry == "url":
                cfg, handler = ZConfig.loadConfig(schema, "file://" + urllib.request.pathname2url(path), overrides=list(overrides))
            elif entry == "fileobj-pathurl":
                # an open file object with the plain path name given as its URL (relative references are then joined to a path)
                with open(arg, encoding="utf-8", newline="\n") as f:
                    cfg, handler = ZConfig.loadConfigFile(schema, f, path, overrides=list(overrides))
            elif entry == "fileobj-copy-url":
                # an open file object whose own name is elsewhere (a scratch copy of the main text in an otherwise empty
                # directory) together with the URL of the real location: relative references follow the URL that was given
                import shutil
                import tempfile
                cd = tempfile.mkdtemp(prefix="zcv-copy-", dir="/dev/shm" if os.path.isdir("/dev/shm") else None)
                try:
                    cp = os.path.join(cd, os.path.basename(path))
                    shutil.copyfile(path, cp)
                    with open(cp, encoding="utf-8", newline="\n") as f:
                        cfg, handler = ZConfig.loadConfigFile(schema, f, "file://" + urllib.request.pathname2url(path), overrides=list(overrides))
                finally:
                    shutil.rmtree(cd, ignore_errors=True)
            elif entry.startswith("fileobj"):
                with open(arg, encoding="utf-8", newline="\n") as f:
                    cfg, handler = ZConfig.loadConfigFile(schema, f, overrides=list(overrides))
            else:
                cfg, handler = ZConfig.loadConfig(schema, arg, overrides=list(overrides))
        except Exception as e:
            return classify_exc(e), None, None
        return ["ok"], cfg, handler
    finally:
        os.chdir(cwd0)


def subtypes_table(schema):
    out = []
    for n in schema.gettypenames():
        t = schema.gettype(n)
        if t.isabstract():
            out.append([n, [k for k, _ in t]])
    return out


def model_load_request(elab, lines, url="file:///zcvroot/main.conf", overrides=(), pkgs=(), resources=(), resolve=(), env=()):
    ovs = list(overrides)
    return [Atom("load"), elab, list(pkgs), list(resources), list(resolve), list(env), url, list(lines), ovs]


def spec_load_request(elab, lines, url="file:///zcvroot/main.conf", resources=(), resolve=(), env=()):
    return [Atom("loadspec"), elab, list(resources), list(resolve), list(env), url, list(lines)]


def compare_load(model, outcome, cfg, handler, hnames, schema=None):
    """returns None when model and implementation agree, else a short reason"""
    if model[0] == "bad":
        return "driver rejected the request"
    if model[0] != outcome[0]:
        return "outcome class: model %s, impl %s" % (model[:2], outcome[:2])
    if model[0] == "ok":
        if not match_val(model[1], cfg):
            return "value tree differs"
        if handler is not None:
            if len(handler) != len(model[2]):
                return "handler count: model %d impl %d" % (len(model[2]), len(handler))
            rec = Recorder()
            try:
                handler({n: rec.fn(n) for n in hnames})
            except Exception as e:
                return "handler call raised %s" % type(e).__name__
            if len(rec.calls) != len(model[2]):
                return "handler calls: model %d impl %d" % (len(model[2]), len(rec.calls))
            for (mn, mv), (n, v) in zip(model[2], rec.calls):
                if mn != n or not match_val(mv, v):
                    return "handler entry differs at %s" % n
        return None
    if model[0] == "cfg":
        if model[1] != outcome[1]:
            return "error kind: model %s impl %s" % (model[1], outcome[1])
        if model[2] == DEFAULT_LINE:
            # the value came from a schema default: its position is the XML position, which the model does not carry
            return None
        if model[2] != outcome[2] or model[3] != outcome[3]:
            return "error position: model (%s, %s) impl (%s, %s) [%s]" % (model[2], model[3], outcome[2], outcome[3], model[5])
        if model[1] == "conversion" and model[4] is not None and model[4] != outcome[4]:
            return "conversion value: model %r impl %r" % (model[4], outcome[4])
        return None
    if model[0] in ("internal", "dtexc"):
        return None if model[1] == outcome[1] else "exception: model %s impl %s" % (model[1], outcome[1])
    return "?"
