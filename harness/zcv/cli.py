import argparse
import importlib
import os
import sys
import traceback


def main():
    ap = argparse.ArgumentParser()
    ap.add_argument("prop")
    ap.add_argument("--tier", default=os.environ.get("VERIF_TIER", "quick"), choices=["quick", "thorough"])
    ap.add_argument("--replay")
    a = ap.parse_args()
    seed = int(os.environ.get("VERIF_SEED", "0") or 0)
    from . import core
    if os.environ.get("ZCV_COVERAGE", "1" if a.tier == "thorough" else "0") == "1" and not a.replay:
        try:
            import coverage
            os.environ.setdefault("COVERAGE_CORE", "sysmon")
            save = os.environ.get("ZCV_COVERAGE_SAVE")   # directory: keep the raw data (tools/covunion.py)
            cov = coverage.Coverage(data_file=(os.path.join(save, a.prop + ".cov") if save else None), source=[os.path.join(core.REPO, "src", "ZConfig")], messages=False)
            cov.start()
            core._coverage = cov
        except Exception:
            core._coverage = None
    mod = importlib.import_module("harness.zcv.props." + a.prop.lower())
    ctx = core.Ctx(a.prop, a.tier, seed)
    if a.replay:
        sys.exit(replay(mod, core, a.prop, a.replay))
    try:
        code = mod.run(ctx)
    except Exception:
        traceback.print_exc()
        sys.exit(core.emergency_report(ctx))
    sys.exit(code)


def replay(mod, core, prop, path):
    """--replay FILE: every random choice of a check derives from (seed, tier), both recorded in the replay file, so the
    replay is the same run again: exit 1 (and the VIOLATION lines of that run) if a violation with the recorded signature -
    for a broken tie: any broken obligation or disagreement - shows again on the current tree, exit 0 if it does not.
    A module may provide its own `replay(ctx, path)` (a direct re-evaluation of the recorded input); it is preferred."""
    import json
    import shutil
    rec = json.load(open(path))
    seed, tier = int(rec.get("seed") or 0), rec.get("tier") or "quick"
    ctx = core.Ctx(prop, tier, seed)
    if hasattr(mod, "replay"):
        return mod.replay(ctx, path)
    print("replaying %s: %s (signature %s) with seed=%s tier=%s" % (path, rec.get("what"), rec.get("signature"), seed, tier))
    ev = os.path.join(core.VERIF, "evidence", prop + ".json")
    keep = ev + ".before-replay"
    if os.path.exists(ev):
        shutil.copy(ev, keep)
    try:
        try:
            mod.run(ctx)
        except Exception:
            traceback.print_exc()
            core.emergency_report(ctx)
    finally:
        if os.path.exists(keep):
            shutil.move(keep, ev)      # the evidence file belongs to the registered commands, not to a replay
    if rec.get("kind") == "tie":
        again = bool(ctx.disagreements) or bool(getattr(ctx.tie, "broken", None))
    else:
        sig = rec.get("signature") or rec.get("what")
        again = any((v.signature or v.what) == sig for v in ctx.violations)
    print("replay: %s" % ("REPRODUCED" if again else "not reproduced on this tree"))
    return 1 if again else 0


if __name__ == "__main__":
    main()
