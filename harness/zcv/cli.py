import argparse
import importlib
import os
import sys
import traceback


def main():
    ap = argparse.ArgumentParser()
    ap.add_argument("prop")
    ap.add_argument("--tier", default=os.environ.get("VERIF_TIER", "quick"), choices=["quick", "thorough"])
    ap.add_argument("--replay")
    a = ap.parse_args()
    seed = int(os.environ.get("VERIF_SEED", "0") or 0)
    from . import core
    if os.environ.get("ZCV_COVERAGE", "1" if a.tier == "thorough" else "0") == "1" and not a.replay:
        try:
            import coverage
            os.environ.setdefault("COVERAGE_CORE", "sysmon")
            save = os.environ.get("ZCV_COVERAGE_SAVE")   # directory: keep the raw data (tools/covunion.py)
            cov = coverage.Coverage(data_file=(os.path.join(save, a.prop + ".cov") if save else None), source=[os.path.join(core.REPO, "src", "ZConfig")], messages=False)
            cov.start()
            core._coverage = cov
        except Exception:
            core._coverage = None
    mod = importlib.import_module("harness.zcv.props." + a.prop.lower())
    ctx = core.Ctx(a.prop, a.tier, seed)
    if a.replay:
        sys.exit(mod.replay(ctx, a.replay))
    try:
        code = mod.run(ctx)
    except Exception:
        traceback.print_exc()
        sys.exit(core.emergency_report(ctx))
    sys.exit(code)


if __name__ == "__main__":
    main()
