"""Shared machinery of the checks: build, audit, driver, evidence, replays, known findings."""
import fcntl
import hashlib
import json
import os
import random
import re
import subprocess
import sys
import tempfile
import time

HERE = os.path.dirname(os.path.abspath(__file__))
VERIF = os.path.normpath(os.path.join(HERE, "..", ".."))
LEAN = os.path.join(VERIF, "lean")
GEN = os.path.join(LEAN, "ZCV", "Gen")
REPO = os.environ.get("ZCV_REPO", "/repo")
DRIVER = os.path.join(LEAN, ".lake", "build", "bin", "zcdrv")
DRIVER2 = os.path.join(LEAN, ".lake", "build", "bin", "zcdrv2")     # runs the GENERATED code (Gen/Code*.lean), see Driver2.lean
ALLOWED_AXIOMS = {"propext", "Classical.choice", "Quot.sound"}

sys.path.insert(0, os.path.join(REPO, "src"))
from . import extract, sexp  # noqa: E402

TRUSTED_BASE = [
    "Lean 4.33 kernel (thorough tier: leanchecker re-check)",
    "axioms limited to propext, Classical.choice, Quot.sound (audited per theorem by #print axioms)",
    "translator harness/zcv/extract.py (live regexes/tables -> Lean terms) and the Lean regex semantics standing for CPython sre on the supported subset",
    "correspondence harness: generators, S-expression codec, canonicalisers",
    "CPython string/int primitives mirrored by hand in ZCV/Base.lean (validated by correspondence only)",
    "code translation harness/zcv/pytrans.py (Python AST -> Gen/Code*.lean) and its primitives ZCV/Py.lean: validated by the "
    "'real function vs generated code' streams (driver zcdrv2); parameters: mapping.get, os.getenv, self attributes",
]


class Lock:
    def __init__(self):
        self.path = os.path.join(LEAN, ".build.lock")

    def __enter__(self):
        self.f = open(self.path, "w")
        fcntl.flock(self.f, fcntl.LOCK_EX)
        return self

    def __exit__(self, *a):
        fcntl.flock(self.f, fcntl.LOCK_UN)
        self.f.close()


def run(cmd, cwd=None, timeout=3600, env=None):
    p = subprocess.run(cmd, cwd=cwd, stdout=subprocess.PIPE, stderr=subprocess.STDOUT,
                       text=True, timeout=timeout, env=env)
    return p.returncode, p.stdout


class Tie:
    """what is known about the model<->code tie on this run"""

    def __init__(self):
        self.broken = []   # list of dicts {kind, name, detail}

    def add(self, kind, name, detail):
        self.broken.append({"kind": kind, "name": name, "detail": detail[-4000:]})

    def ok(self):
        return not self.broken


def regenerate(tie, only=None):
    with Lock():
        res = extract.regenerate(GEN, only)
    for name, r in res.items():
        if isinstance(r, tuple):
            tie.add("translator", "Gen/%s.lean" % name, r[1])
    return res


_ERR_RX = re.compile(r"^error: (ZCV/\S+?\.lean):(\d+):(\d+): (.*)$", re.M)


def _theorem_at(path, line):
    """name of the declaration containing `line` of a Lean file"""
    try:
        lines = open(os.path.join(LEAN, path)).read().split("\n")
    except OSError:
        return None
    for i in range(min(line, len(lines)) - 1, -1, -1):
        m = re.match(r"\s*(?:@\[[^\]]*\]\s*)?(?:private\s+|protected\s+)?(theorem|lemma|def|example|instance|abbrev)\s+(\S+)?", lines[i])
        if m:
            return m.group(2) or "example"
    return None


def lake_build(targets, tie, label):
    """build targets; record failing declarations in the tie. Returns True when all built."""
    with Lock():
        rc, out = run(["lake", "build"] + list(targets), cwd=LEAN)
    if rc != 0:
        seen = set()
        for m in _ERR_RX.finditer(out):
            path, line = m.group(1), int(m.group(2))
            th = _theorem_at(path, line)
            key = (path, th)
            if key in seen:
                continue
            seen.add(key)
            tie.add("theorem", "%s:%s" % (path, th), "%s:%d: %s" % (path, line, m.group(4)))
        if not seen:
            tie.add("build", label, out)
    return rc == 0


def ensure_driver(tie):
    ok = lake_build(["zcdrv"], tie, "zcdrv")
    return ok and os.path.exists(DRIVER)


def ensure_driver2(tie):
    """the driver of the generated code.  It is built from Gen/Code*.lean: when a function has left the translatable subset
    (the translator then reported it and the file is stale) or the generated text does not compile, the build fails, the tie
    records it, and the caller carries on with its other streams."""
    ok = lake_build(["zcdrv2"], tie, "zcdrv2")
    return ok and os.path.exists(DRIVER2)


# (theorem names may end in primes: the name is everything between the first quote and the quote before " depends")
_AX_RX = re.compile(r"'(\S+)' depends on axioms: \[([^\]]*)\]|'(\S+)' does not depend on any axioms")


def audit(prop, tie):
    """run ZCV/Audit/<prop>.lean; returns (n_theorems, n_clean, names)"""
    path = os.path.join("ZCV", "Audit", prop + ".lean")
    if not os.path.exists(os.path.join(LEAN, path)):
        tie.add("audit", prop, "missing audit file")
        return 0, 0, []
    with Lock():
        rc, out = run(["lake", "env", "lean", path], cwd=LEAN)
    wanted = re.findall(r"#print axioms\s+(\S+)", open(os.path.join(LEAN, path)).read())
    found = {}
    for m in _AX_RX.finditer(out.replace("\n  ", " ").replace("\n ", " ")):
        if m.group(1):
            found[m.group(1)] = {a.strip() for a in m.group(2).split(",") if a.strip()}
        else:
            found[m.group(3)] = set()
    clean = 0
    for w in wanted:
        short = w.split(".")[-1]
        ax = None
        for k, v in found.items():
            if k == w or k.split(".")[-1] == short:
                ax = v
        if ax is None:
            tie.add("audit", w, "theorem missing or does not check: " + out[-1500:])
        elif not ax <= ALLOWED_AXIOMS:
            tie.add("audit", w, "uses axioms %s" % sorted(ax - ALLOWED_AXIOMS))
        else:
            clean += 1
    return len(wanted), clean, wanted


_FORBIDDEN = re.compile(r"\bsorry\b|\badmit\b|^\s*axiom\s|native_decide|bv_decide|implemented_by|\bunsafe\s|maxHeartbeats\s+0")


def strip_comments(text):
    text = re.sub(r"/-.*?-/", lambda m: "\n" * m.group(0).count("\n"), text, flags=re.S)
    return re.sub(r"--.*", "", text)


def grep_forbidden(tie):
    hits = []
    for root, _, files in os.walk(os.path.join(LEAN, "ZCV")):
        for f in files:
            if f.endswith(".lean"):
                p = os.path.join(root, f)
                for i, l in enumerate(strip_comments(open(p).read()).split("\n"), 1):
                    if _FORBIDDEN.search(l):
                        hits.append("%s:%d: %s" % (os.path.relpath(p, LEAN), i, l.strip()))
    for h in hits:
        tie.add("audit", "forbidden-token", h)
    return hits


def driver_batch(requests, chunk=200000, prelude=(), exe=None):
    """requests: list of python s-expressions; returns list of decoded answers.
    `prelude` requests (state-setting) are replayed at the start of every chunk; their answers are dropped."""
    out = []
    prelude = list(prelude)
    for i in range(0, max(len(requests), 1), chunk):
        part = prelude + requests[i:i + chunk]
        data = "\n".join(sexp.enc(r) for r in part) + "\n"
        p = subprocess.run([exe or DRIVER], input=data, stdout=subprocess.PIPE, stderr=subprocess.PIPE,
                           text=True, encoding="utf-8")
        lines = p.stdout.split("\n")
        if lines and lines[-1] == "":
            lines.pop()
        if p.returncode != 0 or len(lines) != len(part):
            raise RuntimeError("driver failed rc=%s got %d of %d lines: %s" % (
                p.returncode, len(lines), len(part), p.stderr[-500:]))
        out.extend(sexp.dec(l) for l in lines[len(prelude):])
    return out


# ------------------------------------------------------------------ results
class Violation:
    def __init__(self, prop, kind, what, replay, signature=None):
        self.prop = prop
        self.kind = kind            # 'oracle' (impl breaks spec) | 'tie' (obligation/correspondence broken)
        self.what = what
        self.replay = replay        # json-able
        self.signature = signature  # tight class used by known findings


def load_known(prop):
    p = os.path.join(VERIF, "known_findings.json")
    if not os.path.exists(p):
        return []
    return [e for e in json.load(open(p)).get("findings", []) if e.get("property") == prop]


def write_replay(prop, payload):
    d = os.path.join(VERIF, "replays", prop)
    os.makedirs(d, exist_ok=True)
    blob = json.dumps(payload, sort_keys=True, ensure_ascii=True, indent=1, default=str)
    h = hashlib.sha1(blob.encode()).hexdigest()[:12]
    path = os.path.join(d, h + ".json")
    with open(path, "w") as f:
        f.write(blob + "\n")
    return os.path.relpath(path, VERIF)


class Ctx:
    def __init__(self, prop, tier, seed):
        self.prop = prop
        self.tier = tier
        self.seed = seed
        self.rng = random.Random("%s/%s" % (prop, seed))
        self.tie = Tie()
        self.t0 = time.time()
        self.cov = {}           # coverage dict written into evidence
        self.samples = []
        self.evaluations = 0
        self.nontrivial = set()
        self.violations = []
        self.disagreements = []  # correspondence: (input, impl, model)
        self.notes = []
        self.driver_ok = False
        self.deadline = None

    def thorough(self):
        return self.tier == "thorough"

    def count(self, key, n=1):
        d = self.cov.setdefault("distribution", {})
        d[key] = d.get(key, 0) + n

    def sample(self, s, cap=12):
        if len(self.samples) < cap:
            self.samples.append(s)

    def nontriv(self, key):
        self.nontrivial.add(key if isinstance(key, (str, int, tuple)) else repr(key))

    def violate(self, what, replay, signature=None):
        self.violations.append(Violation(self.prop, "oracle", what, replay, signature))

    def disagree(self, stream, inp, impl, model):
        if len(self.disagreements) < 50:
            self.disagreements.append({"stream": stream, "input": inp, "impl": impl, "model": model})
        self.count("disagreements")


def finish(ctx, obligations, discharged, theorems, rule, checker_cmd, assumptions, level="proof", extra=None):
    """decide exit status, print lines, write evidence. Returns exit code."""
    known = load_known(ctx.prop)
    unknown = []
    printed = set()
    for v in ctx.violations:
        hit = None
        for k in known:
            if k.get("status") == "finding" and v.signature and v.signature == k.get("signature"):
                hit = k
        if hit:
            if hit["id"] not in printed:
                print("KNOWN-FINDING: property=%s %s" % (ctx.prop, hit["what"]))
                printed.add(hit["id"])
        else:
            unknown.append(v)
    # known findings whose witness was not re-observed this run are still printed (they are committed facts
    # replayed by the check module; a module reports them through ctx.violations when they still fail)
    code = 0
    seen_sig = set()
    for v in unknown:
        key = v.signature or v.what
        if key in seen_sig:
            continue
        seen_sig.add(key)
        path = write_replay(ctx.prop, {"property": ctx.prop, "kind": v.kind, "what": v.what,
                                       "signature": v.signature, "replay": v.replay,
                                       "seed": ctx.seed, "tier": ctx.tier})
        print("VIOLATION property=%s replay=%s" % (ctx.prop, path))
        code = 1
        if len(seen_sig) >= 5:
            break
    if code == 0 and (not ctx.tie.ok() or ctx.disagreements):
        # the tie is broken and no failing input was found on the real code
        path = write_replay(ctx.prop, {"property": ctx.prop, "kind": "tie",
                                       "what": "proof obligation or correspondence no longer checks; no failing input found",
                                       "broken_obligations": ctx.tie.broken,
                                       "disagreements": ctx.disagreements[:10],
                                       "seed": ctx.seed, "tier": ctx.tier})
        print("VIOLATION property=%s replay=%s no-failing-input-found" % (ctx.prop, path))
        code = 1
    cov = {
        "obligations": obligations,
        "discharged": discharged,
        "checker_cmd": checker_cmd,
        "trusted_base": TRUSTED_BASE,
        "theorems": theorems,
        "evaluations": ctx.evaluations,
        "distinct_nontrivial": len(ctx.nontrivial),
        "rule": rule,
        "samples": ctx.samples or ["(none)"],
        "traces_validated_against_impl": ctx.evaluations,
        "tie_broken": ctx.tie.broken,
        "disagreements": len(ctx.disagreements),
    }
    cov.update(ctx.cov)
    if extra:
        cov.update(extra)
    lines_cov = implementation_line_coverage(ctx.prop)
    if lines_cov is not None:
        cov["implementation_line_coverage"] = lines_cov
    ev = {
        "property_id": ctx.prop,
        "tier": ctx.tier,
        "seed": ctx.seed,
        "level": level,
        "coverage": cov,
        "assumptions": assumptions,
        "wall_s": round(time.time() - ctx.t0, 2),
        "violations": len(unknown) + (1 if code and not unknown else 0),
        "notes": ctx.notes,
    }
    os.makedirs(os.path.join(VERIF, "evidence"), exist_ok=True)
    with open(os.path.join(VERIF, "evidence", ctx.prop + ".json"), "w") as f:
        json.dump(ev, f, indent=1, ensure_ascii=True, default=str)
        f.write("\n")
    return code


def emergency_report(ctx):
    """the check module crashed (an exception of the harness itself - possibly provoked by the very behaviour that is wrong):
    violations recorded before the crash are still reported; returns the exit code (1 if something unlisted was reported, else 2)"""
    known = load_known(ctx.prop)
    code = 2
    seen = set()
    for v in ctx.violations:
        if any(k.get("status") == "finding" and v.signature and v.signature == k.get("signature") for k in known):
            continue
        key = v.signature or v.what
        if key in seen:
            continue
        seen.add(key)
        path = write_replay(ctx.prop, {"property": ctx.prop, "kind": v.kind, "what": v.what, "signature": v.signature, "replay": v.replay,
                                       "seed": ctx.seed, "tier": ctx.tier, "note": "reported after the check module crashed"})
        print("VIOLATION property=%s replay=%s" % (ctx.prop, path))
        code = 1
        if len(seen) >= 5:
            break
    return code


_coverage = None      # set by cli.main when line coverage of the implementation is measured (ZCV_COVERAGE=1 / thorough tier)


def implementation_line_coverage(prop):
    """which lines of the property's anchored source files this run executed in-process (coverage.py): per file
    executed / executable statements and the statements never reached.  Says how much of the modelled code the
    correspondence and the exploration actually exercised; it decides nothing."""
    global _coverage
    if _coverage is None:
        return None
    cov, _coverage = _coverage, None
    try:
        cov.stop()
        if os.environ.get("ZCV_COVERAGE_SAVE"):
            cov.save()
        files = []
        for l in open(os.path.join(VERIF, "properties.jsonl")):
            p = json.loads(l)
            if p["id"] == prop:
                files = [f for f in p.get("anchors", {}).get("files", []) if f.endswith(".py")]
        out = {}
        for rel in files:
            path = os.path.join(REPO, rel)
            try:
                _, executable, _, missing, _ = cov.analysis2(path)
            except Exception as e:
                out[rel] = {"error": type(e).__name__}
                continue
            out[rel] = {"executable_statements": len(executable), "executed": len(executable) - len(missing),
                        "never_reached_lines": missing[:60]}
        return out
    except Exception as e:
        return {"error": "%s: %s" % (type(e).__name__, e)}


def standard_prelude(ctx, build_targets):
    """steps 1-2 of every check: regenerate, build, audit. Returns (obligations, discharged, theorem names)."""
    regenerate(ctx.tie)
    lake_build(build_targets, ctx.tie, ",".join(build_targets))
    ctx.driver_ok = ensure_driver(ctx.tie)
    n, clean, names = audit(ctx.prop, ctx.tie)
    grep_forbidden(ctx.tie)
    if ctx.thorough():
        mods = [t for t in build_targets if t.startswith("ZCV.")]
        with Lock():
            rc, out = run(["lake", "env", "leanchecker"] + mods, cwd=LEAN, timeout=3600)
        ctx.cov["leanchecker"] = "ok" if rc == 0 else out[-500:]
        if rc != 0:
            ctx.tie.add("audit", "leanchecker", out[-1500:])
    return n, clean, names
