"""Correspondence between the Lean model of the schema loader (ZCV/Model/Elab.lean) and ZConfig.loadSchema*.

The model starts from the XML element tree; the harness gets that tree from the same text with expat (xml.dom.minidom),
so XML text -> tree is trusted, not modelled.  The registry's view of dotted datatype names, the importability of
component packages and the documents of base schemas are probed on the real interpreter and handed to the model as
tables (they are the environment, not the schema loader)."""
import io
import os
import sys
import xml.dom.minidom

from . import core, schemafam as F
from .sexp import Atom, enc


def to_tree(node):
    if node.nodeType == node.ELEMENT_NODE:
        attrs = [[k, v] for k, v in node.attributes.items()]
        kids = []
        for c in node.childNodes:
            if c.nodeType in (c.TEXT_NODE, c.CDATA_SECTION_NODE):
                kids.append([Atom("t"), c.data])
            elif c.nodeType == c.ELEMENT_NODE:
                kids.append(to_tree(c))
        return [Atom("e"), node.tagName, attrs, kids]
    raise ValueError(node.nodeType)


def parse_tree(text):
    """element tree of a document, or None when the text is not well-formed XML (not the model's business)"""
    try:
        return to_tree(xml.dom.minidom.parseString(text.encode("utf-8")).documentElement)
    except Exception:
        return None


def _walk(tree):
    yield tree
    for c in tree[3]:
        if c[0] == "e":
            yield from _walk(c)


def _prefix_closure(trees):
    """every prefix a relative name could be resolved against: compositions of the prefix attributes that occur"""
    pre = set()
    for t in trees:
        for e in _walk(t):
            for k, v in e[2]:
                if k == "prefix" and v:
                    pre.add(v)
    full = {""}
    for _ in range(3):
        for p in list(full):
            for q in pre:
                full.add(p + q if q.startswith(".") else q)
    return full


def probe_dotted(names):
    import ZConfig.datatypes
    out = []
    for n in sorted(names):
        try:
            ZConfig.datatypes.Registry().get(n)
            out.append([n, [Atom("found"), n]])
        except ValueError:
            out.append([n, Atom("valueerror")])
        except Exception as e:
            out.append([n, [Atom("raises"), Atom(type(e).__name__)]])
    return out


def probe_component(pkg, fname):
    """what schemaComponentSource / openResource find for (package, file)"""
    try:
        __import__(pkg)
    except ImportError:
        return Atom("notimportable")
    except Exception:
        return Atom("notimportable")
    m = sys.modules[pkg]
    if not hasattr(m, "__path__"):
        return Atom("notpackage")
    for d in m.__path__:
        p = os.path.join(d, fname)
        if os.path.exists(p):
            t = parse_tree(open(p, encoding="utf-8").read())
            if t is None:
                return Atom("nofile")
            return [Atom("doc"), t]
    return Atom("nofile")


def environment(tree, base_dir=None):
    """tables for the model: dotted names, components (transitively), base schemas (transitively)"""
    trees = [tree]
    comps, bases = {}, {}
    todo = [tree]
    while todo:
        t = todo.pop()
        prefixes = _prefix_closure(trees)
        for e in _walk(t):
            a = dict(e[2])
            if e[1] == "import" and a.get("package", "").strip():
                pkg0 = a["package"].strip()
                fname = a.get("file", "").strip() or "component.xml"
                for p in ([q + pkg0 for q in prefixes] if pkg0.startswith(".") else [pkg0]):
                    if (p, fname) in comps or "" in p.split("."):
                        continue
                    r = probe_component(p, fname)
                    comps[(p, fname)] = r
                    if isinstance(r, list):
                        trees.append(r[1])
                        todo.append(r[1])
            if e[1] == "schema" and a.get("extends") and base_dir is not None:
                for src in a["extends"].split():
                    # a reference with a fragment is refused before anything is opened; an EMPTY fragment ('x.xml#') is none
                    if src in bases or src.partition("#")[2]:
                        continue
                    p = os.path.join(base_dir, src.partition("#")[0])
                    if os.path.exists(p):
                        bt = parse_tree(open(p, encoding="utf-8").read())
                        if bt is not None:
                            bases[src] = bt
                            trees.append(bt)
                            todo.append(bt)
    prefixes = _prefix_closure(trees)
    names = set()
    for t in trees:
        for e in _walk(t):
            for k, v in e[2]:
                if k in ("datatype", "keytype", "valuetype"):
                    if v.startswith("."):
                        names.update(p + v for p in prefixes)
                    elif "." in v:
                        names.add(v)
    dotted = probe_dotted(n for n in names if "." in n)
    return dotted, [[p, f, r] for (p, f), r in comps.items()], [[s, t] for s, t in bases.items()]


def model_request(text, base_dir=None):
    tree = parse_tree(text)
    if tree is None:
        return None
    dotted, comps, bases = environment(tree, base_dir)
    return [Atom("elab"), tree, dotted, comps, bases]


def real_outcome(text, url=None):
    """(kind, digest-or-exception-name)"""
    import ZConfig
    try:
        s = ZConfig.loadSchemaFile(io.StringIO(text), url)
    except ZConfig.SchemaResourceError as e:
        return ["err", "schema-resource", str(e.message)]
    except ZConfig.SchemaError as e:
        return ["err", "schema", str(e.message)]
    except ZConfig.DataConversionError as e:
        return ["err", "conversion", str(e.message)]
    except ZConfig.ConfigurationError as e:
        return ["err", "other-cfg:" + type(e).__name__]
    except Exception as e:
        return ["err", "internal", type(e).__name__]
    try:
        return ["ok", enc(F.digest(s))]
    except Exception as e:
        return ["ok", "undigestible:" + type(e).__name__]


def canon_model(a):
    if a[0] == "ok":
        return ["ok", enc(a[1]), a[2] == "t"]
    if a[0] == "err":
        if a[1] == "internal":
            return ["err", "internal", a[2]]
        return ["err", str(a[1]), a[2]]
    return ["bad", a]


def compare(ctx, stream, texts, base_dir=None, url=None, reals=None):
    """run the model and the real loader on each document; record disagreements. Returns list of (real, model)."""
    reqs, idx = [], []
    for i, t in enumerate(texts):
        r = model_request(t, base_dir)
        if r is not None:
            reqs.append(r)
            idx.append(i)
    ans = core.driver_batch(reqs, chunk=2000) if (ctx.driver_ok and reqs) else []
    out = [None] * len(texts)
    for i, a in zip(idx, ans):
        m = canon_model(a)
        real = reals[i] if reals is not None else real_outcome(texts[i], url)
        out[i] = (real, m)
        ctx.count("elab:%s:%s" % (stream, real[0] if real[0] == "ok" else real[1]))
        if m[0] == "bad":
            ctx.disagree("elab:" + stream, {"schema_xml": texts[i]}, real[:2], "driver rejected the request")
        elif real[0] != m[0]:
            ctx.disagree("elab:" + stream, {"schema_xml": texts[i]}, real[:3], m[:3])
        elif real[0] == "ok":
            if real[1] != m[1]:
                ctx.disagree("elab:" + stream + ":schema-object", {"schema_xml": texts[i]}, real[1][:1500], m[1][:1500])
            elif not m[2]:
                ctx.disagree("elab:" + stream + ":schemaOK", {"schema_xml": texts[i]}, "accepted", "model's schema violates schemaOK")
        else:
            rk = real[1]
            if rk == "internal":
                if m[1] != "internal":
                    ctx.disagree("elab:" + stream, {"schema_xml": texts[i]}, real[:3], m[:3])
            elif rk != m[1]:
                ctx.disagree("elab:" + stream, {"schema_xml": texts[i]}, real[:3], m[:3])
            elif rk == "schema" and not all(part.strip() in real[2] for part in m[2].split("\u2026")):
                # same exception class but (apparently) another rule fired: the model's reason is normally part of the
                # real message.  Messages are not a property-level observable (a reworded message is harmless), so this
                # is recorded in the evidence, not treated as a disagreement.
                ctx.count("elab-reason-differs:" + stream)
                if len(ctx.notes) < 5:
                    ctx.notes.append("elab reason differs: model %r, real message %r" % (m[2], real[2][:120]))
    return out
